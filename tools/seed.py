#!/usr/bin/env python3
"""Confirm a seeded change written by a sub-agent and run the checks against it.

  seed.py <source dir with patch.diff, demo_test.go, meta.json> <name> [--props C04,C08] [--tier quick|thorough] [--scale X]

1. in a scratch worktree of /repo (removed afterwards): the demo passes without the patch; with the patch the
   project builds, the existing suite passes, and the demo fails;
2. the patch is applied to /repo, the checks of the listed properties are run (evidence and replay files go
   to a scratch directory), and the patch is undone (git checkout);
3. everything is recorded in /verif/seeded/<name>/ (patch.diff, demo_test.go, meta.json).
"""
import json, os, re, shutil, subprocess, sys, tempfile, time

ROOT = os.path.dirname(os.path.dirname(os.path.abspath(__file__)))
ENV = dict(os.environ, GOFLAGS="-mod=mod", GOPROXY="off", GOSUMDB="off", GOTOOLCHAIN="local")


def sh(cmd, cwd, timeout=1800, env=None):
    r = subprocess.run(cmd, cwd=cwd, env=env or ENV, shell=isinstance(cmd, str), stdout=subprocess.PIPE, stderr=subprocess.STDOUT, text=True, timeout=timeout)
    return r.returncode, r.stdout


def place_demo(wt, demo, shell_demo):
    if shell_demo:
        os.makedirs(os.path.join(wt, "seeded", "1"), exist_ok=True)
        shutil.copy(demo, os.path.join(wt, "seeded", "1", "demo.sh"))
    else:
        shutil.copy(demo, os.path.join(wt, "tests", "seeded_demo_test.go"))


def remove_demo(wt, shell_demo):
    if shell_demo:
        shutil.rmtree(os.path.join(wt, "seeded"), ignore_errors=True)
    else:
        os.remove(os.path.join(wt, "tests", "seeded_demo_test.go"))


def main():
    src, name = sys.argv[1], sys.argv[2]
    props, tier, scale = None, "quick", None
    inplace = "--inplace" in sys.argv
    a = [x for x in sys.argv[3:] if x != "--inplace"]
    while a:
        if a[0] == "--props":
            props = a[1].split(",")
        elif a[0] == "--tier":
            tier = a[1]
        elif a[0] == "--scale":
            scale = a[1]
        a = a[2:]
    meta = json.load(open(os.path.join(src, "meta.json")))
    if props is None:
        props = [meta["property"]]
    patch = os.path.join(src, "patch.diff")
    demo = os.path.join(src, "demo_test.go")
    shell_demo = not os.path.exists(demo) and os.path.exists(os.path.join(src, "demo.sh"))
    if shell_demo:
        demo = os.path.join(src, "demo.sh")
    test_name = meta.get("demo_test_name", "")
    out = {"confirmed": {}}
    if inplace and subprocess.run("git -C /repo status --porcelain", shell=True, stdout=subprocess.PIPE, text=True).stdout.strip():
        print("/repo is not clean")
        return 2

    wt = tempfile.mkdtemp(prefix="wtv-", dir="/tmp")
    os.rmdir(wt)
    rc, o = sh("git -C /repo worktree add -q --detach %s HEAD" % wt, "/")
    try:
        place_demo(wt, demo, shell_demo)
        race = "-race" if "race" in (meta.get("demo_cmd", "") + meta.get("needs_to_manifest", "")).lower() and "-race" in meta.get("demo_cmd", "") else ""
        demo_cmd = "go test -vet=off -count=1 %s -run '^%s' ./tests/" % (race, test_name)
        if shell_demo:
            demo_cmd = "sh seeded/1/demo.sh"
        rc0, o0 = sh(demo_cmd, wt)
        out["confirmed"]["demo_without_patch"] = "pass" if rc0 == 0 else "FAIL"
        remove_demo(wt, shell_demo)
        rc, o = sh("git apply %s" % patch, wt)
        if rc != 0:
            print("patch does not apply:\n" + o)
            out["confirmed"]["applies"] = False
            return 2
        rcb, ob = sh("go build ./... && go test -vet=off -count=1 ./...", wt)
        if rcb != 0:
            # the unchanged suite has a flaky test (tests/edge_test.go TestEdgeNeighbor on a random Yule tree): one retry
            rcb, ob = sh("go test -vet=off -count=1 ./...", wt)
        out["confirmed"]["suite_with_patch"] = "pass" if rcb == 0 else "FAIL"
        if rcb != 0:
            print(ob[-3000:])
        place_demo(wt, demo, shell_demo)
        rc1, o1 = sh(demo_cmd, wt)
        if rc1 == 0 and not race:
            # concurrency demos may need several tries
            for _ in range(3):
                rc1, o1 = sh(demo_cmd, wt)
                if rc1 != 0:
                    break
        out["confirmed"]["demo_with_patch"] = "fail" if rc1 != 0 else "PASS"
        out["confirmed"]["demo_cmd"] = demo_cmd
        out["confirmed"]["demo_failure_excerpt"] = "\n".join([l for l in o1.splitlines() if "---" in l or "Error" in l or "seeded_demo" in l][:6])
        print(json.dumps(out["confirmed"], indent=1))
        ok = out["confirmed"].get("demo_without_patch") == "pass" and out["confirmed"].get("suite_with_patch") == "pass" and out["confirmed"].get("demo_with_patch") == "fail"
        results = {}
        remove_demo(wt, shell_demo)
        if ok and not inplace:
            # run the checks against the patched scratch worktree (development shortcut: several seeds in parallel)
            scratch = tempfile.mkdtemp(prefix="vseed-", dir="/tmp")
            try:
                for pid in props:
                    env = dict(ENV, VERIF_REPO=wt, VERIF_REPLAY_DIR=os.path.join(scratch, "replays"), VERIF_EVIDENCE_DIR=os.path.join(scratch, "evidence"))
                    if scale:
                        env["VERIF_SCALE"] = scale
                        env["VERIF_FUZZ_SCALE"] = scale
                    t0 = time.time()
                    rc, o = sh(["./verif.sh", "run", pid, tier], ROOT, timeout=7200, env=env)
                    v = re.findall(r"^VIOLATION .*\n  (.*)$", o, re.M)
                    results[pid] = {"tier": tier, "exit": rc, "seconds": round(time.time() - t0, 1), "violations": [x[:300] for x in v[:4]], "against": "patched scratch worktree"}
                    print(pid, tier, "exit", rc, "in %.0fs" % (time.time() - t0), (v[0][:200] if v else o.strip().splitlines()[-1][:200]))
            finally:
                shutil.rmtree(scratch, ignore_errors=True)
                shutil.rmtree(os.path.join(ROOT, ".work", "alt", __import__("hashlib").sha1(wt.encode()).hexdigest()[:12]), ignore_errors=True)
    finally:
        sh("git -C /repo worktree remove --force %s" % wt, "/")
        shutil.rmtree(wt, ignore_errors=True)
    if ok and inplace:
        rc, o = sh("git -C /repo apply %s" % patch, "/")
        if rc != 0:
            print("patch does not apply to /repo: " + o)
            return 2
        scratch = tempfile.mkdtemp(prefix="vseed-", dir="/tmp")
        try:
            for pid in props:
                env = dict(ENV, VERIF_REPLAY_DIR=os.path.join(scratch, "replays"), VERIF_EVIDENCE_DIR=os.path.join(scratch, "evidence"))
                if scale:
                    env["VERIF_SCALE"] = scale
                    env["VERIF_FUZZ_SCALE"] = scale
                t0 = time.time()
                rc, o = sh(["./verif.sh", "run", pid, tier], ROOT, timeout=7200, env=env)
                v = re.findall(r"^VIOLATION .*\n  (.*)$", o, re.M)
                results[pid] = {"tier": tier, "exit": rc, "seconds": round(time.time() - t0, 1), "violations": [x[:300] for x in v[:4]], "against": "/repo with the patch applied (undone afterwards)"}
                print(pid, tier, "exit", rc, "in %.0fs" % (time.time() - t0), (v[0][:200] if v else o.strip().splitlines()[-1][:200]))
        finally:
            sh("git -C /repo checkout -- .", "/")
            shutil.rmtree(scratch, ignore_errors=True)
    dst = os.path.join(ROOT, "seeded", name)
    os.makedirs(dst, exist_ok=True)
    shutil.copy(patch, os.path.join(dst, "patch.diff"))
    shutil.copy(demo, os.path.join(dst, os.path.basename(demo)))
    prev = {}
    if os.path.exists(os.path.join(dst, "meta.json")):
        prev = json.load(open(os.path.join(dst, "meta.json")))
    runs = prev.get("check_runs", {})
    for pid, r in results.items():
        runs.setdefault(pid, [])
        runs[pid].append(r)
    m = {"property": meta["property"], "title": meta.get("title"), "what_changed": meta.get("what_changed"),
         "needs_to_manifest": meta.get("needs_to_manifest"), "demo_test_name": test_name,
         "written_by": "independent sub-agent given only the property text and a scratch worktree",
         "confirmed_by_hand": out["confirmed"], "kept": ok, "check_runs": runs,
         "detected": any(r["exit"] == 1 for rs in runs.values() for r in rs)}
    json.dump(m, open(os.path.join(dst, "meta.json"), "w"), indent=1)
    print("kept" if ok else "NOT kept (confirmation failed)", "->", dst, "detected:", m["detected"])
    return 0


if __name__ == "__main__":
    sys.exit(main())
