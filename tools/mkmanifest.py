#!/usr/bin/env python3
"""Regenerates MANIFEST.json from tools/manifest_src.json (claimed checks) so that the file is always valid."""
import json, os
ROOT = os.path.dirname(os.path.dirname(os.path.abspath(__file__)))
src = json.load(open(os.path.join(ROOT, "tools", "manifest_src.json")))
props = [json.loads(l) for l in open(os.path.join(ROOT, "properties.jsonl"))]
checks = []
na = []
for p in props:
    pid = p["id"]
    c = src["checks"].get(pid)
    if c is None or not os.path.isdir(os.path.join(ROOT, "checks", pid.lower())):
        na.append({"property_id": pid, "reason": src.get("not_applicable", {}).get(pid, "check not built yet in this session; property-based testing applies to it (see DESIGN.md section 5)")})
        continue
    checks.append({
        "property_id": pid,
        "quick_cmd": "./verif.sh run %s quick" % pid,
        "thorough_cmd": "./verif.sh run %s thorough" % pid,
        "evidence_file": "/verif/evidence/%s.json" % pid,
        "replay_cmd_template": "./verif.sh replay %s {path}" % pid,
        "engine": "rapid-pbt",
        "level_claimed": {"category": "exploration", "text": c["level_text"], "design_ref": "DESIGN.md section 5, " + pid},
        "level_note": c["level_note"],
        "technique": c["technique"],
    })
m = {
    "version": 1,
    "setup_cmd": "./verif.sh setup",
    "hooks": {
        "guard": "verif",
        "enable": "go build/test -tags verif (the driver passes the tag to every build; no hook file exists in /repo at present)",
        "baseline_off_cmd": "cd /repo && go build ./... && go test -vet=off -count=1 -timeout 25m ./...",
        "source_commits": src.get("hook_commits", []),
        "add_only": True,
    },
    "engines": [
        {"name": "rapid-pbt", "path": "/verif/tools/verif.py", "serves_properties": [c["property_id"] for c in checks],
         "kind_free_text": "property-based testing with pgregory.net/rapid v1.3.0 (generators, shrinking, plain-data replay files), sharded by seed; native go fuzzing and exhaustive small-scope enumeration in the thorough tier where stated; independent reference model as oracle"},
    ],
    "checks": checks,
    "notes": src.get("notes", ""),
    "not_applicable": na,
}
json.dump(m, open(os.path.join(ROOT, "MANIFEST.json"), "w"), indent=1)
print("MANIFEST.json: %d checks, %d not claimed" % (len(checks), len(na)))
