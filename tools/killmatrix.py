#!/usr/bin/env python3
"""Prints the table of seeded changes (seeded/*/meta.json) as markdown: what each needs to manifest,
which check caught it at which tier, and what was changed in the machinery when it was first missed."""
import json, glob, os
ROOT = os.path.dirname(os.path.dirname(os.path.abspath(__file__)))
rows = []
for f in sorted(glob.glob(os.path.join(ROOT, "seeded", "*", "meta.json"))):
    m = json.load(open(f))
    name = os.path.basename(os.path.dirname(f))
    runs = m.get("check_runs", {})
    caught, missed_first = [], False
    for pid, rs in sorted(runs.items()):
        for i, r in enumerate(rs):
            if r["exit"] == 1:
                v = (r.get("violations") or [""])[0]
                caught.append("%s %s (%ss): %s" % (pid, r["tier"], int(r["seconds"]), v.replace("|", "/")[:110]))
                break
            elif i == 0:
                missed_first = True
    status = "caught" if caught else "MISSED"
    own = m.get("property")
    own_caught = any(r["exit"] == 1 for r in runs.get(own, []))
    other = sorted(pid for pid, rs in runs.items() if pid != own and any(r["exit"] == 1 for r in rs))
    if not caught and m.get("outside_the_quantifier"):
        status = "not reported (outside the property's quantifier, see 14.2, 14.7 and 14.9)"
    if caught and missed_first:
        status = "caught after strengthening"
    if caught and not own_caught and other:
        status = "caught by the check of " + ", ".join(other)
    rows.append((name, (m.get("title") or "").replace("|", "/")[:150], (m.get("needs_to_manifest") or "").replace("|", "/").replace("\n", " ")[:170], status, "; ".join(caught) if caught else "-", m.get("note", "")))
print("| Seeded change | What it does | Needs, to manifest | Result | Caught by |")
print("|---|---|---|---|---|")
for r in rows:
    print("| %s | %s | %s | %s | %s |" % r[:5])
n = len(rows)
c = sum(1 for r in rows if r[3].startswith("caught"))
o = sum(1 for r in rows if r[3].startswith("not reported"))
x = sum(1 for r in rows if r[3].startswith("caught by the check of"))
print("\n%d seeded changes kept, %d caught (%d only after a check was strengthened, %d only by the check of another property), %d outside the quantifier of its property, %d missed." % (n, c, sum(1 for r in rows if "after" in r[3]), x, o, n - c - o))
