#!/usr/bin/env python3
"""Run the current checks again against a kept seeded change (after a strengthening).

  recheck.py <name> [--props C04,C08] [--tier quick|thorough] [--label text] [--dry]   (--dry: do not record the run)

The patch of /verif/seeded/<name>/ is applied to a scratch worktree of /repo (removed afterwards; /repo itself
is not touched, so this can run next to other checks), the checks are built against it through VERIF_REPO, and
the result is appended to check_runs in meta.json.
"""
import hashlib, json, os, re, shutil, subprocess, sys, tempfile, time

ROOT = os.path.dirname(os.path.dirname(os.path.abspath(__file__)))
ENV = dict(os.environ, GOFLAGS="-mod=mod", GOPROXY="off", GOSUMDB="off", GOTOOLCHAIN="local")


def sh(cmd, cwd, timeout=7200, env=None):
    r = subprocess.run(cmd, cwd=cwd, env=env or ENV, shell=isinstance(cmd, str), stdout=subprocess.PIPE, stderr=subprocess.STDOUT, text=True, timeout=timeout)
    return r.returncode, r.stdout


def main():
    name = sys.argv[1]
    props, tier, label = None, "quick", "after strengthening"
    dry = "--dry" in sys.argv
    a = [x for x in sys.argv[2:] if x != "--dry"]
    while a:
        if a[0] == "--props":
            props = a[1].split(",")
        elif a[0] == "--tier":
            tier = a[1]
        elif a[0] == "--label":
            label = a[1]
        a = a[2:]
    dst = os.path.join(ROOT, "seeded", name)
    meta = json.load(open(os.path.join(dst, "meta.json")))
    if props is None:
        props = [meta["property"]]
    wt = tempfile.mkdtemp(prefix="wtr-", dir="/tmp")
    os.rmdir(wt)
    rc, o = sh("git -C /repo worktree add --detach %s HEAD" % wt, "/")
    if rc != 0:
        print(o)
        return 2
    results = {}
    scratch = tempfile.mkdtemp(prefix="vseed-", dir="/tmp")
    try:
        rc, o = sh("git apply %s" % os.path.join(dst, "patch.diff"), wt)
        if rc != 0:
            print("patch does not apply: " + o)
            return 2
        for pid in props:
            env = dict(ENV, VERIF_REPO=wt, VERIF_REPLAY_DIR=os.path.join(scratch, "replays"), VERIF_EVIDENCE_DIR=os.path.join(scratch, "evidence"))
            t0 = time.time()
            rc, o = sh(["./verif.sh", "run", pid, tier], ROOT, env=env)
            v = re.findall(r"^VIOLATION .*\n  (.*)$", o, re.M)
            results[pid] = {"tier": tier, "exit": rc, "seconds": round(time.time() - t0, 1), "violations": [x[:300] for x in v[:4]],
                            "against": "patched scratch worktree", "when": label}
            print(name, pid, tier, "exit", rc, "in %.0fs" % (time.time() - t0), (v[0][:160] if v else o.strip().splitlines()[-1][:160]))
    finally:
        sh("git -C /repo worktree remove --force %s" % wt, "/")
        shutil.rmtree(wt, ignore_errors=True)
        shutil.rmtree(scratch, ignore_errors=True)
        shutil.rmtree(os.path.join(ROOT, ".work", "alt", hashlib.sha1(wt.encode()).hexdigest()[:12]), ignore_errors=True)
    if dry:
        return 0
    runs = meta.get("check_runs", {})
    for pid, r in results.items():
        runs.setdefault(pid, []).append(r)
    meta["check_runs"] = runs
    meta["detected"] = any(r["exit"] == 1 for rs in runs.values() for r in rs)
    json.dump(meta, open(os.path.join(dst, "meta.json"), "w"), indent=1)
    return 0


if __name__ == "__main__":
    sys.exit(main())
