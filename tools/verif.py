#!/usr/bin/env python3
"""Driver of the gotree verification checks (python3 stdlib only).

  verif.py setup                 build every check binary (warms the Go build cache)
  verif.py run  <ID> <tier>      build checks/<id> against /repo's working tree, run it in shards,
                                 merge statistics, write evidence/<ID>.json, print findings
  verif.py replay <ID> <path>    re-run one saved case

Exit status of run: 0 = property held on everything explored (known findings are printed as
KNOWN-FINDING lines), 1 = violation (a VIOLATION line names the replay file), 2 = inconclusive
for infrastructure reasons (build failure of the harness, worker death not reproducible, budget).
"""
import json, os, re, shutil, subprocess, sys, time, glob, hashlib

ROOT = os.path.dirname(os.path.dirname(os.path.abspath(__file__)))
WORK = os.path.join(ROOT, ".work")
REPO = os.environ.get("VERIF_REPO") or "/repo"   # development only: a scratch copy of the repository (seeded changes)


def modfile_args():
    """With VERIF_REPO set, build against that copy through an alternate go.mod (replace rewritten)."""
    if REPO == "/repo":
        return []
    d = os.path.join(WORK, "alt", hashlib.sha1(REPO.encode()).hexdigest()[:12])
    os.makedirs(d, exist_ok=True)
    mod = open(os.path.join(ROOT, "go.mod")).read().replace("=> /repo", "=> " + REPO)
    open(os.path.join(d, "go.mod"), "w").write(mod)
    shutil.copy(os.path.join(ROOT, "go.sum"), os.path.join(d, "go.sum"))
    return ["-modfile=" + os.path.join(d, "go.mod")]

# per-property configuration: shards (quick, thorough), race build, global budgets in seconds
CONF = {
    "C06": {"needs_cli": True}, "C08": {"needs_cli": True}, "C09": {"needs_cli": True}, "C10": {"needs_cli": True},
    "C01": {"needs_cli": True, "fuzz": [("FuzzRoundTrip", 90), ("FuzzText", 90)]},
    "C02": {"needs_cli": True, "fuzz": [("FuzzNewick", 60), ("FuzzNexus", 60), ("FuzzPhyloXML", 45), ("FuzzNextstrain", 45)]}, "C03": {"needs_cli": True}, "C04": {"needs_cli": True}, "C05": {"needs_cli": True}, "C07": {"needs_cli": True},
    "C11": {"race": True, "shards": (4, 8)},
    "C12": {"needs_cli": True}, "C13": {"needs_cli": True, "fuzz": [("FuzzSingleMulti", 120)]}, "C14": {"needs_cli": True}, "C15": {"needs_cli": True}, "C16": {"needs_cli": True}, "C17": {"needs_cli": True},
    "C18": {"needs_cli": True}, "C19": {"needs_cli": True}, "C20": {"needs_cli": True},
    "C06cli": {},
}
DEFAULT_SHARDS = (8, 16)
BUDGET = {"quick": 900, "thorough": 7200}


def goenv():
    env = dict(os.environ)
    env.update({"GOFLAGS": "-mod=mod", "GOPROXY": "off", "GOSUMDB": "off", "GOTOOLCHAIN": "local",
                "CGO_ENABLED": env.get("CGO_ENABLED", "1")})
    return env


def bindir():
    if REPO == "/repo":
        return os.path.join(WORK, "bin")
    return os.path.join(WORK, "alt", hashlib.sha1(REPO.encode()).hexdigest()[:12], "bin")


def pkgdir(pid):
    return os.path.join(ROOT, "checks", pid.lower())


def build(pid, log):
    """go test -c of the check package (and the gotree CLI when the check drives it)."""
    os.makedirs(os.path.join(WORK, "bin"), exist_ok=True)
    conf = CONF.get(pid, {})
    out = os.path.join(bindir(), pid.lower() + ".test")
    os.makedirs(bindir(), exist_ok=True)
    cmd = ["go", "test", "-c", "-tags", "verif", "-vet=off", "-o", out] + modfile_args()
    if conf.get("race"):
        cmd.append("-race")
    cmd.append("./checks/" + pid.lower())
    t0 = time.time()
    r = subprocess.run(cmd, cwd=ROOT, env=goenv(), stdout=subprocess.PIPE, stderr=subprocess.STDOUT, text=True)
    log.write("$ %s\n%s(%.1fs)\n" % (" ".join(cmd), r.stdout, time.time() - t0))
    if r.returncode != 0:
        return None, r.stdout
    if conf.get("needs_cli"):
        cli = os.path.join(bindir(), "gotree")
        cmd = ["go", "build", "-tags", "verif", "-o", cli, "."]
        env = goenv()
        env["GOFLAGS"] = "-mod=mod"
        r = subprocess.run(cmd, cwd=REPO, env=env, stdout=subprocess.PIPE, stderr=subprocess.STDOUT, text=True)
        log.write("$ (cd /repo) %s\n%s\n" % (" ".join(cmd), r.stdout))
        if r.returncode != 0:
            return None, r.stdout
    return out, ""


def read_journal(d):
    p = os.path.join(d, "journal")
    try:
        b = open(p, "rb").read()
    except OSError:
        return None
    if not b:
        return None
    try:
        test, check, n, rest = b.split(b"\n", 3)
        case = rest[:int(n)]
        return {"test": test.decode(), "check": check.decode(), "case": json.loads(case)}
    except Exception:
        return None


def run_replay(binary, pid, path, timeout=120, extra_env=None):
    env = goenv()
    env.update({"VERIF_REPLAY": path, "VERIF_OUT": "", "VERIF_CLI": os.path.join(bindir(), "gotree")})
    if extra_env:
        env.update(extra_env)
    try:
        r = subprocess.run([binary, "-test.timeout", "0", "-test.count", "1"], cwd=pkgdir(pid), env=env,
                           stdout=subprocess.PIPE, stderr=subprocess.STDOUT, text=True, timeout=timeout)
        return r.returncode, r.stdout
    except subprocess.TimeoutExpired as e:
        return 124, (e.stdout or b"").decode("utf8", "replace") if isinstance(e.stdout, bytes) else (e.stdout or "")


def cmd_setup():
    os.makedirs(WORK, exist_ok=True)
    log = open(os.path.join(WORK, "setup.log"), "w")
    ok = True
    for pid in sorted(CONF):
        if not os.path.isdir(pkgdir(pid)):
            continue
        out, msg = build(pid, log)
        if out is None:
            print("setup: build of %s failed:\n%s" % (pid, msg))
            ok = False
    print("setup done" if ok else "setup failed")
    return 0 if ok else 2


def cmd_run(pid, tier):
    t0 = time.time()
    seed = int(os.environ.get("VERIF_SEED", "1") or "1")
    conf = CONF.get(pid, {})
    rundir = os.path.join(WORK if REPO == "/repo" else os.path.dirname(bindir()), "run", pid, tier)
    shutil.rmtree(rundir, ignore_errors=True)
    os.makedirs(rundir, exist_ok=True)
    log = open(os.path.join(rundir, "driver.log"), "w")
    evidence_path = os.path.join(os.environ.get("VERIF_EVIDENCE_DIR") or os.path.join(ROOT, "evidence"), pid + ".json")
    os.makedirs(os.path.dirname(evidence_path), exist_ok=True)

    binary, msg = build(pid, log)
    if binary is None:
        print("INCONCLUSIVE property=%s harness or repository does not build:\n%s" % (pid, msg[-3000:]))
        return 2

    shards = conf.get("shards", DEFAULT_SHARDS)[0 if tier == "quick" else 1]
    shards = int(os.environ.get("VERIF_SHARDS", shards))
    budget = int(os.environ.get("VERIF_BUDGET", BUDGET[tier]))
    procs = []
    for s in range(shards):
        d = os.path.join(rundir, "shard%d" % s)
        os.makedirs(d, exist_ok=True)
        env = goenv()
        env.update({"VERIF_OUT": d, "VERIF_TIER": tier, "VERIF_SEED": str(seed), "VERIF_SHARD": str(s),
                    "VERIF_NSHARDS": str(shards), "VERIF_CLI": os.path.join(bindir(), "gotree"),
                    "VERIF_REPLAY": "", "VERIF_SCRATCH": os.path.join(d, "scratch")})
        if conf.get("race"):
            env["GORACE"] = "halt_on_error=0 exitcode=66 log_path=" + os.path.join(d, "race")
        out = open(os.path.join(d, "out.txt"), "w")
        p = subprocess.Popen([binary, "-test.timeout", "0", "-test.count", "1", "-test.v"], cwd=pkgdir(pid), env=env,
                             stdout=out, stderr=subprocess.STDOUT)
        procs.append((s, d, p, out))

    deadline = t0 + budget
    timed_out = False
    while True:
        alive = [p for (_, _, p, _) in procs if p.poll() is None]
        if not alive:
            break
        if time.time() > deadline:
            timed_out = True
            for p in alive:
                p.kill()
            break
        time.sleep(0.2)

    violations = []   # (check, replay path, reason)
    known_lines = set()
    notes = []
    inconclusive = []
    stats = {}
    for (s, d, p, out) in procs:
        out.close()
        text = open(os.path.join(d, "out.txt"), errors="replace").read()
        rc = p.returncode
        for m in re.finditer(r"^KNOWN-FINDING: .*$", text, re.M):
            known_lines.add(m.group(0))
        for m in re.finditer(r"^VERIF-NOTE .*$", text, re.M):
            notes.append(m.group(0))
        fails = re.findall(r"^VERIF-FAIL property=(\S+) check=(\S+) replay=(\S+) reason=(.*)$", text, re.M)
        for (_, check, path, reason) in fails:
            violations.append((check, path, reason))
        races = glob.glob(os.path.join(d, "race.*"))
        done = "VERIF-DONE" in text
        try:
            for cs in json.load(open(os.path.join(d, "stats.json"))):
                merge_stats(stats, cs)
        except Exception:
            pass
        if races:
            # a data race report: attribute it to the journal / last case if any
            rp = save_raw_replay(pid, "race", {"race_report": open(races[0], errors="replace").read()[:6000],
                                                "journal": read_journal(d)}, "data race reported by the race detector", seed, tier)
            violations.append(("race", rp, "data race reported by the race detector"))
        if not done and not fails and not timed_out:
            # the worker died (panic on a library goroutine, os.Exit inside gotree, fatal error)
            j = read_journal(d)
            tail = text[-1500:]
            if j is None:
                inconclusive.append("shard %d died (exit %s) outside a case:\n%s" % (s, rc, tail))
                continue
            rp = save_raw_replay(pid, j["check"], j["case"], "worker process died (exit %s): %s" % (rc, first_crash_line(text)), seed, tier, test=j["test"])
            rrc, rout = run_replay(binary, pid, rp)
            if "VERIF-REPLAY-PASS" in rout:
                os.remove(rp)
                inconclusive.append("shard %d died (exit %s) but the journalled case passes on replay:\n%s" % (s, rc, tail))
            else:
                violations.append((j["check"], rp, "process died while checking this case: " + first_crash_line(text)))
        elif not done and timed_out and not fails:
            inconclusive.append("shard %d stopped by the global budget of %ds" % (s, budget))

    if tier == "thorough" and conf.get("fuzz") and not violations and os.environ.get("VERIF_NOFUZZ", "") == "":
        run_fuzz(pid, binary, conf["fuzz"], rundir, seed, tier, stats, violations, inconclusive, notes, log)

    wall = time.time() - t0
    # dedupe violations by check (one minimal replay per check and reason class is enough)
    seen = set()
    uniq = []
    for v in violations:
        k = (v[0], v[2][:60])
        if k in seen:
            continue
        seen.add(k)
        uniq.append(v)
    write_evidence(pid, tier, seed, stats, wall, len(uniq), evidence_path, shards, inconclusive, notes)
    for l in sorted(known_lines):
        print(l)
    for n in sorted(set(notes)):
        print(n)
    total_eval = sum(cs["evaluations"] for cs in stats.values())
    print("property=%s tier=%s seed=%d shards=%d evaluations=%d wall=%.1fs" % (pid, tier, seed, shards, total_eval, wall))
    if uniq:
        for (check, path, reason) in uniq:
            print("VIOLATION property=%s replay=%s" % (pid, path))
            print("  check=%s %s" % (check, reason))
        return 1
    if inconclusive:
        for m in inconclusive:
            print("INCONCLUSIVE property=%s %s" % (pid, m))
        if total_eval == 0 or not timed_out:
            return 2
    return 0


def run_fuzz(pid, binary, targets, rundir, seed, tier, stats, violations, inconclusive, notes, log):
    """Native coverage-guided fuzzing of the package's Fuzz targets (thorough tier only; a campaign
    cannot be pinned to a seed, the saved crasher is the reproducible unit). Each crasher is converted
    to a plain replay file and confirmed by replaying it in a fresh process."""
    scale = float(os.environ.get("VERIF_FUZZ_SCALE", "1"))
    # coverage instrumentation for the fuzzer needs a binary built with -fuzz
    fuzzbin = os.path.join(bindir(), pid.lower() + ".fuzz.test")
    cmd = ["go", "test", "-c", "-fuzz=Fuzz", "-tags", "verif", "-vet=off", "-o", fuzzbin] + modfile_args() + ["./checks/" + pid.lower()]
    r = subprocess.run(cmd, cwd=ROOT, env=goenv(), stdout=subprocess.PIPE, stderr=subprocess.STDOUT, text=True)
    log.write("$ %s\n%s\n" % (" ".join(cmd), r.stdout))
    if r.returncode != 0:
        inconclusive.append("fuzz binary does not build:\n" + r.stdout[-2000:])
        return
    for (target, secs) in targets:
        secs = max(5, int(secs * scale))
        corpus = os.path.join(pkgdir(pid), "testdata", "fuzz", target)
        before = set(os.listdir(corpus)) if os.path.isdir(corpus) else set()
        cache = os.path.join(rundir, "fuzzcache", target)
        os.makedirs(cache, exist_ok=True)
        env = goenv()
        env.update({"VERIF_OUT": "", "VERIF_TIER": tier, "VERIF_SEED": str(seed), "VERIF_REPLAY": "",
                    "VERIF_CLI": os.path.join(bindir(), "gotree")})
        cmd = [fuzzbin, "-test.run", "^$", "-test.fuzz", "^" + target + "$", "-test.fuzztime", "%ds" % secs,
               "-test.fuzzminimizetime", "0s", "-test.fuzzcachedir", cache, "-test.parallel", "16", "-test.timeout", "0"]
        t1 = time.time()
        try:
            r = subprocess.run(cmd, cwd=pkgdir(pid), env=env, stdout=subprocess.PIPE, stderr=subprocess.STDOUT, text=True,
                               timeout=secs + 300)
            out = r.stdout
        except subprocess.TimeoutExpired as e:
            out = (e.stdout or b"").decode("utf8", "replace") if isinstance(e.stdout, bytes) else (e.stdout or "")
            inconclusive.append("fuzz target %s did not stop within its budget" % target)
        log.write("$ %s\n%s\n" % (" ".join(cmd), out[-6000:]))
        execs, interesting = 0, 0
        for m in re.finditer(r"execs: (\d+) \(\d+/sec\)(?:, new interesting: (\d+))?", out):
            execs, interesting = int(m.group(1)), int(m.group(2) or 0)
        nseed = 0
        m = re.search(r"gathering baseline coverage: \d+/(\d+) completed", out)
        if m:
            nseed = int(m.group(1))
        key = "fuzz:" + target
        stats[key] = {"check": key, "rule": "native go fuzzing (coverage-guided, 16 workers, %d s, minimiser off) of %s from the seed corpus compiled into the target; same oracle as the generated check; non-trivial/distinct = inputs that reached new coverage" % (secs, target),
                      "requested": 0, "evaluations": execs, "anchors": nseed, "nontrivial_evaluations": interesting, "hashset": set(range(interesting)),
                      "labels": {}, "excluded": {}, "samples": [], "first_samples": [], "failures": 0,
                      "extra": {"fuzz_seconds": round(time.time() - t1, 1), "seed_corpus": nseed, "new_interesting": interesting}}
        after = set(os.listdir(corpus)) if os.path.isdir(corpus) else set()
        for name in sorted(after - before):
            src = os.path.join(corpus, name)
            env2 = dict(env)
            env2.update({"VERIF_CORPUS_FILE": src, "VERIF_CORPUS_TARGET": target})
            r = subprocess.run([binary, "-test.run", "^TestCorpusToReplay$", "-test.count", "1", "-test.v"], cwd=pkgdir(pid), env=env2,
                               stdout=subprocess.PIPE, stderr=subprocess.STDOUT, text=True)
            m = re.search(r"^VERIF-CORPUS-REPLAY (\S+)$", r.stdout, re.M)
            os.remove(src)
            if not m:
                inconclusive.append("fuzz crasher %s of %s could not be converted:\n%s" % (name, target, r.stdout[-800:]))
                continue
            rp = m.group(1)
            rrc, rout = run_replay(binary, pid, rp)
            if "VERIF-REPLAY-PASS" in rout:
                os.remove(rp)
                notes.append("VERIF-NOTE fuzz crasher of %s does not reproduce in a fresh process (dropped)" % target)
            else:
                reason = "found by native fuzzing (%s): %s" % (target, (re.search(r"VERIF-REPLAY-FAIL .*reason=(.*)$", rout, re.M) or [None, first_crash_line(rout)])[1])
                violations.append((key, rp, reason))
                stats[key]["failures"] += 1
        try:
            if os.path.isdir(corpus) and not os.listdir(corpus):
                os.rmdir(corpus)
        except OSError:
            pass
        if violations:
            break


def first_crash_line(text):
    for pat in (r"^panic: .*$", r"^fatal error: .*$", r"^\[Error\].*$", r"^.*all goroutines are asleep.*$"):
        m = re.search(pat, text, re.M)
        if m:
            return m.group(0)[:300]
    return "no diagnostic line"


def save_raw_replay(pid, check, case, failure, seed, tier, test=""):
    d = os.environ.get("VERIF_REPLAY_DIR") or os.path.join(ROOT, "replays", pid)
    os.makedirs(d, exist_ok=True)
    raw = json.dumps(case, sort_keys=True)
    name = "%s-%s.json" % (check.replace("/", "_"), hashlib.sha1(raw.encode()).hexdigest()[:16])
    p = os.path.join(d, name)
    json.dump({"property": pid, "test": test, "check": check, "case": case, "failure": failure,
               "verif_seed": seed, "tier": tier}, open(p, "w"), indent=1)
    return p


def merge_stats(stats, cs):
    k = cs["check"]
    cur = stats.get(k)
    if cur is None:
        cs["hashset"] = set(cs.get("nontrivial_hashes") or [])
        cs["samples"] = cs.get("samples") or []
        cs["first_samples"] = cs.get("first_samples") or []
        stats[k] = cs
        return
    for f in ("requested", "evaluations", "anchors", "nontrivial_evaluations", "failures"):
        cur[f] = cur.get(f, 0) + cs.get(f, 0)
    cur["hashset"] |= set(cs.get("nontrivial_hashes") or [])
    for f in ("labels", "excluded"):
        for a, b in (cs.get(f) or {}).items():
            cur[f][a] = cur[f].get(a, 0) + b
    cur["samples"] = sorted(cur["samples"] + (cs.get("samples") or []), key=lambda x: x["h"])[:4]
    cur["first_samples"] = (cur["first_samples"] + (cs.get("first_samples") or []))[:2]
    cur["exhaustive"] = cur.get("exhaustive", False) or cs.get("exhaustive", False)
    for a, b in (cs.get("extra") or {}).items():
        cur.setdefault("extra", {})
        if isinstance(b, (int, float)) and isinstance(cur["extra"].get(a), (int, float)):
            cur["extra"][a] += b
        else:
            cur["extra"].setdefault(a, b)


def clip_sample(x, limit=1500):
    s = json.dumps(x)
    if len(s) <= limit:
        return x
    return {"truncated_json": s[:limit] + "..."}


def write_evidence(pid, tier, seed, stats, wall, nviol, path, shards, inconclusive, notes):
    evaluations = sum(cs["evaluations"] for cs in stats.values())
    distinct = sum(len(cs["hashset"]) for cs in stats.values())
    samples = []
    per_check = {}
    warnings = []
    for k in sorted(stats):
        cs = stats[k]
        for smp in cs["first_samples"][:1] + [x["c"] for x in cs["samples"][:2]]:
            samples.append({"check": k, "case": clip_sample(smp)})
        per_check[k] = {
            "rule": cs.get("rule", ""),
            "requested": cs.get("requested", 0),
            "evaluations": cs["evaluations"],
            "anchors": cs.get("anchors", 0),
            "nontrivial_evaluations": cs.get("nontrivial_evaluations", 0),
            "distinct_nontrivial": len(cs["hashset"]),
            "labels": dict(sorted((cs.get("labels") or {}).items())),
            "excluded_known_findings": cs.get("excluded") or {},
            "exhaustive": cs.get("exhaustive", False),
        }
        if cs.get("extra"):
            per_check[k]["extra"] = cs["extra"]
        for lab, cnt in (cs.get("labels") or {}).items():
            pass
        if cs.get("requested", 0) and cs["evaluations"] < cs.get("requested", 0) and nviol == 0:
            warnings.append("%s: %d of %d requested cases evaluated" % (k, cs["evaluations"], cs["requested"]))
    rule = " || ".join("%s: %s" % (k, stats[k].get("rule", "")) for k in sorted(stats))
    ev = {
        "property_id": pid,
        "tier": tier,
        "seed": seed,
        "level": "exploration",
        "coverage": {
            "evaluations": evaluations,
            "distinct_nontrivial": distinct,
            "rule": rule,
            "samples": samples,
            "per_check": per_check,
            "shards": shards,
            "exhaustive": bool(stats) and all(cs.get("exhaustive", False) for cs in stats.values()),
            "coverage_warnings": warnings,
            "inconclusive": inconclusive,
            "notes": sorted(set(notes)),
        },
        "assumptions": ASSUMPTIONS.get(pid, []) + COMMON_ASSUMPTIONS,
        "wall_s": round(wall, 2),
        "violations": nviol,
    }
    tmp = path + ".tmp"
    json.dump(ev, open(tmp, "w"), indent=1)
    os.replace(tmp, path)


COMMON_ASSUMPTIONS = [
    "the independent reference model in /verif/internal/ref (reader, split sets, path sums, restriction, Sankoff DP) is correct; it is self-tested and never imports gotree",
    "exploration only: the property held on the generated cases, nothing is claimed about inputs that were not generated",
    "Go toolchain, race detector and pgregory.net/rapid v1.3.0 behave as documented",
]
ASSUMPTIONS = {}
try:
    ASSUMPTIONS = json.load(open(os.path.join(ROOT, "tools", "assumptions.json")))
except Exception:
    pass


def cmd_replay(pid, path):
    os.makedirs(WORK, exist_ok=True)
    log = open(os.path.join(WORK, "replay.log"), "w")
    binary, msg = build(pid, log)
    if binary is None:
        print("INCONCLUSIVE harness or repository does not build:\n" + msg[-3000:])
        return 2
    rc, out = run_replay(binary, pid, os.path.abspath(path), timeout=600)
    sys.stdout.write(out[-4000:])
    if "VERIF-REPLAY-PASS" in out and rc == 0:
        print("replay passes: property holds on this case")
        return 0
    if "VERIF-REPLAY " not in out and "VERIF-REPLAY-FAIL" not in out and rc == 0:
        print("replay file does not belong to any check of %s" % pid)
        return 2
    print("VIOLATION property=%s replay=%s" % (pid, os.path.abspath(path)))
    return 1


def main(argv):
    if len(argv) >= 2 and argv[1] == "setup":
        return cmd_setup()
    if len(argv) >= 4 and argv[1] == "run":
        return cmd_run(argv[2], argv[3])
    if len(argv) >= 4 and argv[1] == "replay":
        return cmd_replay(argv[2], argv[3])
    print(__doc__)
    return 2


if __name__ == "__main__":
    sys.exit(main(sys.argv))
