#!/usr/bin/env python3-vt
import json, jsonschema, glob, sys
m=json.load(open('/verif/MANIFEST.json')); s=json.load(open('/root/.vp/MANIFEST.schema.json')); jsonschema.validate(m,s); print("manifest ok", len(m["checks"]), "checks")
s=json.load(open('/root/.vp/EVIDENCE.schema.json'))
for f in sorted(glob.glob('/verif/evidence/*.json')):
    e=json.load(open(f)); jsonschema.validate(e,s); print("evidence ok", f, e["tier"], e["coverage"]["evaluations"], e["coverage"]["distinct_nontrivial"], "viol", e.get("violations"))
