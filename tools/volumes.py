#!/usr/bin/env python3
"""Prints the table of DESIGN.md section 11.2 (cases per check and tier) from the check sources and the
quick-tier evidence files."""
import glob, json, os, re
ROOT = os.path.dirname(os.path.dirname(os.path.abspath(__file__)))
CONF = open(os.path.join(ROOT, "tools", "verif.py")).read()
def k(n):
    n = int(n)
    if n >= 1000000:
        return ("%.1f M" % (n / 1e6)).replace(".0 M", " M")
    if n >= 10000:
        return "%d k" % round(n / 1000)
    if n >= 1000:
        return ("%.1f k" % (n / 1000)).replace(".0 k", " k")
    return str(n)
print("| Property | checks (quick / thorough cases) | exhaustive or swept checks (evaluations in the quick tier) | extra in thorough |")
print("|---|---|---|---|")
for i in range(1, 21):
    pid = "C%02d" % i
    specs = []
    for f in sorted(glob.glob(os.path.join(ROOT, "checks", pid.lower(), "*_test.go"))):
        for m in re.finditer(r'Property:\s*"%s",\s*Name:\s*"([^"]+)",\s*Quick:\s*(\d+),\s*Thorough:\s*(\d+)' % pid, open(f).read()):
            specs.append("%s %s / %s" % (m.group(1), k(m.group(2)), k(m.group(3))))
    rec = []
    ev = os.path.join(ROOT, "evidence", pid + ".json")
    if os.path.exists(ev):
        pc = json.load(open(ev))["coverage"].get("per_check", {})
        names = set(s.split(" ")[0] for s in specs)
        for name, v in sorted(pc.items()):
            if name not in names:
                rec.append("%s %s" % (name, k(v["evaluations"])))
    fz = re.search(r'"%s":\s*\{[^}]*"fuzz":\s*\[([^\]]*)\]' % pid, CONF)
    extra = ""
    if fz:
        extra = "native fuzz: " + ", ".join("%s %s s" % (a, b) for a, b in re.findall(r'\("(\w+)",\s*(\d+)\)', fz.group(1)))
    print("| %s | %s | %s | %s |" % (pid, "; ".join(specs), "; ".join(rec), extra))
