#!/bin/sh
# tools/trymut.sh <patch.diff> <tier> <ID>...   apply a patch to /repo, run the given checks, undo the patch.
# Replay and evidence files of these runs go to a scratch directory (the committed evidence is not touched).
patch="$1"; tier="$2"; shift 2
cd "$(dirname "$0")/.." || exit 2
if [ -n "$(git -C /repo status --porcelain)" ]; then echo "/repo is not clean"; exit 2; fi
git -C /repo apply "$patch" || { echo "patch does not apply"; exit 2; }
scratch=$(mktemp -d /tmp/vmut.XXXXXX)
for id in "$@"; do
  VERIF_REPLAY_DIR=$scratch/replays VERIF_EVIDENCE_DIR=$scratch/evidence ./verif.sh run "$id" "$tier" > $scratch/$id.out 2>&1
  rc=$?
  echo "== $id exit=$rc $(grep -c '^VIOLATION' $scratch/$id.out) violation line(s)"
  grep -A1 '^VIOLATION' $scratch/$id.out | grep -v '^--' | cut -c1-260 | head -8
  grep '^INCONCLUSIVE' $scratch/$id.out | head -3
done
git -C /repo checkout -- .
rm -rf "$scratch"
