#!/bin/sh
# Entry point registered in MANIFEST.json: ./verif.sh setup | run <ID> <quick|thorough> | replay <ID> <path>
cd "$(dirname "$0")" || exit 2
export GOFLAGS=-mod=mod GOPROXY=off GOSUMDB=off GOTOOLCHAIN=local
exec python3 tools/verif.py "$@"
