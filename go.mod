module verif

go 1.23

toolchain go1.23.5

require (
	github.com/evolbioinfo/goalign v0.3.7-0.20230906113011-fcecb09f9d43
	github.com/evolbioinfo/gotree v0.0.0
	pgregory.net/rapid v1.3.0
)

require (
	github.com/armon/go-radix v1.0.0 // indirect
	github.com/fredericlemoine/bitset v1.2.0 // indirect
	github.com/fredericlemoine/gostats v0.1.1 // indirect
	github.com/jlaffaye/ftp v0.0.0-20210307004419-5d4190119067 // indirect
)

replace github.com/evolbioinfo/gotree => /repo
