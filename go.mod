module verif

go 1.23

toolchain go1.23.5

require (
	github.com/evolbioinfo/gotree v0.0.0
	pgregory.net/rapid v1.3.0
)

require (
	github.com/fredericlemoine/bitset v1.2.0 // indirect
	github.com/fredericlemoine/gostats v0.1.1 // indirect
)

replace github.com/evolbioinfo/gotree => /repo
