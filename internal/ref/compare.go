package ref

import (
	"fmt"
	"sort"
)

// CompareU tells whether two unrooted views describe the same tree: same tips, same set of
// splits, same total length per split (absent counts as 0; exact or with tolerance).
// With supports=true, splits represented by exactly one branch in both views must carry
// the same support.
func CompareU(a, b *UView, exact, supports bool) error {
	if len(a.Taxa.Names) != len(b.Taxa.Names) {
		return fmt.Errorf("tip sets differ: %d vs %d tips (%v vs %v)", len(a.Taxa.Names), len(b.Taxa.Names), a.Taxa.Names, b.Taxa.Names)
	}
	for i := range a.Taxa.Names {
		if a.Taxa.Names[i] != b.Taxa.Names[i] {
			return fmt.Errorf("tip sets differ: %v vs %v", a.Taxa.Names, b.Taxa.Names)
		}
	}
	for k, sa := range a.Splits {
		sb, ok := b.Splits[k]
		if !ok {
			return fmt.Errorf("split %s is missing in the second tree", a.Describe(k))
		}
		if !Close(sa.Len, sb.Len, exact) {
			return fmt.Errorf("split %s: length %v vs %v", a.Describe(k), sa.Len, sb.Len)
		}
		if supports && sa.N == 1 && sb.N == 1 && !sa.Trivial {
			if len(sa.Sups) != len(sb.Sups) || (len(sa.Sups) == 1 && sa.Sups[0] != sb.Sups[0]) {
				return fmt.Errorf("split %s: support %v vs %v", a.Describe(k), sa.Sups, sb.Sups)
			}
		}
		if supports && sa.N == 2 && sb.N == 1 && !sa.Trivial {
			// the two root branches of a rooted tree merged into one (unrooting): "length of the new
			// branch will be the sum of the two merged branches, and its support will be the
			// maximum" (docs/commands/unroot.md) - of the supports that are there
			switch {
			case len(sa.Sups) == 0 && len(sb.Sups) != 0:
				return fmt.Errorf("split %s: the merged root branch has support %v, the two root branches had none", a.Describe(k), sb.Sups)
			case len(sa.Sups) > 0:
				max := sa.Sups[0]
				for _, v := range sa.Sups {
					if v > max {
						max = v
					}
				}
				if len(sb.Sups) != 1 || sb.Sups[0] != max {
					return fmt.Errorf("split %s: the two root branches carried the supports %v, the merged branch carries %v (documented: the maximum)", a.Describe(k), sa.Sups, sb.Sups)
				}
			}
		}
	}
	for k := range b.Splits {
		if _, ok := a.Splits[k]; !ok {
			return fmt.Errorf("split %s appears only in the second tree", b.Describe(k))
		}
	}
	return nil
}

// CompareDist compares two distance matrices on the same sorted names.
func CompareDist(na []string, a [][]float64, nb []string, b [][]float64, exact bool) error {
	if len(na) != len(nb) {
		return fmt.Errorf("matrices have %d and %d rows", len(na), len(nb))
	}
	for i := range na {
		if na[i] != nb[i] {
			return fmt.Errorf("row %d is %q vs %q", i, na[i], nb[i])
		}
	}
	for i := range a {
		for j := range a[i] {
			if !Close(a[i][j], b[i][j], exact) {
				return fmt.Errorf("distance %s-%s: %v vs %v", na[i], na[j], a[i][j], b[i][j])
			}
		}
	}
	return nil
}

// CladeInfo is the attribute record of one clade of the rooted view.
type CladeInfo struct {
	Name   string
	Len    *float64
	Sup    *float64
	Pv     *float64
	NCh    int
	IsRoot bool
	Tip    bool
}

// RootedMap returns clade key -> attributes; it requires unique tip names and no
// single-child nodes (otherwise two nodes share a clade and an error is returned).
func RootedMap(root *Node, tx *Taxa) (map[string]*CladeInfo, error) {
	cl, err := tx.Clades(root)
	if err != nil {
		return nil, err
	}
	m := map[string]*CladeInfo{}
	var rerr error
	root.Walk(func(x, p *Node) {
		k := cl[x].Key()
		if _, dup := m[k]; dup {
			rerr = fmt.Errorf("two nodes with the same clade (single-child node)")
			return
		}
		m[k] = &CladeInfo{Name: x.Name, Len: x.Len, Sup: x.Sup, Pv: x.Pv, NCh: len(x.Ch), IsRoot: p == nil, Tip: x.IsTip()}
	})
	return m, rerr
}

// CompareRooted compares two rooted views up to child order.
func CompareRooted(a, b *Node, checkSup bool) error {
	tx, err := NewTaxa(a.Tips())
	if err != nil {
		return err
	}
	tb := b.Tips()
	sort.Strings(tb)
	if len(tb) != tx.N() {
		return fmt.Errorf("tip sets differ: %v vs %v", tx.Names, tb)
	}
	for i := range tb {
		if tb[i] != tx.Names[i] {
			return fmt.Errorf("tip sets differ: %v vs %v", tx.Names, tb)
		}
	}
	ma, err := RootedMap(a, tx)
	if err != nil {
		return err
	}
	mb, err := RootedMap(b, tx)
	if err != nil {
		return err
	}
	for k, ia := range ma {
		ib, ok := mb[k]
		if !ok {
			return fmt.Errorf("clade %v missing in the second tree", tx.KeyNames(k))
		}
		if ia.Name != ib.Name {
			return fmt.Errorf("clade %v: name %q vs %q", tx.KeyNames(k), ia.Name, ib.Name)
		}
		if !feq(ia.Len, ib.Len) {
			return fmt.Errorf("clade %v: length %s vs %s", tx.KeyNames(k), pf(ia.Len), pf(ib.Len))
		}
		if checkSup && (!feq(ia.Sup, ib.Sup) || !feq(ia.Pv, ib.Pv)) {
			return fmt.Errorf("clade %v: support %s/%s vs %s/%s", tx.KeyNames(k), pf(ia.Sup), pf(ia.Pv), pf(ib.Sup), pf(ib.Pv))
		}
		if ia.NCh != ib.NCh {
			return fmt.Errorf("clade %v: %d vs %d children", tx.KeyNames(k), ia.NCh, ib.NCh)
		}
	}
	for k := range mb {
		if _, ok := ma[k]; !ok {
			return fmt.Errorf("clade %v appears only in the second tree", tx.KeyNames(k))
		}
	}
	return nil
}

// MaxDepth returns the largest root-to-tip path sum below n (n's own branch excluded).
func MaxDepth(n *Node) float64 {
	d := 0.0
	for _, c := range n.Ch {
		x := weight(c, MetricLen) + MaxDepth(c)
		if x > d {
			d = x
		}
	}
	return d
}

// Diameter returns the largest tip-to-tip path sum.
func Diameter(root *Node) (float64, error) {
	_, m, err := DistMatrix(root, MetricLen)
	if err != nil {
		return 0, err
	}
	d := 0.0
	for i := range m {
		for j := range m[i] {
			if m[i][j] > d {
				d = m[i][j]
			}
		}
	}
	return d, nil
}
