package ref

// Unit-cost parsimony on a model tree by explicit min-plus dynamic programming (Sankoff),
// with tips restricted to a set of allowed states, plus brute-force enumeration used as a
// self-check on tiny trees. Independent of gotree's counting (Fitch/Hartigan) passes.

const inf = 1 << 28

// Pars is the result of Sankoff.
type Pars struct {
	Min int              // minimum number of state changes
	Opt map[*Node][]bool // per node: states that occur at the node in at least one most-parsimonious reconstruction
}

// Sankoff computes the minimum number of changes and the per-node optimal state sets for k
// states. allowed(tip) returns the admissible states of a tip (length k, at least one true).
func Sankoff(root *Node, k int, allowed func(tip *Node) []bool) Pars {
	down := map[*Node][]int{}
	var dn func(n *Node) []int
	dn = func(n *Node) []int {
		d := make([]int, k)
		if n.IsTip() {
			a := allowed(n)
			for s := 0; s < k; s++ {
				if !a[s] {
					d[s] = inf
				}
			}
			down[n] = d
			return d
		}
		for _, c := range n.Ch {
			dc := dn(c)
			for s := 0; s < k; s++ {
				best := inf
				for t := 0; t < k; t++ {
					x := dc[t]
					if t != s {
						x++
					}
					if x < best {
						best = x
					}
				}
				d[s] += best
				if d[s] > inf {
					d[s] = inf
				}
			}
		}
		down[n] = d
		return d
	}
	dn(root)
	// edgeCost(c, p): best cost of the subtree of child c given the parent has state p
	edgeCost := func(c *Node, p int) int {
		best := inf
		for t := 0; t < k; t++ {
			x := down[c][t]
			if t != p {
				x++
			}
			if x < best {
				best = x
			}
		}
		return best
	}
	up := map[*Node][]int{root: make([]int, k)}
	var upf func(n *Node)
	upf = func(n *Node) {
		// rest(p) = up[n][p] + sum over children of edgeCost(child, p); for child c remove its own term
		total := make([]int, k)
		for p := 0; p < k; p++ {
			total[p] = up[n][p]
			for _, c := range n.Ch {
				total[p] += edgeCost(c, p)
				if total[p] > inf {
					total[p] = inf
				}
			}
		}
		for _, c := range n.Ch {
			u := make([]int, k)
			for s := 0; s < k; s++ {
				best := inf
				for p := 0; p < k; p++ {
					if total[p] >= inf {
						continue
					}
					x := total[p] - edgeCost(c, p)
					if p != s {
						x++
					}
					if x < best {
						best = x
					}
				}
				u[s] = best
			}
			up[c] = u
			upf(c)
		}
	}
	upf(root)
	res := Pars{Min: inf, Opt: map[*Node][]bool{}}
	for s := 0; s < k; s++ {
		if down[root][s] < res.Min {
			res.Min = down[root][s]
		}
	}
	root.Walk(func(n, _ *Node) {
		o := make([]bool, k)
		for s := 0; s < k; s++ {
			if down[n][s] < inf && up[n][s] < inf && down[n][s]+up[n][s] == res.Min {
				o[s] = true
			}
		}
		res.Opt[n] = o
	})
	return res
}

// BruteParsimony enumerates every labeling of the inner nodes (tips take their best allowed
// state given their parent) and returns the same result as Sankoff. Exponential: only for
// trees with few inner nodes.
func BruteParsimony(root *Node, k int, allowed func(tip *Node) []bool) Pars {
	inner := root.Inner()
	par := root.Parents()
	lab := map[*Node]int{}
	res := Pars{Min: inf, Opt: map[*Node][]bool{}}
	type rec struct {
		cost int
		lab  []int
	}
	var all []rec
	cost := func() int {
		c := 0
		root.Walk(func(n, p *Node) {
			if p == nil {
				return
			}
			if n.IsTip() {
				if !allowed(n)[lab[p]] {
					c++
				}
				return
			}
			if lab[n] != lab[p] {
				c++
			}
		})
		return c
	}
	var enum func(i int)
	enum = func(i int) {
		if i == len(inner) {
			c := cost()
			l := make([]int, len(inner))
			for j, n := range inner {
				l[j] = lab[n]
			}
			all = append(all, rec{c, l})
			if c < res.Min {
				res.Min = c
			}
			return
		}
		for s := 0; s < k; s++ {
			lab[inner[i]] = s
			enum(i + 1)
		}
	}
	enum(0)
	for _, n := range inner {
		res.Opt[n] = make([]bool, k)
	}
	for _, r := range all {
		if r.cost != res.Min {
			continue
		}
		for j, n := range inner {
			res.Opt[n][r.lab[j]] = true
		}
		// tips: any allowed state that is free given the parent, or - if the parent's state is not
		// allowed - any allowed state (one change either way)
		for j, n := range inner {
			for _, c := range n.Ch {
				if !c.IsTip() {
					continue
				}
				if res.Opt[c] == nil {
					res.Opt[c] = make([]bool, k)
				}
				a := allowed(c)
				if a[r.lab[j]] {
					res.Opt[c][r.lab[j]] = true
				} else {
					for s := 0; s < k; s++ {
						if a[s] {
							res.Opt[c][s] = true
						}
					}
				}
			}
		}
	}
	_ = par
	return res
}
