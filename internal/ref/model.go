// Package ref is the independent reference model used as oracle by all checks.
// It never imports gotree. It is written in a deliberately different style from the
// code under test: recursive descent reader, name-indexed bit vectors built from the
// text, explicit path sums and min-plus dynamic programming.
package ref

import (
	"fmt"
	"math"
	"sort"
	"strconv"
	"strings"
)

// Node is a rooted, ordered tree node; the branch attributes are those of the
// branch joining the node to its parent (unused on the root).
type Node struct {
	Name string   `json:"n,omitempty"`
	Ch   []*Node  `json:"c,omitempty"`
	Len  *float64 `json:"l,omitempty"`
	Sup  *float64 `json:"s,omitempty"`
	Pv   *float64 `json:"p,omitempty"`
	Com  []string `json:"k,omitempty"` // node comments
	BCom []string `json:"b,omitempty"` // branch comments
}

func F(x float64) *float64 { return &x }

func (n *Node) IsTip() bool { return len(n.Ch) == 0 }

// Clone returns a deep copy.
func (n *Node) Clone() *Node {
	if n == nil {
		return nil
	}
	c := &Node{Name: n.Name}
	if n.Len != nil {
		c.Len = F(*n.Len)
	}
	if n.Sup != nil {
		c.Sup = F(*n.Sup)
	}
	if n.Pv != nil {
		c.Pv = F(*n.Pv)
	}
	c.Com = append([]string(nil), n.Com...)
	c.BCom = append([]string(nil), n.BCom...)
	for _, ch := range n.Ch {
		c.Ch = append(c.Ch, ch.Clone())
	}
	return c
}

// Walk visits nodes in pre-order; parent is nil for the root.
func (n *Node) Walk(f func(n, parent *Node)) { n.walk(nil, f) }
func (n *Node) walk(p *Node, f func(n, parent *Node)) {
	f(n, p)
	for _, c := range n.Ch {
		c.walk(n, f)
	}
}

// Tips returns the tip names in left-to-right order.
func (n *Node) Tips() []string {
	var out []string
	n.Walk(func(x, _ *Node) {
		if x.IsTip() {
			out = append(out, x.Name)
		}
	})
	return out
}

func (n *Node) TipNodes() []*Node {
	var out []*Node
	n.Walk(func(x, _ *Node) {
		if x.IsTip() {
			out = append(out, x)
		}
	})
	return out
}

// Inner returns the inner nodes (root included) in pre-order.
func (n *Node) Inner() []*Node {
	var out []*Node
	n.Walk(func(x, _ *Node) {
		if !x.IsTip() {
			out = append(out, x)
		}
	})
	return out
}

func (n *Node) All() []*Node {
	var out []*Node
	n.Walk(func(x, _ *Node) { out = append(out, x) })
	return out
}

func (n *Node) NNodes() int {
	k := 0
	n.Walk(func(_, _ *Node) { k++ })
	return k
}

// Parents returns the parent map.
func (n *Node) Parents() map[*Node]*Node {
	m := map[*Node]*Node{}
	n.Walk(func(x, p *Node) { m[x] = p })
	return m
}

func (n *Node) MaxDegree() int {
	d := 0
	n.Walk(func(x, p *Node) {
		k := len(x.Ch)
		if p != nil {
			k++
		}
		if k > d {
			d = k
		}
	})
	return d
}

// HasSingleChildInner tells whether an inner non-root node has exactly one child.
func (n *Node) HasSingleChildInner() bool {
	r := false
	n.Walk(func(x, p *Node) {
		if p != nil && len(x.Ch) == 1 {
			r = true
		}
	})
	return r
}

// ---------------------------------------------------------------------------------------
// Writer

func fmtF(x float64) string { return strconv.FormatFloat(x, 'f', -1, 64) }

// Write emits the model in exactly the Newick dialect gotree writes (used to feed
// gotree's parser and as the expected text of fixed-point assertions).
func Write(n *Node) string {
	var b strings.Builder
	writeRec(&b, n, true)
	b.WriteByte(';')
	return b.String()
}

func writeRec(b *strings.Builder, n *Node, root bool) {
	if len(n.Ch) > 0 {
		b.WriteByte('(')
		for i, c := range n.Ch {
			if i > 0 {
				b.WriteByte(',')
			}
			writeRec(b, c, false)
		}
		b.WriteByte(')')
	}
	b.WriteString(n.Name)
	if !root && n.Sup != nil && n.Name == "" {
		b.WriteString(fmtF(*n.Sup))
		if n.Pv != nil {
			b.WriteByte('/')
			b.WriteString(fmtF(*n.Pv))
		}
	}
	for _, c := range n.Com {
		b.WriteString("[" + c + "]")
	}
	if !root {
		if n.Len != nil {
			b.WriteByte(':')
			b.WriteString(fmtF(*n.Len))
		}
		for _, c := range n.BCom {
			b.WriteString("[" + c + "]")
		}
	}
}

// Style is a presentation of the same Newick tree as other programs and platforms write it:
// the tree wrapped over several lines (LF or CRLF line ends) after commas and after tip names,
// numbers in exponent notation with an upper-case E (Java style: 1.0E-4). Blanks and line ends go
// only where every Newick reader takes them for layout: after a ',' and right after a tip name.
type Style struct {
	NL        string `json:"nl,omitempty"`         // line end used for wrapping ("" = one line)
	Every     int    `json:"every,omitempty"`      // wrap after every Every-th comma
	AfterTips bool   `json:"after_tips,omitempty"` // wrap right after tip names too
	ENum      bool   `json:"enum,omitempty"`       // numbers as d.dddE±dd
	Indent    string `json:"indent,omitempty"`     // blanks written after each line end
}

// StyleOf chooses a style from the text itself (a pure function of the case: replays identically);
// about two texts in three stay as they are.
func StyleOf(text string) Style {
	h := uint32(2166136261)
	for i := 0; i < len(text); i++ {
		h = (h ^ uint32(text[i])) * 16777619
	}
	switch h % 18 {
	case 0:
		return Style{NL: "\n", Every: 3}
	case 1:
		return Style{NL: "\r\n", Every: 3}
	case 2:
		return Style{NL: "\r\n", Every: 1, AfterTips: true}
	case 3:
		return Style{ENum: true}
	case 4:
		return Style{ENum: true, NL: "\r\n", Every: 2, Indent: "  "}
	case 5:
		return Style{NL: "\n", Every: 1, AfterTips: true, Indent: "\t"}
	}
	return Style{}
}

func (st Style) num(x float64) string {
	if st.ENum && !math.IsInf(x, 0) && !math.IsNaN(x) {
		return strconv.FormatFloat(x, 'E', -1, 64)
	}
	return fmtF(x)
}

// WriteStyled emits the model like Write, laid out in the given style.
func WriteStyled(n *Node, st Style) string {
	var b strings.Builder
	k := 0
	var rec func(n *Node, root bool)
	rec = func(n *Node, root bool) {
		if len(n.Ch) > 0 {
			b.WriteByte('(')
			for i, c := range n.Ch {
				if i > 0 {
					b.WriteByte(',')
					k++
					if st.NL != "" && st.Every > 0 && k%st.Every == 0 {
						b.WriteString(st.NL + st.Indent)
					}
				}
				rec(c, false)
			}
			b.WriteByte(')')
		}
		b.WriteString(n.Name)
		if len(n.Ch) == 0 && n.Name != "" && st.AfterTips && st.NL != "" {
			b.WriteString(st.NL + st.Indent)
		}
		if !root && n.Sup != nil && n.Name == "" {
			b.WriteString(st.num(*n.Sup))
			if n.Pv != nil {
				b.WriteByte('/')
				b.WriteString(st.num(*n.Pv))
			}
		}
		for _, c := range n.Com {
			b.WriteString("[" + c + "]")
		}
		if !root {
			if n.Len != nil {
				b.WriteByte(':')
				b.WriteString(st.num(*n.Len))
			}
			for _, c := range n.BCom {
				b.WriteString("[" + c + "]")
			}
		}
	}
	rec(n, true)
	b.WriteByte(';')
	return b.String()
}

// ---------------------------------------------------------------------------------------
// Reader (recursive descent) for the dialect above.

type reader struct {
	s   string
	pos int
}

func (r *reader) peek() byte {
	if r.pos >= len(r.s) {
		return 0
	}
	return r.s[r.pos]
}

const meta = "()[],:;"

// Parse reads one Newick tree as written by gotree. Inner non-root labels that look like
// a float are supports, "float/float" is support/p-value, everything else a name.
func Parse(text string) (*Node, error) {
	r := &reader{s: text}
	n, err := r.subtree(true)
	if err != nil {
		return nil, err
	}
	if r.peek() != ';' {
		return nil, fmt.Errorf("ref: expected ';' at %d in %q", r.pos, clip(text))
	}
	r.pos++
	if r.pos != len(r.s) {
		return nil, fmt.Errorf("ref: trailing text after ';' in %q", clip(text))
	}
	return n, nil
}

func clip(s string) string {
	if len(s) > 200 {
		return s[:200] + "..."
	}
	return s
}

func (r *reader) label() string {
	st := r.pos
	for r.pos < len(r.s) && strings.IndexByte(meta, r.s[r.pos]) < 0 {
		r.pos++
	}
	return r.s[st:r.pos]
}

func (r *reader) comments() ([]string, error) {
	var out []string
	for r.peek() == '[' {
		end := strings.IndexByte(r.s[r.pos:], ']')
		if end < 0 {
			return nil, fmt.Errorf("ref: unterminated comment")
		}
		out = append(out, r.s[r.pos+1:r.pos+end])
		r.pos += end + 1
	}
	return out, nil
}

func (r *reader) subtree(root bool) (*Node, error) {
	n := &Node{}
	inner := false
	if r.peek() == '(' {
		inner = true
		r.pos++
		for {
			c, err := r.subtree(false)
			if err != nil {
				return nil, err
			}
			n.Ch = append(n.Ch, c)
			if r.peek() == ',' {
				r.pos++
				continue
			}
			if r.peek() == ')' {
				r.pos++
				break
			}
			return nil, fmt.Errorf("ref: expected ',' or ')' at %d in %q", r.pos, clip(r.s))
		}
	}
	lab := r.label()
	if inner && !root {
		if v, err := strconv.ParseFloat(lab, 64); err == nil {
			n.Sup = F(v)
		} else if parts := strings.Split(lab, "/"); len(parts) == 2 {
			a, e1 := strconv.ParseFloat(parts[0], 64)
			b, e2 := strconv.ParseFloat(parts[1], 64)
			if e1 == nil && e2 == nil {
				n.Sup, n.Pv = F(a), F(b)
			} else {
				n.Name = lab
			}
		} else {
			n.Name = lab
		}
	} else {
		n.Name = lab
	}
	var err error
	if n.Com, err = r.comments(); err != nil {
		return nil, err
	}
	if r.peek() == ':' {
		r.pos++
		num := r.label()
		v, err := strconv.ParseFloat(num, 64)
		if err != nil {
			return nil, fmt.Errorf("ref: bad length %q", num)
		}
		if root {
			// gotree never writes a root length
			return nil, fmt.Errorf("ref: length on root")
		}
		n.Len = F(v)
		if n.BCom, err = r.comments(); err != nil {
			return nil, err
		}
	}
	return n, nil
}

// ---------------------------------------------------------------------------------------
// Equality

func feq(a, b *float64) bool {
	if a == nil || b == nil {
		return a == nil && b == nil
	}
	return math.Float64bits(*a) == math.Float64bits(*b)
}

func seq(a, b []string) bool {
	if len(a) != len(b) {
		return false
	}
	for i := range a {
		if a[i] != b[i] {
			return false
		}
	}
	return true
}

// Diff returns "" if the two models are identical (shape, child order, every attribute,
// floats compared by bits) or a description of the first difference.
func Diff(a, b *Node) string { return diff(a, b, "root", true) }

func diff(a, b *Node, path string, root bool) string {
	if a.Name != b.Name {
		return fmt.Sprintf("%s: name %q vs %q", path, a.Name, b.Name)
	}
	if len(a.Ch) != len(b.Ch) {
		return fmt.Sprintf("%s: %d vs %d children", path, len(a.Ch), len(b.Ch))
	}
	if !seq(a.Com, b.Com) {
		return fmt.Sprintf("%s: node comments %q vs %q", path, a.Com, b.Com)
	}
	if !root {
		if !feq(a.Len, b.Len) {
			return fmt.Sprintf("%s: length %s vs %s", path, pf(a.Len), pf(b.Len))
		}
		if !feq(a.Sup, b.Sup) {
			return fmt.Sprintf("%s: support %s vs %s", path, pf(a.Sup), pf(b.Sup))
		}
		if !feq(a.Pv, b.Pv) {
			return fmt.Sprintf("%s: pvalue %s vs %s", path, pf(a.Pv), pf(b.Pv))
		}
		if !seq(a.BCom, b.BCom) {
			return fmt.Sprintf("%s: branch comments %q vs %q", path, a.BCom, b.BCom)
		}
	}
	for i := range a.Ch {
		if d := diff(a.Ch[i], b.Ch[i], fmt.Sprintf("%s.%d", path, i), false); d != "" {
			return d
		}
	}
	return ""
}

func pf(p *float64) string {
	if p == nil {
		return "absent"
	}
	return strconv.FormatFloat(*p, 'g', -1, 64)
}

// ---------------------------------------------------------------------------------------
// Taxa and bit vectors

type Taxa struct {
	Names []string
	Idx   map[string]int
}

// NewTaxa indexes the tip names (sorted). It reports an error when names repeat.
func NewTaxa(names []string) (*Taxa, error) {
	s := append([]string(nil), names...)
	sort.Strings(s)
	t := &Taxa{Names: s, Idx: make(map[string]int, len(s))}
	for i, n := range s {
		if _, dup := t.Idx[n]; dup {
			return nil, fmt.Errorf("duplicate tip name %q", n)
		}
		t.Idx[n] = i
	}
	return t, nil
}

func (t *Taxa) N() int { return len(t.Names) }

type Bits []uint64

func (t *Taxa) newBits() Bits { return make(Bits, (len(t.Names)+63)/64) }

func (b Bits) set(i int)      { b[i/64] |= 1 << uint(i%64) }
func (b Bits) Has(i int) bool { return b[i/64]&(1<<uint(i%64)) != 0 }
func (b Bits) or(o Bits) {
	for i := range b {
		b[i] |= o[i]
	}
}
func (b Bits) Count() int {
	c := 0
	for _, w := range b {
		for ; w != 0; w &= w - 1 {
			c++
		}
	}
	return c
}
func (b Bits) Key() string {
	var sb strings.Builder
	for _, w := range b {
		for k := 0; k < 8; k++ {
			sb.WriteByte(byte(w >> (8 * uint(k))))
		}
	}
	return sb.String()
}

func (t *Taxa) Complement(b Bits) Bits {
	c := t.newBits()
	for i := 0; i < t.N(); i++ {
		if !b.Has(i) {
			c.set(i)
		}
	}
	return c
}

// Canon returns the canonical key of the split {b, complement}: the side that does not
// contain the smallest tip name.
func (t *Taxa) Canon(b Bits) string {
	if b.Has(0) {
		return t.Complement(b).Key()
	}
	return b.Key()
}

func (t *Taxa) FromNames(names []string) (Bits, error) {
	b := t.newBits()
	for _, n := range names {
		i, ok := t.Idx[n]
		if !ok {
			return nil, fmt.Errorf("unknown tip %q", n)
		}
		b.set(i)
	}
	return b, nil
}

func (t *Taxa) NamesOf(b Bits) []string {
	var out []string
	for i, n := range t.Names {
		if b.Has(i) {
			out = append(out, n)
		}
	}
	return out
}

// KeyNames decodes a Key() string back to names (for messages).
func (t *Taxa) KeyNames(key string) []string {
	var out []string
	for i, n := range t.Names {
		if key[i/8]&(1<<uint(i%8)) != 0 {
			out = append(out, n)
		}
	}
	return out
}

// Clades returns, for every node, the bit vector of the tips below it.
func (t *Taxa) Clades(root *Node) (map[*Node]Bits, error) {
	m := make(map[*Node]Bits)
	var rec func(n *Node) (Bits, error)
	rec = func(n *Node) (Bits, error) {
		b := t.newBits()
		if n.IsTip() {
			i, ok := t.Idx[n.Name]
			if !ok {
				return nil, fmt.Errorf("tip %q not in taxa", n.Name)
			}
			b.set(i)
		}
		for _, c := range n.Ch {
			cb, err := rec(c)
			if err != nil {
				return nil, err
			}
			b.or(cb)
		}
		m[n] = b
		return b, nil
	}
	if _, err := rec(root); err != nil {
		return nil, err
	}
	return m, nil
}
