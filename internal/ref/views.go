package ref

import (
	"fmt"
	"math"
	"sort"
)

// SplitInfo aggregates the branches of a tree that define one split. Branches in series
// through nodes of degree two (the two root branches of a rooted tree, a suppressed
// node) define the same split and count as one branch whose length is the sum.
type SplitInfo struct {
	Len     float64   // sum of present lengths
	AnyLen  bool      // at least one branch had a length
	AllLen  bool      // every branch had a length
	N       int       // number of branches in series
	Sups    []float64 // supports present on those branches
	Trivial bool      // one side has a single tip
	Light   int       // size of the smaller side
}

// UView is the unrooted view of a tree on uniquely named tips.
type UView struct {
	Taxa   *Taxa
	Splits map[string]*SplitInfo // canonical key -> info, every branch included
}

func Unrooted(root *Node) (*UView, error) {
	tx, err := NewTaxa(root.Tips())
	if err != nil {
		return nil, err
	}
	return UnrootedOn(root, tx)
}

func UnrootedOn(root *Node, tx *Taxa) (*UView, error) {
	cl, err := tx.Clades(root)
	if err != nil {
		return nil, err
	}
	u := &UView{Taxa: tx, Splits: map[string]*SplitInfo{}}
	n := tx.N()
	root.Walk(func(x, p *Node) {
		if p == nil {
			return
		}
		b := cl[x]
		c := b.Count()
		if c == 0 || c == n {
			// a branch with every tip on one side defines no split (only possible
			// under a single-child root)
			return
		}
		k := tx.Canon(b)
		si := u.Splits[k]
		if si == nil {
			l := c
			if n-c < l {
				l = n - c
			}
			si = &SplitInfo{AllLen: true, Trivial: l == 1, Light: l}
			u.Splits[k] = si
		}
		si.N++
		if x.Len != nil {
			si.Len += *x.Len
			si.AnyLen = true
		} else {
			si.AllLen = false
		}
		if x.Sup != nil {
			si.Sups = append(si.Sups, *x.Sup)
		}
	})
	return u, nil
}

// NonTrivial returns the sorted keys of the non-trivial splits.
func (u *UView) NonTrivial() []string {
	var out []string
	for k, s := range u.Splits {
		if !s.Trivial {
			out = append(out, k)
		}
	}
	sort.Strings(out)
	return out
}

func (u *UView) Describe(key string) string {
	return fmt.Sprintf("%v", u.Taxa.KeyNames(key))
}

// ---------------------------------------------------------------------------------------
// Undirected graph form and path sums

type gEdge struct {
	to   int
	node *Node // child end of the branch (carries the attributes)
}

type Graph struct {
	Nodes []*Node
	Adj   [][]gEdge
	Index map[*Node]int
}

func NewGraph(root *Node) *Graph {
	g := &Graph{Index: map[*Node]int{}}
	root.Walk(func(x, p *Node) {
		g.Index[x] = len(g.Nodes)
		g.Nodes = append(g.Nodes, x)
		g.Adj = append(g.Adj, nil)
	})
	root.Walk(func(x, p *Node) {
		if p != nil {
			a, b := g.Index[p], g.Index[x]
			g.Adj[a] = append(g.Adj[a], gEdge{b, x})
			g.Adj[b] = append(g.Adj[b], gEdge{a, x})
		}
	})
	return g
}

const (
	MetricLen = iota
	MetricSup
	MetricOne
)

func weight(x *Node, metric int) float64 {
	switch metric {
	case MetricSup:
		if x.Sup == nil {
			return 1
		}
		return *x.Sup
	case MetricOne:
		return 1
	}
	if x.Len == nil {
		return 0
	}
	return *x.Len
}

// DistMatrix returns the tip-to-tip path sums, rows and columns in sorted tip-name order.
// A root with a single child counts as a tip in gotree (degree one); the models used with
// this function never have one.
func DistMatrix(root *Node, metric int) ([]string, [][]float64, error) {
	tx, err := NewTaxa(root.Tips())
	if err != nil {
		return nil, nil, err
	}
	g := NewGraph(root)
	n := tx.N()
	m := make([][]float64, n)
	for _, x := range g.Nodes {
		if !x.IsTip() {
			continue
		}
		i := tx.Idx[x.Name]
		row := make([]float64, n)
		var dfs func(v, from int, acc float64)
		dfs = func(v, from int, acc float64) {
			if g.Nodes[v].IsTip() {
				row[tx.Idx[g.Nodes[v].Name]] = acc
			}
			for _, e := range g.Adj[v] {
				if e.to != from {
					dfs(e.to, v, acc+weight(e.node, metric))
				}
			}
		}
		dfs(g.Index[x], -1, 0)
		m[i] = row
	}
	return tx.Names, m, nil
}

// RootDists returns the root-to-tip path sums by tip name.
func RootDists(root *Node) map[string]float64 {
	out := map[string]float64{}
	var rec func(n *Node, acc float64)
	rec = func(n *Node, acc float64) {
		if n.IsTip() {
			out[n.Name] = acc
		}
		for _, c := range n.Ch {
			rec(c, acc+weight(c, MetricLen))
		}
	}
	rec(root, 0)
	return out
}

// Close compares derived sums: exactly when exact is set, otherwise with the stated
// relative tolerance 1e-9.
func Close(a, b float64, exact bool) bool {
	if a == b {
		return true
	}
	if exact {
		return false
	}
	m := math.Max(1, math.Max(math.Abs(a), math.Abs(b)))
	return math.Abs(a-b) <= 1e-9*m
}

// ---------------------------------------------------------------------------------------
// Restriction (induced subtree)

// Restrict returns the subtree induced on the tips for which keep is true. Inner nodes
// left without tips disappear; inner non-root nodes left with one child are suppressed
// (lengths summed when either is present, support = max of present supports unless the
// merged branch leads to a tip); a root left with one child is replaced by that child.
// Returns nil if no tip remains.
func Restrict(root *Node, keep func(name string) bool) *Node {
	var rec func(n *Node) *Node
	rec = func(n *Node) *Node {
		if n.IsTip() {
			if keep(n.Name) {
				c := *n
				c.Ch = nil
				return &c
			}
			return nil
		}
		c := *n
		c.Ch = nil
		for _, ch := range n.Ch {
			if r := rec(ch); r != nil {
				c.Ch = append(c.Ch, r)
			}
		}
		if len(c.Ch) == 0 {
			return nil
		}
		if len(c.Ch) == 1 {
			// suppress c: merge branch(c) and branch(child)
			ch := c.Ch[0]
			m := *ch
			if c.Len != nil || ch.Len != nil {
				s := 0.0
				if c.Len != nil {
					s += math.Max(0, *c.Len)
				}
				if ch.Len != nil {
					s += math.Max(0, *ch.Len)
				}
				m.Len = F(s)
			}
			if !ch.IsTip() && (c.Sup != nil || ch.Sup != nil) {
				s := math.Inf(-1)
				if c.Sup != nil {
					s = math.Max(s, *c.Sup)
				}
				if ch.Sup != nil {
					s = math.Max(s, *ch.Sup)
				}
				m.Sup = F(s)
			}
			return &m
		}
		return &c
	}
	r := rec(root)
	if r != nil {
		// the branch above the surviving top node is not part of the induced subtree
		r.Len, r.Sup, r.Pv, r.BCom = nil, nil, nil, nil
	}
	return r
}

// ---------------------------------------------------------------------------------------
// Canonical topology strings

// CanonRooted returns a canonical string of the rooted, unordered, labelled topology.
func CanonRooted(n *Node) string {
	if n.IsTip() {
		return quote(n.Name)
	}
	parts := make([]string, len(n.Ch))
	for i, c := range n.Ch {
		parts[i] = CanonRooted(c)
	}
	sort.Strings(parts)
	s := "("
	for i, p := range parts {
		if i > 0 {
			s += ","
		}
		s += p
	}
	return s + ")"
}

func quote(s string) string { return fmt.Sprintf("%q", s) }

// CanonUnrooted returns a canonical string of the unrooted labelled topology: the sorted
// list of non-trivial split keys.
func CanonUnrooted(n *Node) (string, error) {
	u, err := Unrooted(n)
	if err != nil {
		return "", err
	}
	s := fmt.Sprintf("%q|", u.Taxa.Names)
	for _, k := range u.NonTrivial() {
		s += fmt.Sprintf("%x;", k)
	}
	return s, nil
}

// ---------------------------------------------------------------------------------------
// Model edits used by generators and oracles

// RerootAt returns a copy of the tree re-rooted at the given node (which must be an inner
// node of root); the old root stays in place as a node (possibly of degree two), exactly
// like a re-hang of the same undirected tree. Branch attributes stay with their branch.
func RerootAt(root, at *Node) *Node {
	g := NewGraph(root)
	start := g.Index[at]
	var build func(v, from int, via *Node) *Node
	build = func(v, from int, via *Node) *Node {
		src := g.Nodes[v]
		n := &Node{Name: src.Name, Com: append([]string(nil), src.Com...)}
		if via != nil {
			if via.Len != nil {
				n.Len = F(*via.Len)
			}
			if via.Sup != nil {
				n.Sup = F(*via.Sup)
			}
			if via.Pv != nil {
				n.Pv = F(*via.Pv)
			}
			n.BCom = append([]string(nil), via.BCom...)
		}
		for _, e := range g.Adj[v] {
			if e.to != from {
				n.Ch = append(n.Ch, build(e.to, v, e.node))
			}
		}
		return n
	}
	return build(start, -1, nil)
}

// SuppressDegree2 removes inner non-root nodes with a single child, summing lengths,
// and replaces a single-child root by its child. Names/supports of removed nodes vanish.
func SuppressDegree2(root *Node) *Node {
	return Restrict(root, func(string) bool { return true })
}

// To returns the node index at the other end of a graph edge; Node the model node below the branch.
func (e gEdge) To() int     { return e.to }
func (e gEdge) Node() *Node { return e.node }
