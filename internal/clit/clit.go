// Package clit holds the table of gotree command-line templates and the generated input data
// sets they run on (used by C18: run-twice determinism, and C19: omitted option = documented
// default).
package clit

import (
	"fmt"
	"os"
	"path/filepath"
	"sort"
	"strconv"
	"strings"

	"pgregory.net/rapid"

	"verif/internal/cli"
	"verif/internal/docs"
	"verif/internal/gen"
	"verif/internal/ref"
)

// Dataset is a set of small input files, generated from rapid draws (plain data: part of the case).
type Dataset struct {
	Files map[string]string `json:"files"`
}

func GenDataset(t *rapid.T) Dataset {
	return GenDatasetSized(t, rapid.IntRange(0, 9).Draw(t, "largeset") == 4)
}

// GenDatasetSized: large = trees of 67-130 tips instead of 12-16 (size-dependent shortcuts of
// the commands; second word of the split bitsets).
func GenDatasetSized(t *rapid.T, large bool) Dataset {
	n := rapid.IntRange(12, 16).Draw(t, "ntips")
	if large {
		n = rapid.IntRange(67, 130).Draw(t, "ntipslarge")
	}
	o := gen.Opts{MinTips: n, MaxTips: n, Rooted: 0, MaxDeg: 3, Lens: gen.All, LenVals: gen.Arbitrary, Sups: gen.All}
	base := gen.Tree(t, o)
	// supports in [0,1] with 3 decimals so that rounding/scaling commands have something to do
	base.Walk(func(x, p *ref.Node) {
		if x.Sup != nil {
			x.Sup = ref.F(float64(rapid.IntRange(0, 1000).Draw(t, "sup")) / 1000)
		}
		if x.Len != nil {
			x.Len = ref.F(float64(rapid.IntRange(0, 2000).Draw(t, "len")) / 10000)
		}
	})
	tips := base.Tips()
	sort.Strings(tips)
	d := Dataset{Files: map[string]string{}}
	var trees []*ref.Node
	trees = append(trees, base)
	for i := 0; i < 3; i++ {
		trees = append(trees, gen.Perturb(t, base, rapid.IntRange(1, 4).Draw(t, "npert"), false, gen.Arbitrary))
	}
	var boots []*ref.Node
	nboot := 5
	if rapid.IntRange(0, 4).Draw(t, "manyboots") == 2 {
		nboot = rapid.IntRange(40, 120).Draw(t, "nboots") // results of several threads complete out of order
	}
	for i := 0; i < nboot; i++ {
		boots = append(boots, gen.Perturb(t, base, rapid.IntRange(0, 5).Draw(t, "nbpert"), false, gen.Arbitrary))
	}
	write := func(ms []*ref.Node) string {
		var b strings.Builder
		for _, m := range ms {
			b.WriteString(ref.Write(m) + "\n")
		}
		return b.String()
	}
	d.Files["tree.nw"] = write(trees[:1])
	d.Files["trees.nw"] = write(trees)
	d.Files["boot.nw"] = write(boots)
	ro := o
	ro.Rooted, ro.MaxDeg, ro.InnerNames, ro.Sups = 1, 2, gen.All, gen.None
	rooted := gen.Tree(t, ro)
	d.Files["rooted.nw"] = write([]*ref.Node{rooted})
	ro.NamePrefix = "M"
	ro.MinTips, ro.MaxTips = 13, 13 // > 52 never; forces the prefixed naming scheme
	r2 := gen.Tree(t, ro)
	r2.Walk(func(x, p *ref.Node) {
		if x.Name != "" {
			x.Name = "M_" + x.Name
		}
	})
	d.Files["rooted2.nw"] = write([]*ref.Node{r2})
	mo := o
	mo.MaxDeg, mo.SingleChild, mo.Rooted, mo.Comments = 5, true, -1, true
	d.Files["multi.nw"] = write([]*ref.Node{gen.Tree(t, mo)})
	// a tree in which some branches have no length and some inner branches no support
	mx := base.Clone()
	k := 0
	mx.Walk(func(x, p *ref.Node) {
		k++
		if k%3 == 0 {
			x.Len = nil
		}
		if k%4 == 0 {
			x.Sup = nil
		}
	})
	d.Files["mixed.nw"] = write([]*ref.Node{mx})
	go_ := gen.Opts{MinTips: 3, MaxTips: 4, Rooted: 1, MaxDeg: 2, Lens: gen.All, LenVals: gen.Arbitrary}
	g := gen.Tree(t, go_)
	g.Walk(func(x, p *ref.Node) {
		if x.Name != "" {
			x.Name = "G_" + x.Name
		}
	})
	d.Files["graft.nw"] = write([]*ref.Node{g})
	sub := gen.Subset(t, tips, 3, 5, "tipsub")
	d.Files["tips.txt"] = strings.Join(sub, "\n") + "\n"
	d.Files["onetip.txt"] = tips[rapid.IntRange(0, len(tips)-1).Draw(t, "onetip")] + "\n"
	var mp strings.Builder
	for i, n := range tips {
		if i%2 == 0 {
			mp.WriteString(n + "\tX_" + n + "\n")
		}
	}
	d.Files["map.txt"] = mp.String()
	// a map whose new names are current names of other tips (cyclic shift), and a tree whose tip
	// labels look like the indices of a translate table
	var sh strings.Builder
	numOf := map[string]string{}
	perm := rapid.Permutation(tips).Draw(t, "numperm")
	for i, n := range tips {
		sh.WriteString(n + "\t" + tips[(i+1)%len(tips)] + "\n")
		numOf[perm[i]] = strconv.Itoa(i)
	}
	d.Files["shiftmap.txt"] = sh.String()
	var numtrees []*ref.Node
	for _, m := range trees {
		c := m.Clone()
		for _, tip := range c.TipNodes() {
			tip.Name = numOf[tip.Name]
		}
		numtrees = append(numtrees, c)
	}
	d.Files["numtrees.nw"] = write(numtrees)
	var st, fa, pr strings.Builder
	for _, n := range tips {
		st.WriteString(n + "," + rapid.SampledFrom([]string{"A", "B", "C", "D"}).Draw(t, "state") + "\n")
		fa.WriteString(">" + n + "\n")
		pr.WriteString(">" + n + "\n")
		for j := 0; j < 8; j++ {
			fa.WriteString(rapid.SampledFrom([]string{"A", "C", "G", "T", "A", "C", "G", "T", "N", "R", "-"}).Draw(t, "nt"))
		}
		for j := 0; j < 6; j++ {
			pr.WriteString(rapid.SampledFrom([]string{"A", "R", "N", "D", "K", "L", "X", "X", "M", "F"}).Draw(t, "aa"))
		}
		fa.WriteString("\n")
		pr.WriteString("\n")
	}
	d.Files["states.txt"] = st.String()
	d.Files["align.fa"] = fa.String()
	d.Files["prot.fa"] = pr.String()
	// a clade of the base tree for the commands that need a monophyletic group
	var clade []string
	for _, x := range base.Inner()[1:] {
		if k := len(x.Tips()); k >= 2 && k <= n-2 {
			clade = x.Tips()
			break
		}
	}
	if clade == nil {
		clade = tips[:2]
	}
	d.Files["clade.txt"] = strings.Join(clade, "\n") + "\n"
	d.Files["annot.txt"] = "CladeA:" + strings.Join(clade, ",") + "\n"
	d.Files["groups.txt"] = tips[0] + ",new1,new2\n" + "new3," + tips[1] + "\n"
	d.Files["trees.nex"] = docs.Nexus(trees, docs.NexusOpts{Taxa: true, Translate: rapid.Bool().Draw(t, "nextr")})
	d.Files["trees.xml"] = docs.PhyloXML(trees)
	d.Files["innername.txt"] = firstInnerName(rooted) + "\n"
	// a subset tree (prune -c keeps the tips of the compared tree)
	keep := map[string]bool{}
	for _, n := range tips[:8] {
		keep[n] = true
	}
	d.Files["subset.nw"] = write([]*ref.Node{ref.Restrict(base, func(n string) bool { return keep[n] })})
	// a small subset: most tips of the input are specific to it (whole neighbourhoods are pruned)
	keep4 := map[string]bool{}
	for _, n := range tips[:4] {
		keep4[n] = true
	}
	d.Files["subset4.nw"] = write([]*ref.Node{ref.Restrict(base, func(n string) bool { return keep4[n] })})
	// a tree whose nodes are all named, with sequences for tips and ancestors (compute mutations)
	named := rooted.Clone()
	named.Name = "ROOT"
	var anc strings.Builder
	named.Walk(func(x, p *ref.Node) {
		anc.WriteString(">" + x.Name + "\n")
		for j := 0; j < 6; j++ {
			// soft-masked (lower-case) residues next to upper-case ones: "a" and "A" are different characters
			anc.WriteString(rapid.SampledFrom([]string{"A", "C", "G", "T", "A", "T", "a", "t"}).Draw(t, "ancnt"))
		}
		anc.WriteString("\n")
	})
	d.Files["named.nw"] = write([]*ref.Node{named})
	d.Files["anc.fa"] = anc.String()
	return d
}

func firstInnerName(m *ref.Node) string {
	for _, x := range m.Inner()[1:] {
		if x.Name != "" {
			return x.Name
		}
	}
	return "none"
}

// Template is one command line. "@file" in Args is replaced by the content of that data set
// file with the trailing newline removed (for options that take a name, not a file).
type Template struct {
	Name    string
	Args    []string
	Stdin   string   // data set file fed to standard input ("" = empty input)
	Out     []string // files the command writes (named in Args)
	Seeded  bool     // the command draws random numbers: --seed is passed
	Threads bool     // the command accepts -t
	Records bool     // output lines are per-tree records carrying a tree id (order may differ with threads)
}

func T(name string, stdin string, args ...string) Template {
	return Template{Name: name, Stdin: stdin, Args: args}
}
func (t Template) seeded() Template  { t.Seeded = true; return t }
func (t Template) threads() Template { t.Threads = true; return t }
func (t Template) records() Template { t.Records = true; return t }
func (t Template) out(f ...string) Template {
	t.Out = append(t.Out, f...)
	return t
}

// Templates returns the table. Commands that need the network (download *, upload *), the
// interactive console and `version` are not in it.
func Templates() []Template {
	return []Template{
		T("acr-acctran", "tree.nw", "acr", "--states", "states.txt"),
		T("acr-deltran", "tree.nw", "acr", "--states", "states.txt", "--algo", "deltran"),
		T("acr-downpass-out-states", "tree.nw", "acr", "--states", "states.txt", "--algo", "downpass", "--out-states", "st.out", "--out-steps", "steps.out").out("st.out", "steps.out"),
		T("acr-random-resolve", "tree.nw", "acr", "--states", "states.txt", "--random-resolve").seeded(),
		T("annotate-map", "tree.nw", "annotate", "-m", "annot.txt"),
		T("annotate-compared", "", "annotate", "-i", "tree.nw", "-c", "rooted.nw"),
		T("asr-nucl", "tree.nw", "asr", "-a", "align.fa"),
		T("asr-nucl-downpass", "tree.nw", "asr", "-a", "align.fa", "--algo", "downpass", "--log", "asr.log").out("asr.log"),
		T("asr-protein-x", "tree.nw", "asr", "-a", "prot.fa", "--algo", "downpass"),
		T("asr-protein-x-acctran", "tree.nw", "asr", "-a", "prot.fa"),
		T("asr-random-resolve", "tree.nw", "asr", "-a", "align.fa", "--random-resolve").seeded(),
		// "bare" templates: no optional flag typed, input with absent lengths / supports, so that every
		// option of the command is exercised as omitted
		T("bare-brlen-add", "mixed.nw", "brlen", "add"),
		T("bare-brlen-clear", "mixed.nw", "brlen", "clear"),
		T("bare-brlen-cut", "mixed.nw", "brlen", "cut"),
		T("bare-brlen-round", "mixed.nw", "brlen", "round"),
		T("bare-brlen-scale", "mixed.nw", "brlen", "scale"),
		T("bare-brlen-set", "mixed.nw", "brlen", "set"),
		T("bare-brlen-setmin", "mixed.nw", "brlen", "setmin"),
		T("bare-collapse-length", "mixed.nw", "collapse", "length"),
		T("bare-collapse-support", "mixed.nw", "collapse", "support"),
		T("bare-collapse-depth", "mixed.nw", "collapse", "depth"),
		T("bare-support-round", "mixed.nw", "support", "round"),
		T("bare-support-scale", "mixed.nw", "support", "scale"),
		T("bare-support-clear", "mixed.nw", "support", "clear"),
		T("bare-prune", "mixed.nw", "prune"),
		T("bare-sample", "boot.nw", "sample").seeded(),
		T("bare-matrix", "mixed.nw", "matrix"),
		T("bare-stats", "mixed.nw", "stats"),
		T("bare-labels", "mixed.nw", "labels"),
		T("bare-draw-text", "mixed.nw", "draw", "text"),
		T("bare-reformat-nexus", "mixed.nw", "reformat", "nexus"),
		T("bare-reformat-phyloxml", "mixed.nw", "reformat", "phyloxml"),
		T("bare-generate-uniform", "", "generate", "uniformtree").seeded(),
		T("bare-generate-yule", "", "generate", "yuletree").seeded(),
		T("bare-generate-caterpillar", "", "generate", "caterpillartree").seeded(),
		T("bare-generate-balanced", "", "generate", "balancedtree").seeded(),
		T("bare-generate-star", "", "generate", "startree").seeded(),
		T("bare-unroot", "mixed.nw", "unroot"),
		T("bare-resolve", "multi.nw", "resolve").seeded(),
		T("bare-reroot-midpoint", "tree.nw", "reroot", "midpoint"),
		T("bare-rotate-sort", "mixed.nw", "rotate", "sort"),
		T("bare-nni", "mixed.nw", "nni"),
		T("bare-comment-clear", "multi.nw", "comment", "clear"),
		T("bare-compute-edgetrees", "mixed.nw", "compute", "edgetrees"),
		T("bare-compute-consensus", "boot.nw", "compute", "consensus"),
		T("prune-args-two", "mixed.nw", "prune", "@onetip.txt", "zz_absent"),
		T("brlen-add", "tree.nw", "brlen", "add", "-l", "0.25"),
		T("brlen-clear", "tree.nw", "brlen", "clear"),
		T("brlen-cut", "tree.nw", "brlen", "cut", "-l", "0.1"),
		T("brlen-round", "tree.nw", "brlen", "round", "-p", "2"),
		T("brlen-scale", "tree.nw", "brlen", "scale", "-f", "3"),
		T("brlen-set", "tree.nw", "brlen", "set", "-l", "0.5"),
		T("brlen-setmin", "tree.nw", "brlen", "setmin", "-l", "0.05"),
		T("brlen-setrand", "tree.nw", "brlen", "setrand").seeded(),
		T("collapse-clade", "tree.nw", "collapse", "clade", "-l", "clade.txt", "-n", "COLLAPSED"),
		T("bare-collapse-clade", "tree.nw", "collapse", "clade", "-l", "clade.txt"),
		T("collapse-depth", "tree.nw", "collapse", "depth", "-m", "2", "-M", "3"),
		T("collapse-length", "tree.nw", "collapse", "length", "-l", "0.05"),
		T("collapse-name", "rooted.nw", "collapse", "name", "-b", "innername.txt"),
		T("collapse-single", "multi.nw", "collapse", "single"),
		T("collapse-support", "tree.nw", "collapse", "support", "-s", "0.5"),
		T("comment-clear", "multi.nw", "comment", "clear"),
		T("comment-transfer", "multi.nw", "comment", "transfer"),
		T("compare-edges", "", "compare", "edges", "-i", "tree.nw", "-c", "boot.nw"),
		T("compare-tips", "", "compare", "tips", "-i", "tree.nw", "-c", "rooted.nw"),
		T("compare-trees", "", "compare", "trees", "-i", "tree.nw", "-c", "boot.nw").threads().records(),
		T("compare-trees-tips", "", "compare", "trees", "-i", "tree.nw", "-c", "boot.nw", "-l").threads().records(),
		T("compare-trees-weighted", "", "compare", "trees", "-i", "tree.nw", "-c", "boot.nw", "--weighted").threads().records(),
		T("compare-trees-binary", "", "compare", "trees", "-i", "tree.nw", "-c", "boot.nw", "--binary").threads().records(),
		// --rf prints one number per tree without a tree identifier: the lines cannot be re-ordered
		// by the reader, so they must come in file order whatever the number of threads
		T("compare-trees-rf", "", "compare", "trees", "-i", "tree.nw", "-c", "boot.nw", "--rf").threads(),
		T("compute-bipartitiontree", "", "compute", "bipartitiontree", "-f", "tips.txt", "-i", "tree.nw"),
		T("compute-consensus", "trees.nw", "compute", "consensus"),
		T("compute-consensus-f", "boot.nw", "compute", "consensus", "-f", "0.75"),
		T("compute-edgetrees", "tree.nw", "compute", "edgetrees"),
		T("compute-mutations", "named.nw", "compute", "mutations", "-a", "anc.fa"),
		T("compute-mutations-eems", "named.nw", "compute", "mutations", "-a", "anc.fa", "--eems"),
		T("compute-roccurve", "", "compute", "roccurve", "-i", "boot.nw", "-r", "tree.nw"),
		T("support-classical", "", "compute", "support", "classical", "-i", "tree.nw", "-b", "boot.nw").threads(),
		T("support-fbp", "", "compute", "support", "fbp", "-i", "tree.nw", "-b", "boot.nw").threads(),
		T("support-tbe", "", "compute", "support", "tbe", "-i", "tree.nw", "-b", "boot.nw").threads(),
		T("support-booster-raw", "", "compute", "support", "booster", "-i", "tree.nw", "-b", "boot.nw", "-r", "raw.nw", "--log-file", "tbe.log").out("raw.nw", "tbe.log").threads(),
		T("support-tbe-moved", "", "compute", "support", "tbe", "-i", "tree.nw", "-b", "boot.nw", "--moved-taxa", "--per-branches", "--log-file", "tbe.log").out("tbe.log"),
		T("divide", "trees.nw", "divide", "-o", "part").out("part_000.nw", "part_001.nw", "part_002.nw", "part_003.nw"),
		T("divide-default", "trees.nw", "divide").out("prefix_000.nw", "prefix_001.nw", "prefix_002.nw", "prefix_003.nw"),
		T("draw-text", "tree.nw", "draw", "text"),
		T("draw-svg", "tree.nw", "draw", "svg", "-o", "t.svg").out("t.svg"),
		T("draw-svg-radial", "tree.nw", "draw", "svg", "-r", "-o", "t.svg", "--with-branch-support").out("t.svg"),
		T("draw-svg-circular-w", "tree.nw", "draw", "svg", "-c", "-w", "400", "-o", "t.svg").out("t.svg"),
		T("draw-svg-circular-h", "tree.nw", "draw", "svg", "-c", "-H", "300", "-o", "t.svg").out("t.svg"),
		T("draw-png-circular-w", "tree.nw", "draw", "png", "-c", "-w", "300", "-o", "t.png").out("t.png"),
		T("draw-png-radial-h", "tree.nw", "draw", "png", "-r", "-H", "300", "-o", "t.png").out("t.png"),
		T("draw-text-w", "tree.nw", "draw", "text", "-w", "60"),
		T("collapse-depth-min", "tree.nw", "collapse", "depth", "-m", "2"),
		T("collapse-depth-max", "tree.nw", "collapse", "depth", "-M", "3"),
		T("brlen-setrand-min-mean", "tree.nw", "brlen", "setrand", "--min-mean", "0.01").seeded(),
		T("brlen-setrand-mean", "tree.nw", "brlen", "setrand", "-m", "0.5").seeded(),
		T("roccurve-length-geq", "", "compute", "roccurve", "-i", "boot.nw", "-r", "tree.nw", "--length-geq", "0.01"),
		T("rename-auto-internal-only", "rooted.nw", "rename", "-a", "--internal"),
		T("labels-no-tips", "rooted.nw", "labels", "--internal", "--tips=false"),
		T("brlen-scale-internal", "tree.nw", "brlen", "scale", "-f", "3", "--internal=false"),
		T("draw-png", "tree.nw", "draw", "png", "-o", "t.png").out("t.png"),
		T("draw-cyjs", "tree.nw", "draw", "cyjs", "-o", "t.html").out("t.html"),
		T("generate-uniform", "", "generate", "uniformtree", "-l", "12", "-n", "2").seeded(),
		T("generate-uniform-rooted", "", "generate", "uniformtree", "-l", "12", "-r").seeded(),
		T("generate-yule", "", "generate", "yuletree", "-l", "12").seeded(),
		T("generate-caterpillar", "", "generate", "caterpillartree", "-l", "12").seeded(),
		T("generate-balanced", "", "generate", "balancedtree", "-d", "3").seeded(),
		T("generate-star", "", "generate", "startree", "-l", "12").seeded(),
		T("generate-topologies", "", "generate", "topologies", "-l", "5"),
		T("generate-topologies-input", "", "generate", "topologies", "-i", "graft.nw", "-r"),
		T("graft", "", "graft", "-i", "tree.nw", "-c", "graft.nw", "-l", "@onetip.txt"),
		T("labels", "tree.nw", "labels"),
		T("labels-internal", "rooted.nw", "labels", "--internal"),
		T("ltt", "rooted.nw", "ltt"),
		T("matrix", "tree.nw", "matrix"),
		T("matrix-boot-avg", "trees.nw", "matrix", "-m", "boot", "--avg"),
		T("merge", "", "merge", "-i", "rooted.nw", "-c", "rooted2.nw"),
		T("nni", "tree.nw", "nni"),
		T("prune-args", "tree.nw", "prune", "@onetip.txt"),
		T("prune-file", "tree.nw", "prune", "-f", "tips.txt"),
		T("prune-file-revert", "tree.nw", "prune", "-f", "tips.txt", "-r"),
		T("prune-comp", "tree.nw", "prune", "-c", "subset.nw"),
		T("prune-comp-small", "trees.nw", "prune", "-c", "subset4.nw"),
		T("prune-comp-small-revert", "trees.nw", "prune", "-c", "subset4.nw", "-r"),
		T("prune-random", "tree.nw", "prune", "--random", "4").seeded(),
		T("reformat-newick-from-nexus", "trees.nex", "reformat", "newick", "--input-format", "nexus"),
		T("reformat-newick-from-phyloxml", "trees.xml", "reformat", "newick", "--input-format", "phyloxml"),
		T("reformat-nexus", "trees.nw", "reformat", "nexus"),
		T("reformat-nexus-translate", "trees.nw", "reformat", "nexus", "--translate"),
		T("reformat-phyloxml", "trees.nw", "reformat", "phyloxml"),
		T("rename-map", "tree.nw", "rename", "-m", "map.txt"),
		T("rename-map-revert", "tree.nw", "rename", "-m", "map.txt", "-r"),
		T("rename-map-shift", "trees.nw", "rename", "-m", "shiftmap.txt"),
		T("reformat-nexus-translate-numeric", "numtrees.nw", "reformat", "nexus", "--translate"),
		T("reformat-newick-from-numeric-nexus", "numtrees.nw", "reformat", "nexus", "--translate", "-o", "num.nex").out("num.nex"),
		T("rename-auto-map", "trees.nw", "rename", "-a", "-m", "outmap.txt", "-l", "8").out("outmap.txt"),
		T("rename-auto-internal", "rooted.nw", "rename", "-a", "--internal", "--tips=false", "-m", "outmap.txt").out("outmap.txt"),
		T("rename-regexp", "tree.nw", "rename", "-e", "^(.)", "-b", "Z$1", "-m", "outmap.txt").out("outmap.txt"),
		T("rename-add-quotes", "tree.nw", "rename", "--add-quotes", "-m", "outmap.txt").out("outmap.txt"),
		T("repopulate", "tree.nw", "repopulate", "-g", "groups.txt"),
		T("reroot-midpoint", "tree.nw", "reroot", "midpoint"),
		T("reroot-outgroup", "tree.nw", "reroot", "outgroup", "-l", "clade.txt"),
		T("reroot-outgroup-remove", "tree.nw", "reroot", "outgroup", "-l", "clade.txt", "-r", "--strict"),
		T("resolve", "multi.nw", "resolve").seeded(),
		T("resolve-named", "rooted.nw", "resolve", "named"),
		T("rotate-rand", "tree.nw", "rotate", "rand").seeded(),
		T("rotate-sort", "tree.nw", "rotate", "sort"),
		T("sample", "boot.nw", "sample", "-n", "2").seeded(),
		T("sample-replace", "boot.nw", "sample", "-n", "7", "--replace").seeded(),
		T("shuffletips", "tree.nw", "shuffletips").seeded(),
		T("stats", "trees.nw", "stats"),
		T("stats-edges", "tree.nw", "stats", "edges"),
		T("stats-monophyletic", "tree.nw", "stats", "monophyletic", "-l", "clade.txt"),
		T("stats-nodes", "multi.nw", "stats", "nodes"),
		T("stats-rooted", "trees.nw", "stats", "rooted"),
		T("stats-splits", "tree.nw", "stats", "splits"),
		T("stats-tips", "tree.nw", "stats", "tips"),
		T("subtree", "rooted.nw", "subtree", "-n", "@innername.txt"),
		T("support-clear", "tree.nw", "support", "clear"),
		T("support-round", "tree.nw", "support", "round", "-p", "1"),
		T("support-scale", "tree.nw", "support", "scale", "-f", "100"),
		T("support-setrand", "tree.nw", "support", "setrand").seeded(),
		T("unroot", "rooted.nw", "unroot"),
	}
}

// Observed is everything a run produced.
type Observed struct {
	Code     int
	Stdout   string
	Stderr   string
	Files    map[string]string
	TimedOut bool
}

// Equal compares exit status, stdout and written files.
func (o Observed) Diff(p Observed) string {
	if o.Code != p.Code {
		return fmt.Sprintf("exit status %d vs %d", o.Code, p.Code)
	}
	if o.Stdout != p.Stdout {
		return "standard output differs:\n" + firstDiff(o.Stdout, p.Stdout)
	}
	for k, v := range o.Files {
		if p.Files[k] != v {
			return "written file " + k + " differs:\n" + firstDiff(v, p.Files[k])
		}
	}
	for k := range p.Files {
		if _, ok := o.Files[k]; !ok {
			return "written file " + k + " only in the second run"
		}
	}
	return ""
}

func firstDiff(a, b string) string {
	la, lb := strings.Split(a, "\n"), strings.Split(b, "\n")
	for i := 0; i < len(la) || i < len(lb); i++ {
		x, y := "<missing>", "<missing>"
		if i < len(la) {
			x = la[i]
		}
		if i < len(lb) {
			y = lb[i]
		}
		if x != y {
			return fmt.Sprintf("  line %d: %s\n       vs: %s", i+1, clip(x), clip(y))
		}
	}
	return "  (no differing line?)"
}

func clip(s string) string {
	if len(s) > 300 {
		return s[:300] + "..."
	}
	return s
}

// Materialize writes the data set into a fresh scratch directory.
func (d Dataset) Materialize() string {
	dir := cli.Scratch()
	for name, content := range d.Files {
		if strings.HasSuffix(name, ".nw") {
			content = cli.TreesLayout(content) // tree files in one of the layouts met in practice
		}
		os.WriteFile(filepath.Join(dir, name), []byte(content), 0o644)
	}
	return dir
}

// Run executes the template on the data set in a fresh directory.
func Run(tp Template, d Dataset, seed int64, threads int, extra ...string) Observed {
	dir := d.Materialize()
	defer os.RemoveAll(dir)
	var args []string
	for _, a := range tp.Args {
		if strings.HasPrefix(a, "@") {
			a = strings.TrimSpace(d.Files[a[1:]])
		}
		args = append(args, a)
	}
	if tp.Seeded || seed >= 0 {
		args = append(args, "--seed", strconv.FormatInt(seed, 10))
	}
	if threads > 0 && tp.Threads {
		args = append(args, "-t", strconv.Itoa(threads))
	}
	args = append(args, extra...)
	r := cli.Run(dir, cli.TreesLayout(d.Files[tp.Stdin]), args...)
	o := Observed{Code: r.Code, Stdout: r.Stdout, Stderr: r.Stderr, Files: map[string]string{}, TimedOut: r.TimedOut}
	// every file that was not part of the data set is output
	ents, _ := os.ReadDir(dir)
	for _, e := range ents {
		if _, in := d.Files[e.Name()]; in || e.IsDir() {
			continue
		}
		b, _ := os.ReadFile(filepath.Join(dir, e.Name()))
		o.Files[e.Name()] = string(b)
	}
	return o
}

// CommandPath returns the command words of a template (before the first option or argument
// that is not a sub-command name), e.g. ["compute","support","tbe"].
func (t Template) CommandPath(isCommand func(path []string) bool) []string {
	var p []string
	for _, a := range t.Args {
		if strings.HasPrefix(a, "-") || strings.HasPrefix(a, "@") {
			break
		}
		if !isCommand(append(append([]string{}, p...), a)) {
			break
		}
		p = append(p, a)
	}
	return p
}

// Masked removes from written *.log files the lines that legitimately differ between two runs
// of the same command: dates, start / end times (minute resolution: two runs can straddle a
// minute), elapsed time and the CPU count of the TBE log.
func (o Observed) Masked() Observed {
	files := map[string]string{}
	for k, v := range o.Files {
		if strings.HasSuffix(k, ".log") {
			var keep []string
			for _, l := range strings.Split(v, "\n") {
				ll := strings.ToLower(l)
				if strings.Contains(ll, "date") || strings.Contains(ll, "time") || strings.Contains(ll, "end") || strings.Contains(ll, "start") || strings.HasPrefix(ll, "cpus") {
					continue
				}
				keep = append(keep, l)
			}
			v = strings.Join(keep, "\n")
		}
		files[k] = v
	}
	o.Files = files
	return o
}
