// Package big constructs model trees beyond the capacities the tree code preallocates for its
// lists (2000 branches / nodes / tips, 1000 branches to collapse): the drawn cases of the checks
// stop at a few hundred tips, these constructed ones sit at and just above the constants found in
// the source.
package big

import (
	"fmt"

	"verif/internal/ref"
)

// Shapes lists the shapes Model knows.
var Shapes = []string{"star", "wide", "caterpillar", "bushy", "binary", "ubinary"}

// Model returns a tree with n tips t0..t(n-1): "star" (one inner node), "wide" (an inner node with
// n-4 children inside a small tree), "caterpillar" (unrooted, n-2 levels deep), "bushy" (2-4
// children per node), "binary" (rooted, 2 children per node, breadth first), "ubinary" (the same below a root of degree three). Lengths take a few
// dyadic values (0, 0.125 ... 3.5), every third inner branch of bushy and binary trees has a
// support in {0, 0.1 ... 1}; the values repeat, so that thresholds select many branches at once.
func Model(shape string, n int) *ref.Node {
	tip := func(i int) *ref.Node { return &ref.Node{Name: fmt.Sprintf("t%d", i), Len: ref.F(0.5 + float64(i%4))} }
	switch shape {
	case "star":
		r := &ref.Node{}
		for i := 0; i < n; i++ {
			r.Ch = append(r.Ch, tip(i))
		}
		return r
	case "wide":
		w := &ref.Node{Len: ref.F(1), Sup: ref.F(0.5)}
		for i := 0; i < n-4; i++ {
			w.Ch = append(w.Ch, tip(i))
		}
		return &ref.Node{Ch: []*ref.Node{w, {Len: ref.F(0.25), Ch: []*ref.Node{tip(n - 4), tip(n - 3)}}, tip(n - 2), tip(n - 1)}}
	case "caterpillar":
		cur := &ref.Node{Len: ref.F(1), Ch: []*ref.Node{tip(0), tip(1)}}
		for i := 2; i < n-1; i++ {
			cur = &ref.Node{Len: ref.F(0.125 * float64(i%5)), Sup: ref.F(float64(i%11) / 10), Ch: []*ref.Node{cur, tip(i)}}
		}
		return &ref.Node{Ch: []*ref.Node{cur.Ch[0], cur.Ch[1], tip(n - 1)}}
	}
	nodes := []*ref.Node{}
	for i := 0; i < n; i++ {
		nodes = append(nodes, tip(i))
	}
	top := 3
	if shape == "binary" {
		top = 2
	}
	for k := 0; len(nodes) > top; k++ {
		d := 2
		if shape == "bushy" {
			d = 2 + k%3
			if d > len(nodes)-2 {
				d = 2
			}
		}
		in := &ref.Node{Len: ref.F(0.125 * float64(k%5)), Ch: append([]*ref.Node(nil), nodes[:d]...)}
		if k%3 == 0 {
			in.Sup = ref.F(float64(k%11) / 10)
		}
		nodes = append(nodes[d:], in)
	}
	return &ref.Node{Ch: nodes}
}

// Represent returns the same tree in another presentation: the children of every node in reverse order.
func Represent(m *ref.Node) *ref.Node {
	c := m.Clone()
	c.Walk(func(x, p *ref.Node) {
		for i, j := 0, len(x.Ch)-1; i < j; i, j = i+1, j-1 {
			x.Ch[i], x.Ch[j] = x.Ch[j], x.Ch[i]
		}
	})
	return c
}

// Variant returns a tree on the same tips that differs from m by nearest-neighbour interchanges at
// about one inner branch in `every` (chosen by position and seed), with some lengths changed.
func Variant(m *ref.Node, seed, every int) *ref.Node {
	c := m.Clone()
	i := 0
	c.Walk(func(x, p *ref.Node) {
		i++
		if len(x.Ch) < 2 || (i*7+seed)%every != 0 {
			return
		}
		a := x.Ch[0]
		if len(a.Ch) < 2 {
			return
		}
		// swap the last child of a with the last child of x
		a.Ch[len(a.Ch)-1], x.Ch[len(x.Ch)-1] = x.Ch[len(x.Ch)-1], a.Ch[len(a.Ch)-1]
		if a.Len != nil {
			a.Len = ref.F(*a.Len + 0.25)
		}
	})
	return c
}
