// Package gt adapts between the reference model and gotree's public API.
package gt

import (
	"fmt"
	"strings"

	"github.com/evolbioinfo/gotree/io/newick"
	"github.com/evolbioinfo/gotree/tree"

	"verif/internal/ref"
)

// Build constructs a gotree tree from a model through the public construction API only
// (NewNode, ConnectNodes, setters), without using gotree's parser. Indexes are not computed.
func Build(m *ref.Node) *tree.Tree {
	t := tree.NewTree()
	var rec func(m *ref.Node) *tree.Node
	rec = func(m *ref.Node) *tree.Node {
		n := t.NewNode()
		n.SetName(m.Name)
		for _, c := range m.Com {
			n.AddComment(c)
		}
		for _, c := range m.Ch {
			cn := rec(c)
			e := t.ConnectNodes(n, cn)
			if c.Len != nil {
				e.SetLength(*c.Len)
			}
			if c.Sup != nil {
				e.SetSupport(*c.Sup)
			}
			if c.Pv != nil {
				e.SetPValue(*c.Pv)
			}
			for _, bc := range c.BCom {
				e.AddComment(bc)
			}
		}
		return n
	}
	t.SetRoot(rec(m))
	return t
}

// Parse reads a Newick text with gotree's parser.
func Parse(text string) (*tree.Tree, error) {
	return newick.NewParser(strings.NewReader(text)).Parse()
}

// FromModel writes the model with the reference writer and parses it with gotree (gives
// parser-assigned node and edge ids, like every tree the CLI handles).
//
// The text is handed over in one of the presentations of ref.StyleOf (wrapped over LF or CRLF
// lines, numbers with an upper-case exponent), chosen from the text: the tree is the same.
func FromModel(m *ref.Node) (*tree.Tree, error) {
	text := ref.Write(m)
	if st := ref.StyleOf(text); st != (ref.Style{}) {
		return Parse(ref.WriteStyled(m, st))
	}
	return Parse(text)
}

// FromModelPlain is FromModel on the one-line text.
func FromModelPlain(m *ref.Node) (*tree.Tree, error) {
	return Parse(ref.Write(m))
}

// Extract reads a gotree tree back into a model using the traversal API only
// (Root, Neigh, Edges, Name, Comments, Length, Support, PValue).
func Extract(t *tree.Tree) (*ref.Node, error) {
	seen := map[*tree.Node]bool{}
	var rec func(n, from *tree.Node, via *tree.Edge) (*ref.Node, error)
	rec = func(n, from *tree.Node, via *tree.Edge) (*ref.Node, error) {
		if seen[n] {
			return nil, fmt.Errorf("node %q reached twice", n.Name())
		}
		seen[n] = true
		m := &ref.Node{Name: n.Name()}
		m.Com = append([]string(nil), n.Comments()...)
		if via != nil {
			if via.Length() != tree.NIL_LENGTH {
				m.Len = ref.F(via.Length())
			}
			if via.Support() != tree.NIL_SUPPORT {
				m.Sup = ref.F(via.Support())
			}
			if via.PValue() != tree.NIL_PVALUE {
				m.Pv = ref.F(via.PValue())
			}
			m.BCom = append([]string(nil), via.Comments()...)
		}
		ne, ed := n.Neigh(), n.Edges()
		if len(ne) != len(ed) {
			return nil, fmt.Errorf("node %q: %d neighbours, %d edges", n.Name(), len(ne), len(ed))
		}
		skipped := false
		for i, c := range ne {
			if c == from && !skipped {
				skipped = true
				continue
			}
			cm, err := rec(c, n, ed[i])
			if err != nil {
				return nil, err
			}
			m.Ch = append(m.Ch, cm)
		}
		return m, nil
	}
	if t.Root() == nil {
		return nil, fmt.Errorf("nil root")
	}
	return rec(t.Root(), nil, nil)
}

// Printable reduces a model to what Newick text can show: supports and p-values next to
// a named inner node are not printed, p-values need a support, branch comments without a
// length are indistinguishable from node comments.
func Printable(m *ref.Node) *ref.Node {
	c := m.Clone()
	c.Walk(func(x, p *ref.Node) {
		if p == nil {
			x.Len, x.Sup, x.Pv, x.BCom = nil, nil, nil, nil
			return
		}
		if x.IsTip() || x.Name != "" {
			x.Sup, x.Pv = nil, nil
		}
		if x.Sup == nil {
			x.Pv = nil
		}
		if x.Len == nil && len(x.BCom) > 0 {
			x.Com = append(x.Com, x.BCom...)
			x.BCom = nil
		}
		if len(x.BCom) > 1 {
			// only the first comment after a length is read back as branch comment
			x.BCom = x.BCom[:1]
		}
	})
	return c
}

// Structural checks the C03 invariant through the public API and against the Newick text
// read by the reference reader. It returns nil if the tree is well formed.
func Structural(t *tree.Tree) error {
	root := t.Root()
	if root == nil {
		return fmt.Errorf("nil root")
	}
	seenN := map[*tree.Node]bool{}
	seenE := map[*tree.Edge]bool{}
	var walkNodes []*tree.Node
	var walkTips []*tree.Node
	var walkEdges, walkTipE, walkIntE []*tree.Edge
	var rec func(n, from *tree.Node, via *tree.Edge) error
	rec = func(n, from *tree.Node, via *tree.Edge) error {
		if n == nil {
			return fmt.Errorf("nil node in adjacency")
		}
		if seenN[n] {
			return fmt.Errorf("node %q reached twice (cycle or shared node)", n.Name())
		}
		seenN[n] = true
		walkNodes = append(walkNodes, n)
		ne, ed := n.Neigh(), n.Edges()
		if len(ne) != len(ed) {
			return fmt.Errorf("node %q: %d neighbours but %d edges", n.Name(), len(ne), len(ed))
		}
		if len(ne) == 1 && from != nil {
			walkTips = append(walkTips, n)
		}
		nback := 0
		for i, c := range ne {
			e := ed[i]
			if e == nil || c == nil {
				return fmt.Errorf("node %q: nil neighbour or edge in slot %d", n.Name(), i)
			}
			if !((e.Left() == n && e.Right() == c) || (e.Left() == c && e.Right() == n)) {
				return fmt.Errorf("node %q slot %d: edge does not join the node and its neighbour", n.Name(), i)
			}
			// symmetric adjacency with the same edge object
			found := false
			cn, ce := c.Neigh(), c.Edges()
			if len(cn) != len(ce) {
				return fmt.Errorf("node %q: %d neighbours but %d edges", c.Name(), len(cn), len(ce))
			}
			for j := range cn {
				if cn[j] == n && ce[j] == e {
					found = true
				}
			}
			if !found {
				return fmt.Errorf("node %q slot %d: neighbour %q does not list the node back with the same edge", n.Name(), i, c.Name())
			}
			if c == from && e == via {
				nback++
				continue
			}
			if c == from {
				return fmt.Errorf("node %q: second connection to its parent", n.Name())
			}
			if seenE[e] {
				return fmt.Errorf("edge used twice")
			}
			seenE[e] = true
			if e.Left() != n || e.Right() != c {
				return fmt.Errorf("edge between %q and %q does not point away from the root", n.Name(), c.Name())
			}
			walkEdges = append(walkEdges, e)
			if len(c.Neigh()) == 1 {
				walkTipE = append(walkTipE, e)
			} else {
				walkIntE = append(walkIntE, e)
			}
			if err := rec(c, n, e); err != nil {
				return err
			}
		}
		if from != nil && nback != 1 {
			return fmt.Errorf("node %q: %d back links to parent", n.Name(), nback)
		}
		return nil
	}
	if err := rec(root, nil, nil); err != nil {
		return err
	}
	if len(root.Neigh()) == 1 {
		walkTips = append(walkTips, root) // gotree counts a degree-one root as a tip
	}
	if len(walkEdges) != len(walkNodes)-1 {
		return fmt.Errorf("%d edges for %d nodes", len(walkEdges), len(walkNodes))
	}
	if err := sameNodeSet("Nodes()", t.Nodes(), walkNodes); err != nil {
		return err
	}
	if err := sameNodeSet("Tips()", t.Tips(), walkTips); err != nil {
		return err
	}
	if err := sameEdgeSet("Edges()", t.Edges(), walkEdges); err != nil {
		return err
	}
	if err := sameEdgeSet("TipEdges()", t.TipEdges(), walkTipE); err != nil {
		return err
	}
	if err := sameEdgeSet("InternalEdges()", t.InternalEdges(), walkIntE); err != nil {
		return err
	}
	// the text describes exactly that structure
	text := t.Newick()
	m, err := ref.Parse(text)
	if err != nil {
		return fmt.Errorf("Newick text not readable by the reference reader: %v (%s)", err, clip(text))
	}
	x, err := Extract(t)
	if err != nil {
		return err
	}
	if d := ref.Diff(Printable(x), m); d != "" {
		return fmt.Errorf("Newick text does not describe the walked structure: %s (%s)", d, clip(text))
	}
	return nil
}

func clip(s string) string {
	if len(s) > 300 {
		return s[:300] + "..."
	}
	return s
}

func sameNodeSet(what string, got, want []*tree.Node) error {
	m := map[*tree.Node]int{}
	for _, n := range got {
		m[n]++
		if m[n] > 1 {
			return fmt.Errorf("%s lists node %q twice", what, n.Name())
		}
	}
	if len(got) != len(want) {
		return fmt.Errorf("%s returns %d, the walk from the root finds %d", what, len(got), len(want))
	}
	for _, n := range want {
		if m[n] != 1 {
			return fmt.Errorf("%s misses node %q", what, n.Name())
		}
	}
	return nil
}

func sameEdgeSet(what string, got, want []*tree.Edge) error {
	m := map[*tree.Edge]int{}
	for _, e := range got {
		m[e]++
		if m[e] > 1 {
			return fmt.Errorf("%s lists an edge twice (to %q)", what, e.Right().Name())
		}
	}
	if len(got) != len(want) {
		return fmt.Errorf("%s returns %d, the walk from the root finds %d", what, len(got), len(want))
	}
	for _, e := range want {
		if m[e] != 1 {
			return fmt.Errorf("%s misses the edge to %q", what, e.Right().Name())
		}
	}
	return nil
}

// Read returns the reference reading of the tree's Newick text.
func Read(t *tree.Tree) (*ref.Node, error) {
	text := t.Newick()
	m, err := ref.Parse(text)
	if err != nil {
		return nil, fmt.Errorf("reference reader rejects %s: %v", clip(text), err)
	}
	return m, nil
}

// EdgePair associates a gotree edge with the model node below it.
type EdgePair struct {
	E *tree.Edge
	M *ref.Node
}

// PairEdges walks the gotree tree and a model of the same shape (e.g. the reference
// reading of its text) in parallel, using only Root/Neigh/Edges.
func PairEdges(t *tree.Tree, m *ref.Node) ([]EdgePair, error) {
	var out []EdgePair
	var rec func(n, from *tree.Node, mn *ref.Node) error
	rec = func(n, from *tree.Node, mn *ref.Node) error {
		k := 0
		skipped := false
		for i, c := range n.Neigh() {
			if c == from && !skipped {
				skipped = true
				continue
			}
			if k >= len(mn.Ch) {
				return fmt.Errorf("shape mismatch at %q", n.Name())
			}
			out = append(out, EdgePair{n.Edges()[i], mn.Ch[k]})
			if err := rec(c, n, mn.Ch[k]); err != nil {
				return err
			}
			k++
		}
		if k != len(mn.Ch) {
			return fmt.Errorf("shape mismatch at %q", n.Name())
		}
		return nil
	}
	if err := rec(t.Root(), nil, m); err != nil {
		return nil, err
	}
	return out, nil
}

// RerootBoth re-roots the gotree tree in memory (Tree.Reroot) at one of its inner non-root nodes
// with >= 3 neighbours, chosen by sel, and returns the reference model re-rooted at the same
// node. Trees read from text always list a node's parent first among its neighbours; a tree
// re-rooted in memory does not, which is a state every operation must also cope with. Only for
// models whose root has >= 3 children and that have no single-child node (otherwise the old
// root stays behind as a single-child node). ok=false when no such node exists.
func RerootBoth(t *tree.Tree, m *ref.Node, sel int) (rm *ref.Node, ok bool, err error) {
	if len(m.Ch) < 3 || m.HasSingleChildInner() {
		return m, false, nil
	}
	pairs, err := PairEdges(t, m)
	if err != nil {
		return nil, false, err
	}
	var cand []EdgePair
	for _, p := range pairs {
		if len(p.M.Ch) >= 2 {
			cand = append(cand, p)
		}
	}
	if len(cand) == 0 {
		return m, false, nil
	}
	c := cand[sel%len(cand)]
	if err := t.Reroot(c.E.Right()); err != nil {
		return nil, false, fmt.Errorf("Reroot failed: %v", err)
	}
	rm = ref.RerootAt(m, c.M)
	// sanity: the text of the re-rooted tree is the re-rooted model (C05 judges Reroot itself)
	got, err := Read(t)
	if err != nil {
		return nil, false, err
	}
	if d := ref.Diff(Printable(rm), got); d != "" {
		return nil, false, fmt.Errorf("after Reroot the text is not the re-rooted model: %s (%s)", d, t.Newick())
	}
	return got, true, nil
}

// RerootInMemory re-roots the tree (Tree.Reroot) at one of its non-root nodes with >= 3
// neighbours chosen by sel; nothing happens when there is none. For oracles that do not depend on
// the rooting: the in-memory state (a node's parent no longer first among its neighbours) is one
// that no freshly parsed tree has.
func RerootInMemory(t *tree.Tree, sel int) error {
	if sel <= 0 {
		return nil
	}
	var cand []*tree.Node
	for _, n := range t.Nodes() {
		if n != t.Root() && n.Nneigh() >= 3 {
			cand = append(cand, n)
		}
	}
	if len(cand) == 0 || t.Root().Nneigh() < 3 {
		return nil
	}
	return t.Reroot(cand[(sel-1)%len(cand)])
}

// IndexesExact compares the tip index and every branch's recorded split (bitset, tip counts,
// topological depth) with the split obtained by cutting that branch in the reference reading of
// the tree's Newick text.
func IndexesExact(t *tree.Tree) error {
	m, err := Read(t)
	if err != nil {
		return err
	}
	tx, err := ref.NewTaxa(m.Tips())
	if err != nil {
		return err
	}
	n := tx.N()
	for i, name := range tx.Names {
		idx, err := t.TipIndex(name)
		if err != nil {
			return fmt.Errorf("TipIndex(%q): %v", name, err)
		}
		if idx != i {
			return fmt.Errorf("TipIndex(%q) = %d, rank in sorted names is %d", name, idx, i)
		}
	}
	cl, err := tx.Clades(m)
	if err != nil {
		return err
	}
	pairs, err := PairEdges(t, m)
	if err != nil {
		return err
	}
	for _, p := range pairs {
		below := cl[p.M]
		k := below.Count()
		bs := p.E.Bitset()
		if bs == nil {
			return fmt.Errorf("nil bitset on the branch above %v", tx.NamesOf(below))
		}
		if int(bs.Len()) != n {
			return fmt.Errorf("bitset of width %d in a tree with %d tips", bs.Len(), n)
		}
		for i := 0; i < n; i++ {
			if bs.Test(uint(i)) != below.Has(i) {
				return fmt.Errorf("branch above %v: bitset says tip %q is %v", tx.NamesOf(below), tx.Names[i], bs.Test(uint(i)))
			}
		}
		if p.E.NumTipsRight() != k || p.E.NumTipsLeft() != n-k {
			return fmt.Errorf("branch above %v: tip counts %d/%d, expected %d/%d", tx.NamesOf(below), p.E.NumTipsRight(), p.E.NumTipsLeft(), k, n-k)
		}
		d, err := p.E.TopoDepth()
		min := k
		if n-k < k {
			min = n - k
		}
		if min == 0 {
			continue // only under a single-child root
		}
		if err != nil || d != min {
			return fmt.Errorf("branch above %v: topological depth %d (%v), expected %d", tx.NamesOf(below), d, err, min)
		}
	}
	return nil
}

