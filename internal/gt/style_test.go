package gt

import (
	"testing"

	"pgregory.net/rapid"

	"verif/internal/gen"
	"verif/internal/ref"
)

func TestStyles(t *testing.T) {
	styles := []ref.Style{{NL: "\n", Every: 3}, {NL: "\r\n", Every: 3}, {NL: "\r\n", Every: 1, AfterTips: true}, {ENum: true}, {ENum: true, NL: "\r\n", Every: 2, Indent: "  "}, {NL: "\n", Every: 1, AfterTips: true, Indent: "\t"}}
	rapid.Check(t, func(t *rapid.T) {
		o := gen.Opts{MinTips: 1, MaxTips: 12, BigTips: 40, Rooted: -1, MaxDeg: 5, Lens: gen.AnyPresence, LenVals: gen.AnyValue, Sups: gen.AnyPresence, Hostile: rapid.Bool().Draw(t, "h"), Comments: true, InnerNames: gen.AnyPresence, Pvals: true, SingleChild: true}
		m := gen.Tree(t, o)
		p, err := Parse(ref.Write(m))
		if err != nil {
			t.Skip()
		}
		pm, _ := Extract(p)
		for _, st := range styles {
			q, err := Parse(ref.WriteStyled(m, st))
			if err != nil {
				t.Fatalf("%+v: %v on %q", st, err, ref.WriteStyled(m, st))
			}
			qm, _ := Extract(q)
			if d := ref.Diff(pm, qm); d != "" {
				t.Fatalf("%+v: %s on %q", st, d, ref.WriteStyled(m, st))
			}
		}
	})
}
