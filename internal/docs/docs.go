// Package docs writes reference models as documents of the five input formats (independent
// writers, no gotree import) and mutates documents at the byte level.
package docs

import (
	"encoding/json"
	"fmt"
	"sort"
	"strconv"
	"strings"

	"pgregory.net/rapid"

	"verif/internal/ref"
)

// Layout describes the free layout of a multi-Newick stream.
type Layout struct {
	BreakAfterComma bool `json:"break,omitempty"`    // break trees over several lines after ','
	BlankLines      int  `json:"blank,omitempty"`    // 0 none, 1 empty lines between trees, 2 blank-only lines (spaces/tabs)
	Trailing        bool `json:"trailing,omitempty"` // blanks/tabs after ';'
	CRLF            bool `json:"crlf,omitempty"`
	NoFinalNewline  bool `json:"nofinal,omitempty"`
	// PadLast > 0 (with NoFinalNewline): blanks after the last ';' bring the length of the last
	// line to the next multiple of PadLast (a line that fills the reader's buffer exactly)
	PadLast int `json:"pad_last,omitempty"`
	// AfterTips (with BreakAfterComma): one tip per line - a line end follows every tip name too
	AfterTips bool `json:"after_tips,omitempty"`
	// ENum: numbers in exponent notation with an upper-case E (1.0E-4, as Java programs print them)
	ENum bool `json:"enum,omitempty"`
	// SameLine: trees are written two per line ("(a,b);(c,d);", 1 = nothing between them, 2 = a
	// blank between them); a last odd tree stands alone
	SameLine int `json:"same_line,omitempty"`
}

// MultiNewick lays out the trees one record per ';' at a line end.
func MultiNewick(ms []*ref.Node, l Layout) string {
	nl := "\n"
	if l.CRLF {
		nl = "\r\n"
	}
	var b strings.Builder
	for i, m := range ms {
		s := ref.Write(m)
		if l.ENum {
			s = ref.WriteStyled(m, ref.Style{ENum: true})
		}
		if l.BreakAfterComma && l.AfterTips {
			s = ref.WriteStyled(m, ref.Style{NL: nl, Every: 2, AfterTips: true, Indent: " ", ENum: l.ENum})
		} else if l.BreakAfterComma {
			// break after at most every third comma that is outside brackets
			var o strings.Builder
			depth, k := 0, 0
			for _, r := range s {
				o.WriteRune(r)
				switch r {
				case '[':
					depth++
				case ']':
					if depth > 0 {
						depth--
					}
				case ',':
					if depth == 0 {
						k++
						if k%3 == 1 {
							o.WriteString(nl)
						}
					}
				}
			}
			s = o.String()
		}
		b.WriteString(s)
		if l.Trailing {
			b.WriteString(" \t ")
		}
		last := i == len(ms)-1
		if last && l.NoFinalNewline && l.PadLast > 0 {
			text := b.String()
			lineLen := len(text) - (strings.LastIndex(text, "\n") + 1)
			if pad := (l.PadLast - lineLen%l.PadLast) % l.PadLast; pad > 0 {
				b.WriteString(strings.Repeat(" ", pad))
			}
		}
		if l.SameLine > 0 && i%2 == 0 && !last {
			// the next tree follows on the same line
			if l.SameLine == 2 {
				b.WriteString(" ")
			}
			continue
		}
		if !(last && l.NoFinalNewline) {
			b.WriteString(nl)
		}
		if !last {
			switch l.BlankLines {
			case 1:
				b.WriteString(nl)
			case 2:
				b.WriteString(" \t" + nl)
			}
		}
	}
	return b.String()
}

// NexusOpts selects optional parts of a Nexus document.
type NexusOpts struct {
	Translate bool `json:"translate,omitempty"`
	Taxa      bool `json:"taxa,omitempty"`     // TAXA block
	Data      bool `json:"data,omitempty"`     // DATA block with a small DNA matrix
	Comments  bool `json:"comments,omitempty"` // [comments] between commands
	Lower     bool `json:"lower,omitempty"`    // lower-case keywords
	Unknown   bool `json:"unknown,omitempty"`  // an unsupported block and command
	// InlineEnd: the ';' that ends the TRANSLATE command follows its last entry on the same line
	// ("5 e;", as MrBayes and BEAST write it) instead of standing on a line of its own
	InlineEnd bool `json:"inline_end,omitempty"`
	// TwoBlocks: the trees are spread over two TREES blocks (two tree files spliced under one header)
	TwoBlocks bool `json:"two_blocks,omitempty"`
	// SameNames: every TREE statement carries the same tree name ("rep")
	SameNames bool `json:"same_names,omitempty"`
	// NoEqual > 0: the TREE statement number NoEqual (from 1) lacks its '=' (not a valid statement)
	NoEqual int `json:"no_equal,omitempty"`
}

// Nexus writes the trees as a Nexus document. All trees must have the same tip names when
// Taxa is set (the reader refuses a tree that lacks a TAXLABEL).
func Nexus(ms []*ref.Node, o NexusOpts) string {
	kw := func(s string) string {
		if o.Lower {
			return strings.ToLower(s)
		}
		return s
	}
	names := map[string]bool{}
	for _, m := range ms {
		for _, n := range m.Tips() {
			names[n] = true
		}
	}
	var taxa []string
	for n := range names {
		taxa = append(taxa, n)
	}
	sort.Strings(taxa)
	var b strings.Builder
	b.WriteString("#NEXUS\n")
	if o.Comments {
		b.WriteString("[ a comment with = and , and words ]\n")
	}
	if o.Taxa {
		b.WriteString(kw("BEGIN TAXA") + ";\n")
		b.WriteString(" " + kw("DIMENSIONS NTAX") + "=" + strconv.Itoa(len(taxa)) + ";\n")
		b.WriteString(" " + kw("TAXLABELS"))
		for _, t := range taxa {
			b.WriteString(" " + t)
		}
		b.WriteString(";\n" + kw("END") + ";\n")
	}
	if o.Unknown {
		b.WriteString(kw("BEGIN") + " PAUP;\n set autoclose=yes;\n" + kw("END") + ";\n")
	}
	if o.Data {
		b.WriteString(kw("BEGIN DATA") + ";\n")
		b.WriteString(" " + kw("DIMENSIONS NTAX") + "=" + strconv.Itoa(len(taxa)) + " " + kw("NCHAR") + "=4;\n")
		b.WriteString(" " + kw("FORMAT DATATYPE") + "=dna " + kw("MISSING") + "=* " + kw("GAP") + "=-;\n")
		b.WriteString(" " + kw("MATRIX") + "\n")
		for i, t := range taxa {
			b.WriteString("  " + t + " " + []string{"ACGT", "A-GT", "AC*T", "TTGA"}[i%4] + "\n")
		}
		b.WriteString(" ;\n" + kw("END") + ";\n")
	}
	b.WriteString(kw("BEGIN TREES") + ";\n")
	tr := map[string]string{}
	if o.Translate {
		b.WriteString("  " + kw("TRANSLATE") + "\n")
		for i, t := range taxa {
			tr[t] = strconv.Itoa(i + 1)
			sep := ","
			if i == len(taxa)-1 {
				sep = ""
				if o.InlineEnd {
					sep = ";"
				}
			}
			b.WriteString("   " + tr[t] + " " + t + sep + "\n")
		}
		if !o.InlineEnd {
			b.WriteString("  ;\n")
		}
	}
	for i, m := range ms {
		mm := m
		if o.Translate {
			mm = m.Clone()
			for _, tip := range mm.TipNodes() {
				tip.Name = tr[tip.Name]
			}
		}
		if o.Comments && i == 0 {
			b.WriteString("  [ comment before a tree ]\n")
		}
		s := ref.Write(mm)
		name, eq := "tree"+strconv.Itoa(i), " = "
		if o.SameNames {
			name = "rep"
		}
		if o.NoEqual == i+1 {
			eq = " "
		}
		b.WriteString("  " + kw("TREE") + " " + name + eq + s + "\n")
		if o.TwoBlocks && len(ms) >= 2 && i == (len(ms)-1)/2 {
			b.WriteString(kw("END") + ";\n" + kw("BEGIN TREES") + ";\n")
		}
	}
	b.WriteString(kw("END") + ";\n")
	return b.String()
}

func xmlEscape(s string) string {
	r := strings.NewReplacer("&", "&amp;", "<", "&lt;", ">", "&gt;")
	return r.Replace(s)
}

// PhyloXML writes the trees as a PhyloXML document.
func PhyloXML(ms []*ref.Node) string { return phyloXML(ms, false) }

// PhyloXMLTaxonomy does the same but gives every second named node its name through a
// <taxonomy> element (<scientific_name>, then <code>) instead of <name>, with other elements
// (id, events, dates) the reader must skip.
func PhyloXMLTaxonomy(ms []*ref.Node) string { return phyloXML(ms, true) }

func phyloXML(ms []*ref.Node, taxonomy bool) string {
	k := 0
	var b strings.Builder
	b.WriteString("<?xml version=\"1.0\" encoding=\"UTF-8\"?>\n<phyloxml xmlns=\"http://www.phyloxml.org\">\n")
	var rec func(n *ref.Node, root bool, ind string)
	rec = func(n *ref.Node, root bool, ind string) {
		b.WriteString(ind + "<clade>\n")
		if n.Name != "" {
			k++
			switch {
			case taxonomy && k%4 == 1:
				b.WriteString(ind + " <taxonomy><id provider=\"ncbi\">" + strconv.Itoa(9000+k) + "</id><scientific_name>" + xmlEscape(n.Name) + "</scientific_name><code>IGNORED</code></taxonomy>\n")
			case taxonomy && k%4 == 3:
				b.WriteString(ind + " <taxonomy><code>" + xmlEscape(n.Name) + "</code></taxonomy>\n <events><speciations>1</speciations></events>\n")
			default:
				b.WriteString(ind + " <name>" + xmlEscape(n.Name) + "</name>\n")
			}
		}
		if !root && n.Len != nil {
			b.WriteString(ind + " <branch_length>" + strconv.FormatFloat(*n.Len, 'g', -1, 64) + "</branch_length>\n")
		}
		if !root && n.Sup != nil && !n.IsTip() {
			b.WriteString(ind + " <confidence type=\"bootstrap\">" + strconv.FormatFloat(*n.Sup, 'g', -1, 64) + "</confidence>\n")
		}
		for _, c := range n.Ch {
			rec(c, false, ind+" ")
		}
		b.WriteString(ind + "</clade>\n")
	}
	for _, m := range ms {
		b.WriteString(fmt.Sprintf(" <phylogeny rooted=\"%t\">\n", len(m.Ch) == 2))
		rec(m, true, "  ")
		b.WriteString(" </phylogeny>\n")
	}
	b.WriteString("</phyloxml>\n")
	return b.String()
}

// Nextstrain writes one tree as an auspice v2 JSON document: div is the cumulative
// divergence from the root (absent lengths count as 0).
func Nextstrain(m *ref.Node, withAttrs bool) string {
	type obj = map[string]any
	var rec func(n *ref.Node, div float64, k *int) obj
	rec = func(n *ref.Node, div float64, k *int) obj {
		o := obj{}
		if n.Name != "" {
			o["name"] = n.Name
		}
		na := obj{"div": div}
		*k++
		if withAttrs && *k%3 == 0 {
			na["country"] = obj{"value": "Some Land, x:y"}
			na["num_date"] = obj{"value": 2001.5, "confidence": []float64{2001, 2002}}
			na["accession"] = "AB 12:3"
			o["branch_attrs"] = obj{"labels": obj{"aa": "S: A1T, B2C"}, "mutations": obj{"nuc": []string{"A1T"}}}
		}
		o["node_attrs"] = na
		if len(n.Ch) > 0 {
			var ch []obj
			for _, c := range n.Ch {
				l := 0.0
				if c.Len != nil {
					l = *c.Len
				}
				ch = append(ch, rec(c, div+l, k))
			}
			o["children"] = ch
		}
		return o
	}
	k := 0
	doc := obj{"version": "v2", "meta": obj{"title": "x"}, "tree": rec(m, 0, &k)}
	b, _ := json.Marshal(doc)
	return string(b)
}

// ---------------------------------------------------------------------------------------
// Byte-level mutation

var dictionary = []string{
	"[", "]", "=", ";", ",", "(", ")", ":", "BEGIN", "END;", "END", "MISSING=", "GAP=", "TRANSLATE", "TREE", "TREES;", "TAXA;",
	"TAXLABELS", "DIMENSIONS", "NTAX=", "NCHAR=", "FORMAT", "DATATYPE=", "MATRIX", "DATA;", "#NEXUS", "\r", "\r\n", "\n", "\x00",
	" \t\n", "\n \n", "((((((((((", "))))))))))", "1e999", "-", "'", "\"", "<clade>", "</clade>", "<phylogeny>", "</phylogeny>",
	"<name></name>", "<branch_length>x</branch_length>", "{\"children\":[", "]}", "{}", "null", "\"v2\"", "\"version\":\"v1\"",
	"[&", "::", ":;", ",,", "();", "(,);", "(A);", "((A,B));", ";;", "\xff", "\xc3", " ; ", "\t;", "=;", "[[", "]]",
	// blanks other than space, tab, CR, LF: a label or a line may consist of nothing else
	"\u00a0", "\f", "\v", "\u2003", "\u0085", "\u3000", ")\u00a0", ")\f:", ";\t", ";\t\n", "; \t",
	// numbers where a count or a size is expected: negative, zero, beyond int32 / int64, not integers
	"-1", "-4", "0", "2147483648", "9223372036854775807", "-9223372036854775808", "99999999999999999999", "1e9", "0x10", "NTAX=-4", "NTAX=9223372036854775807",
	"NCHAR=-2", "NCHAR=0",
}

// Mutation is one byte-level edit, interpreted relative to the current document.
type Mutation struct {
	Kind string `json:"k"`
	A    int    `json:"a"`
	B    int    `json:"b"`
	Tok  string `json:"t,omitempty"`
}

func GenMutation(t *rapid.T) Mutation {
	m := Mutation{
		Kind: rapid.SampledFrom([]string{"truncate", "delete", "duplicate", "insert", "insert", "flip", "splice", "replace", "swap"}).Draw(t, "mkind"),
		A:    rapid.IntRange(0, 1<<20).Draw(t, "ma"),
		B:    rapid.IntRange(0, 1<<20).Draw(t, "mb"),
	}
	if m.Kind == "insert" || m.Kind == "replace" {
		if rapid.IntRange(0, 5).Draw(t, "mrand") == 0 {
			m.Tok = string(rapid.SliceOfN(rapid.Byte(), 1, 4).Draw(t, "mbytes"))
		} else {
			m.Tok = rapid.SampledFrom(dictionary).Draw(t, "mtok")
		}
	}
	return m
}

// Apply applies the mutation; other is a second document used by splice.
func (m Mutation) Apply(doc, other []byte) []byte {
	n := len(doc)
	pos := func(x int) int {
		if n == 0 {
			return 0
		}
		return x % (n + 1)
	}
	a, b := pos(m.A), pos(m.B)
	if a > b {
		a, b = b, a
	}
	if b-a > 64 && m.Kind != "truncate" && m.Kind != "splice" {
		b = a + (b-a)%64
	}
	out := make([]byte, 0, n+16)
	switch m.Kind {
	case "truncate":
		return append(out, doc[:a]...)
	case "delete":
		out = append(out, doc[:a]...)
		return append(out, doc[b:]...)
	case "duplicate":
		out = append(out, doc[:b]...)
		out = append(out, doc[a:b]...)
		return append(out, doc[b:]...)
	case "insert":
		out = append(out, doc[:a]...)
		out = append(out, m.Tok...)
		return append(out, doc[a:]...)
	case "replace":
		out = append(out, doc[:a]...)
		out = append(out, m.Tok...)
		return append(out, doc[b:]...)
	case "flip":
		out = append(out, doc...)
		if n > 0 {
			out[a%n] ^= byte(1 << uint(m.B%8))
		}
		return out
	case "splice":
		out = append(out, doc[:a]...)
		if len(other) > 0 {
			out = append(out, other[m.B%len(other):]...)
		}
		return out
	case "swap":
		// swap the spans [a,b) and the following span of the same length
		l := b - a
		if b+l > n {
			return append(out, doc...)
		}
		out = append(out, doc[:a]...)
		out = append(out, doc[b:b+l]...)
		out = append(out, doc[a:b]...)
		return append(out, doc[b+l:]...)
	}
	return append(out, doc...)
}
