// Package ops interprets plain-data edit histories against a gotree tree. Selectors are
// integers interpreted relative to the state reached, so that a history stays valid when
// steps are removed by shrinking.
package ops

import (
	"fmt"
	"math/rand"
	"sort"
	"strconv"

	"pgregory.net/rapid"

	"github.com/evolbioinfo/gotree/tree"

	"verif/internal/gen"
	"verif/internal/gt"
	"verif/internal/ref"
)

type Op struct {
	Kind  string    `json:"op"`
	Sel   []int     `json:"sel,omitempty"`
	F     []float64 `json:"f,omitempty"`
	B     []bool    `json:"b,omitempty"`
	Seed  int64     `json:"seed,omitempty"`
	Graft *ref.Node `json:"graft,omitempty"`
}

var Kinds = []string{
	"reroot", "outgroup", "midpoint", "unroot", "prune", "collapse_len", "collapse_sup", "collapse_depth",
	"resolve", "rotate", "sort", "rotate_node", "graft", "merge", "identical", "identical_one", "single_nodes",
	"nni", "nni_undo", "nni_double", "rename", "rename_auto", "rename_regexp", "shuffle_tips", "clone", "subtree",
	"reinit", "clear_lengths", "clear_supports", "comments_set", "comments_clear", "comments_add",
	"scale_lengths", "round_supports", "resolve_named", "graft_tip_on_edge", "reroot_first", "edge_comments_set",
	"rename_swap", "setname_swap", "nni_hold", "nni_release", "setname_fresh", "scale_supports",
}

// keepsHeld: operations that leave the nodes and the adjacency of the tree as they are (they
// reorder neighbours, change names, lengths, supports or comments): a rearrangement applied before
// them can still be undone after them.
var keepsHeld = map[string]bool{"rotate": true, "sort": true, "rotate_node": true, "comments_set": true, "comments_clear": true, "comments_add": true,
	"edge_comments_set": true, "scale_lengths": true, "round_supports": true, "clear_supports": true, "clear_lengths": true, "reinit": true,
	"nni_release": true, "scale_supports": true, "rename": true, "rename_swap": true, "setname_swap": true, "shuffle_tips": true, "setname_fresh": true}

// GenOp draws one operation. Arguments are drawn generously; the interpreter reduces the
// selectors modulo what exists.
func GenOp(t *rapid.T, kinds []string) Op {
	k := rapid.SampledFrom(kinds).Draw(t, "op")
	op := Op{Kind: k}
	sel := func(n int) {
		for i := 0; i < n; i++ {
			op.Sel = append(op.Sel, rapid.IntRange(0, 1000).Draw(t, "sel"))
		}
	}
	flags := func(n int) {
		for i := 0; i < n; i++ {
			op.B = append(op.B, rapid.Bool().Draw(t, "flag"))
		}
	}
	switch k {
	case "reroot", "rotate_node", "subtree", "nni", "nni_undo", "nni_double", "comments_add", "graft_tip_on_edge", "nni_hold", "setname_fresh":
		sel(1)
	case "outgroup":
		sel(rapid.IntRange(1, 5).Draw(t, "nout"))
		flags(2)
	case "prune":
		sel(rapid.IntRange(0, 6).Draw(t, "nprune"))
		flags(1)
	case "collapse_len":
		op.F = []float64{rapid.SampledFrom([]float64{0, 0.25, 0.5, 1, 2, -1, 1e9}).Draw(t, "thr")}
		flags(2)
	case "collapse_sup":
		op.F = []float64{rapid.SampledFrom([]float64{0, 0.5, 0.75, 1, 50, 100, 1e9}).Draw(t, "thr")}
		flags(1)
	case "collapse_depth":
		op.Sel = []int{rapid.IntRange(0, 4).Draw(t, "dmin"), rapid.IntRange(0, 6).Draw(t, "dmax")}
		flags(2)
	case "resolve", "rotate", "shuffle_tips", "scale_supports":
		op.Seed = rapid.Int64Range(0, 1<<40).Draw(t, "seed")
	case "graft":
		sel(1)
		o := gen.Opts{MinTips: 2, MaxTips: 5, Rooted: -1, MaxDeg: 4, Lens: gen.AnyPresence, LenVals: gen.DyadicZ, Sups: gen.AnyPresence}
		op.Graft = gen.Tree(t, o)
	case "merge":
		o := gen.Opts{MinTips: 2, MaxTips: 5, Rooted: 1, MaxDeg: 4, Lens: gen.AnyPresence, LenVals: gen.DyadicZ, Sups: gen.AnyPresence}
		op.Graft = gen.Tree(t, o)
	case "identical":
		sel(rapid.IntRange(1, 3).Draw(t, "ngroups"))
		op.Sel = append(op.Sel, rapid.IntRange(1, 3).Draw(t, "nnew"))
	case "identical_one":
		sel(1)
	case "rename":
		sel(rapid.IntRange(1, 4).Draw(t, "nren"))
	case "rename_swap", "setname_swap":
		sel(2)
	case "rename_auto", "rename_regexp":
		flags(2)
	case "clear_lengths":
		flags(2)
	}
	return op
}

// State carries what the interpreter needs besides the tree.
type State struct {
	T     *tree.Tree
	Fresh int // counter for fresh names
	// Held: a rearrangement that was applied (nni_hold) and not yet undone (nni_release), and the
	// tree object it belongs to; dropped by every operation that changes nodes or adjacency
	Held   tree.Rearrangement
	heldOn *tree.Tree
}

func (s *State) fresh(prefix string) string {
	s.Fresh++
	return prefix + strconv.Itoa(s.Fresh) + "x"
}

// Result of one step.
const (
	Applied = iota // the operation reported success
	Failed         // the operation returned an error
	Skipped        // precondition of the operation not met in this state; nothing was called
)

func innerNodes(t *tree.Tree) []*tree.Node {
	var out []*tree.Node
	for _, n := range t.Nodes() {
		if n.Nneigh() >= 2 {
			out = append(out, n)
		}
	}
	return out
}

func sortedTips(t *tree.Tree) []string {
	names := t.AllTipNames()
	sort.Strings(names)
	return names
}

// hasSingleChildInner: a non-root node with exactly two neighbours.
func hasSingleChildInner(t *tree.Tree) bool {
	for _, n := range t.Nodes() {
		if n != t.Root() && n.Nneigh() == 2 {
			return true
		}
	}
	return false
}

func pickNames(names []string, sel []int) []string {
	seen := map[string]bool{}
	var out []string
	for _, s := range sel {
		n := names[s%len(names)]
		if !seen[n] {
			seen[n] = true
			out = append(out, n)
		}
	}
	return out
}

func relabel(m *ref.Node, s *State, prefix string) {
	m.Walk(func(x, p *ref.Node) {
		if x.IsTip() {
			x.Name = s.fresh(prefix)
		} else {
			x.Name = ""
		}
	})
}

type nniRec struct{ r tree.Rearrangement }

func nnis(t *tree.Tree) []tree.Rearrangement {
	var out []tree.Rearrangement
	(&tree.NNIRearranger{}).Rearrange(t, func(r tree.Rearrangement) bool {
		out = append(out, r)
		return true
	})
	return out
}

// Apply performs one operation. It returns Applied/Failed/Skipped and, for Failed, the
// error reported by gotree.
func Apply(s *State, op Op) (int, error) {
	t := s.T
	b := func(i int) bool { return i < len(op.B) && op.B[i] }
	sel := func(i int) int {
		if i < len(op.Sel) {
			return op.Sel[i]
		}
		return 0
	}
	ntips := len(t.Tips())
	if t.Root().Nneigh() < 2 {
		return Skipped, nil
	}
	if s.Held != nil && (s.heldOn != t || !keepsHeld[op.Kind]) {
		s.Held, s.heldOn = nil, nil
	}
	switch op.Kind {
	case "nni_hold":
		// apply a rearrangement and keep the object: other edits follow before it is undone
		l := nnis(t)
		if len(l) == 0 {
			return Skipped, nil
		}
		r := l[sel(0)%len(l)]
		if err := r.Apply(); err != nil {
			return Failed, err
		}
		s.Held, s.heldOn = r, t
	case "nni_release":
		if s.Held == nil {
			return Skipped, nil
		}
		r := s.Held
		s.Held, s.heldOn = nil, nil
		if err := r.Undo(); err != nil {
			return Failed, err
		}
	case "reroot":
		in := innerNodes(t)
		if len(in) == 0 {
			return Skipped, nil
		}
		if err := t.Reroot(in[sel(0)%len(in)]); err != nil {
			return Failed, err
		}
	case "outgroup":
		names := sortedTips(t)
		out := pickNames(names, op.Sel)
		remove, strict := b(0), b(1)
		if remove && (ntips-len(out) < 3 || hasSingleChildInner(t)) {
			return Skipped, nil
		}
		if len(out) >= ntips {
			return Skipped, nil
		}
		if err := t.RerootOutGroup(remove, strict, out...); err != nil {
			return Failed, err
		}
	case "midpoint":
		// the midpoint of a tree with negative branch lengths is not defined by the property (a
		// longest path of negative length has no middle): not called
		for _, e := range t.Edges() {
			if e.Length() < 0 && e.Length() != tree.NIL_LENGTH {
				return Skipped, nil
			}
		}
		if err := t.RerootMidPoint(); err != nil {
			return Failed, err
		}
	case "unroot":
		if ntips < 3 {
			return Skipped, nil
		}
		t.UnRoot()
	case "prune":
		if hasSingleChildInner(t) {
			return Skipped, nil
		}
		names := sortedTips(t)
		rm := pickNames(names, op.Sel)
		revert := b(0)
		left := ntips - len(rm)
		if revert {
			left = len(rm)
		}
		// down to two tips: gotree refuses it for unrooted trees and delivers (a,b); for rooted
		// ones; either is fine, a "successful" result is judged like any other
		if left < 2 {
			return Skipped, nil
		}
		if revert {
			rm = append(rm, "absent_name")
		}
		if err := t.RemoveTips(revert, rm...); err != nil {
			return Failed, err
		}
	case "collapse_len":
		t.CollapseShortBranches(op.F[0], b(0), b(1))
	case "collapse_sup":
		t.CollapseLowSupport(op.F[0], b(0))
	case "collapse_depth":
		if err := t.ReinitIndexes(); err != nil {
			return Failed, err
		}
		if err := t.CollapseTopoDepth(sel(0), sel(1), b(0), b(1)); err != nil {
			return Failed, err
		}
	case "resolve":
		rand.Seed(op.Seed)
		t.Resolve()
	case "rotate":
		rand.Seed(op.Seed)
		t.RotateInternalNodes()
	case "sort":
		t.SortNeighborsByTips()
	case "rotate_node":
		in := innerNodes(t)
		rand.Seed(int64(sel(0)))
		in[sel(0)%len(in)].RotateNeighbors()
		// rotating the neighbours of a non-root node can move its parent out of slot 0;
		// that is a legal state of the adjacency lists
	case "graft":
		if err := t.UpdateTipIndex(); err != nil {
			return Failed, err
		}
		names := sortedTips(t)
		g := op.Graft.Clone()
		relabel(g, s, "g")
		gtree := gt.Build(g)
		if err := t.GraftTreeOnTip(names[sel(0)%len(names)], gtree); err != nil {
			return Failed, err
		}
	case "merge":
		if !t.Rooted() {
			// documented to fail; exercise the error path without building anything
			g := op.Graft.Clone()
			relabel(g, s, "m")
			gtree := gt.Build(g)
			t.ReinitIndexes()
			gtree.ReinitIndexes()
			if err := t.Merge(gtree); err != nil {
				return Failed, err
			}
			return Applied, nil
		}
		if err := t.ReinitIndexes(); err != nil {
			return Failed, err
		}
		g := op.Graft.Clone()
		relabel(g, s, "m")
		gtree := gt.Build(g)
		if err := gtree.ReinitIndexes(); err != nil {
			return Failed, err
		}
		if err := t.Merge(gtree); err != nil {
			return Failed, err
		}
	case "identical":
		if err := t.ReinitIndexes(); err != nil {
			return Failed, err
		}
		names := sortedTips(t)
		nnew := op.Sel[len(op.Sel)-1]
		olds := pickNames(names, op.Sel[:len(op.Sel)-1])
		var groups [][]string
		for _, o := range olds {
			g := []string{o}
			for i := 0; i < nnew; i++ {
				g = append(g, s.fresh("i"))
			}
			// the existing member is not always first
			if len(g) > 2 && nnew%2 == 0 {
				g[0], g[1] = g[1], g[0]
			}
			groups = append(groups, g)
		}
		if err := t.InsertIdenticalTips(groups); err != nil {
			return Failed, err
		}
	case "identical_one":
		if err := t.ReinitIndexes(); err != nil {
			return Failed, err
		}
		names := sortedTips(t)
		tip, err := t.TipNode(names[sel(0)%len(names)])
		if err != nil {
			return Failed, err
		}
		if _, err := t.InsertIdenticalTip(tip, s.fresh("j")); err != nil {
			return Failed, err
		}
	case "single_nodes":
		t.RemoveSingleNodes()
	case "nni", "nni_undo", "nni_double":
		l := nnis(t)
		if len(l) == 0 {
			return Skipped, nil
		}
		r := l[sel(0)%len(l)]
		if err := r.Apply(); err != nil {
			return Failed, err
		}
		if op.Kind == "nni_double" {
			if err := r.Apply(); err != nil {
				return Failed, err
			}
		}
		if op.Kind != "nni" {
			if err := r.Undo(); err != nil {
				return Failed, err
			}
		}
	case "rename":
		names := sortedTips(t)
		m := map[string]string{}
		for _, o := range pickNames(names, op.Sel) {
			m[o] = s.fresh("r")
		}
		if err := t.Rename(m); err != nil {
			return Failed, err
		}
	case "rename_swap", "setname_swap":
		// two tips exchange their names (Tree.Rename with a two-entry map, or Node.SetName twice):
		// the tip set stays, the labelled topology changes, and nothing refreshes the split indexes
		names := sortedTips(t)
		if len(names) < 2 {
			return Skipped, nil
		}
		a, b2 := names[sel(0)%len(names)], names[sel(1)%len(names)]
		if a == b2 {
			return Skipped, nil
		}
		if op.Kind == "rename_swap" {
			if err := t.Rename(map[string]string{a: b2, b2: a}); err != nil {
				return Failed, err
			}
		} else {
			for _, tip := range t.Tips() {
				switch tip.Name() {
				case a:
					tip.SetName(b2)
				case b2:
					tip.SetName(a)
				}
			}
		}
	case "setname_fresh":
		// one tip gets a name the tree did not have ("sn1x", "sn2x" ...) through Node.SetName: nothing
		// refreshes the tip index of an indexed tree
		tips := t.Tips()
		if len(tips) == 0 {
			return Skipped, nil
		}
		names := sortedTips(t)
		want := names[sel(0)%len(names)]
		for _, tip := range tips {
			if tip.Name() == want {
				tip.SetName(s.fresh("sn"))
				break
			}
		}
	case "rename_auto":
		id := 1
		internals, tips := b(0), b(1)
		// named inner nodes and tips share one name space in the map; keep them unique
		if err := t.RenameAuto(internals, tips, 8, &id, map[string]string{}); err != nil {
			return Failed, err
		}
	case "rename_regexp":
		if err := t.RenameRegexp(b(0), b(1), "^(.)", "Z$1", map[string]string{}); err != nil {
			return Failed, err
		}
	case "shuffle_tips":
		rand.Seed(op.Seed)
		t.ShuffleTips()
	case "clone":
		s.T = t.Clone()
	case "subtree":
		var in []*tree.Node
		for _, n := range t.Nodes() {
			ch := n.Nneigh()
			if n != t.Root() {
				ch--
			}
			if ch >= 2 {
				in = append(in, n)
			}
		}
		if len(in) == 0 {
			return Skipped, nil
		}
		n := in[sel(0)%len(in)]
		st := t.SubTree(n)
		if len(st.Tips()) >= 3 {
			s.T = st
		} else {
			// too small to continue on: still must be a well-formed tree
			if err := gt.Structural(st); err != nil {
				return Applied, fmt.Errorf("SubTree result malformed: %v", err)
			}
		}
	case "reinit":
		if err := t.ReinitIndexes(); err != nil {
			return Failed, err
		}
	case "clear_lengths":
		t.ClearLengths(b(0), b(1))
	case "clear_supports":
		t.ClearSupports()
	case "comments_set":
		// what the annotating commands do (acr, asr): replace the comments of every node
		for i, n := range t.Nodes() {
			n.ClearComments()
			n.AddComment("c" + strconv.Itoa(i))
		}
	case "edge_comments_set":
		// replace the comment of every branch that can show one (one comment, after a length)
		for i, e := range t.Edges() {
			e.ClearComments()
			if e.Length() != tree.NIL_LENGTH {
				e.AddComment("b" + strconv.Itoa(i))
			}
		}
	case "comments_clear":
		t.ClearComments()
	case "comments_add":
		nodes := t.Nodes()
		nodes[sel(0)%len(nodes)].AddComment("z" + strconv.Itoa(sel(0)))
		// Newick text can show one comment per branch, and only after a length
		if edges := t.Edges(); len(edges) > 0 {
			if e := edges[sel(0)%len(edges)]; len(e.Comments()) == 0 && e.Length() != tree.NIL_LENGTH {
				e.AddComment("e" + strconv.Itoa(sel(0)))
			}
		}
	case "resolve_named":
		// turns named inner nodes into tips of the same name: tip names would repeat when an
		// inner node carries the name of a tip, which later steps are not required to cope with
		names := map[string]int{}
		for _, n := range t.Nodes() {
			if n.Name() != "" {
				names[n.Name()]++
			}
		}
		for _, k := range names {
			if k > 1 {
				return Skipped, nil
			}
		}
		if hasSingleChildInner(t) {
			return Skipped, nil
		}
		t.ResolveNamedInternalNodes()
		// the inner nodes keep their names: clear them so that names stay unique
		for _, n := range t.Nodes() {
			if n.Nneigh() > 1 {
				n.SetName("")
			}
		}
		if err := t.UpdateTipIndex(); err != nil {
			return Failed, err
		}
	case "graft_tip_on_edge":
		edges := t.Edges()
		if len(edges) == 0 {
			return Skipped, nil
		}
		e := edges[sel(0)%len(edges)]
		n := t.NewNode()
		n.SetName(s.fresh("gt"))
		if _, _, _, err := t.GraftTipOnEdge(n, e); err != nil {
			return Failed, err
		}
		if err := t.UpdateTipIndex(); err != nil {
			return Failed, err
		}
	case "reroot_first":
		if err := t.RerootFirst(); err != nil {
			return Failed, err
		}
	case "scale_lengths":
		t.ScaleLengths(2, true, true)
	case "round_supports":
		t.RoundSupports(1)
	case "scale_supports":
		// percentages to fractions or back (a power of two close to it, so that values stay exact)
		f := 0.0078125
		if op.Seed%2 == 1 {
			f = 128
		}
		t.ScaleSupports(f)
	default:
		return Skipped, fmt.Errorf("unknown op %q", op.Kind)
	}
	return Applied, nil
}

// NamePreserving lists the operations that keep the tip set: a history drawn from them can
// precede any check whose case names tips of the start tree.
var NamePreserving = []string{"reroot", "midpoint", "unroot", "collapse_len", "collapse_sup", "collapse_depth", "resolve", "rotate", "sort",
	"rotate_node", "nni", "nni_undo", "nni_double", "shuffle_tips", "clone", "reinit", "clear_supports", "scale_lengths", "round_supports",
	"reroot_first", "comments_set", "comments_clear"}

// WithTipEdits: the name-preserving operations plus edits that change which node carries which
// name, or give a tip a name the tree did not have, without refreshing the tip index of an
// indexed tree (two tips exchange their names through Rename or SetName, one tip is renamed "sn1x",
// "sn2x" ... through SetName). GraftTipOnEdge is left out: on a branch without length it halves
// the -1 that stands for "absent" and leaves lengths of -0.5 behind, which no check can judge.
var WithTipEdits = append(append([]string{}, NamePreserving...), "rename_swap", "setname_swap", "setname_fresh", "setname_fresh")

// GenHistory draws 1..max name-preserving operations.
func GenHistory(t *rapid.T, max int) []Op {
	return rapid.SliceOfN(rapid.Custom(func(t *rapid.T) Op { return GenOp(t, NamePreserving) }), 1, max).Draw(t, "history")
}

// LastApplied is the kind of the last operation of the most recent Replay that was actually called
// ("failed:<kind>" when it reported an error and the tree was read again from its text).
var LastApplied string

// Replay applies a history to a tree (a step that fails restarts from the text before it, as a
// caller that checks errors would) and returns the edited tree together with the model read back
// from it through the traversal API. ok is false when the result is no longer a tree a check
// can start from (fewer than 3 tips, a root with fewer than 2 children, duplicate names).
func Replay(t *tree.Tree, hist []Op) (out *tree.Tree, model *ref.Node, ok bool, err error) {
	st := State{T: t}
	LastApplied = ""
	for _, op := range hist {
		before := st.T.Newick()
		status, _ := Apply(&st, op)
		if status == Failed {
			if st.T, err = gt.Parse(before); err != nil {
				return nil, nil, false, err
			}
		}
		if status != Skipped {
			LastApplied = op.Kind
			if status == Failed {
				LastApplied = "failed:" + op.Kind
			}
		}
	}
	m, err := gt.Read(st.T)
	if err != nil {
		return nil, nil, false, nil
	}
	if len(m.Tips()) < 3 || len(m.Ch) < 2 {
		return nil, nil, false, nil
	}
	if _, terr := ref.NewTaxa(m.Tips()); terr != nil {
		return nil, nil, false, nil
	}
	single := false
	m.Walk(func(x, p *ref.Node) {
		if p != nil && !x.IsTip() && len(x.Ch) == 1 {
			single = true
		}
	})
	if single {
		return nil, nil, false, nil
	}
	return st.T, m, true, nil
}

// SameTaxa lists operations that keep the tip set and leave an unrooted tree unrooted: histories
// drawn from them can precede a comparison with other trees on the same taxa. Several of them
// change the labelled topology without refreshing the split indexes (rename_swap, setname_swap,
// shuffle_tips, nni).
var SameTaxa = []string{"reroot", "rotate", "sort", "rotate_node", "nni", "nni_undo", "nni_double", "shuffle_tips", "rename_swap", "setname_swap",
	"clone", "reinit", "collapse_len", "resolve", "reroot_first", "scale_lengths", "unroot"}

// GenHistoryOf draws 1..max operations of the given kinds.
func GenHistoryOf(t *rapid.T, kinds []string, max int) []Op {
	return rapid.SliceOfN(rapid.Custom(func(t *rapid.T) Op { return GenOp(t, kinds) }), 1, max).Draw(t, "history")
}

// Edited parses the model, indexes the tree (a tree that was used before), applies the history
// and returns the edited tree with the model read back from it. ok is false when the result is
// not usable (see Replay) or, with unrooted set, has a root of degree 2.
func Edited(m *ref.Node, hist []Op, unrooted bool) (*tree.Tree, *ref.Node, bool, error) {
	t, err := gt.FromModel(m)
	if err != nil {
		return nil, nil, false, err
	}
	if err := t.ReinitIndexes(); err != nil {
		return nil, nil, false, err
	}
	t2, m2, ok, err := Replay(t, hist)
	if err != nil || !ok {
		return nil, nil, false, err
	}
	if unrooted && len(m2.Ch) < 3 {
		return nil, nil, false, nil
	}
	return t2, m2, true, nil
}
