// Package gen holds the rapid generators shared by the checks. Every random choice is a
// rapid draw, so that shrinking and replay work; generators build cases by construction.
package gen

import (
	"fmt"
	"math"
	"strconv"
	"strings"
	"unicode"
	"unicode/utf8"

	"pgregory.net/rapid"

	"verif/internal/ref"
)

// Presence classes for decorations.
const (
	None = iota
	All
	Mixed
	AnyPresence // draw one of the three
)

// Value classes for lengths.
const (
	Dyadic    = iota // k/2^m, partial sums exact
	DyadicZ          // dyadic with many zeros and ties
	Arbitrary        // arbitrary non-negative finite
	Wild             // any finite float64 except -1 (negative, -0, subnormal, huge)
	AnyValue         // draw Dyadic, DyadicZ or Arbitrary
)

type Opts struct {
	MinTips, MaxTips int
	BigTips          int  // if > MaxTips, 5% of the cases go up to BigTips
	Rooted           int  // -1 either, 0 unrooted (root degree >= 3), 1 rooted (root degree 2)
	MaxDeg           int  // max number of children of an inner node (2 = binary); 0 -> 6
	Lens             int  // presence class
	LenVals          int  // value class
	Sups             int  // presence class (unnamed inner non-root nodes only)
	Pvals            bool // p-values next to some supports
	InnerNames       int  // presence class
	Comments         bool // node / root / branch comments
	SingleChild      bool // allow inner non-root nodes with one child
	Hostile          bool // C01 style labels
	NamePrefix       string
	Wide             bool // one case in eight (instead of one in thirty) has a wide multifurcation (9..75 children)
	NoOver64         bool // never draw the 65..130-tip class (checks whose cost is quadratic per tip and that do not touch bitsets)
	OneLine          bool // comments without line breaks (the multi-tree reader ends a record at a ';' that ends a line, inside a comment too: C01 keeps such texts away from the commands)
}

func pick(t *rapid.T, class int, label string) int {
	if class == AnyPresence {
		return rapid.IntRange(None, Mixed).Draw(t, label)
	}
	return class
}

func present(t *rapid.T, class int, label string) bool {
	switch class {
	case None:
		return false
	case All:
		return true
	}
	return rapid.Bool().Draw(t, label)
}

// Length draws one length of the given value class.
func Length(t *rapid.T, class int) float64 {
	switch class {
	case Dyadic:
		k := rapid.IntRange(0, 4096).Draw(t, "lk")
		m := rapid.IntRange(0, 6).Draw(t, "lm")
		return float64(k) / float64(int(1)<<uint(m))
	case DyadicZ:
		return rapid.SampledFrom([]float64{0, 0, 0.25, 0.5, 0.5, 1, 1, 2, 0.125}).Draw(t, "lz")
	case Arbitrary:
		switch rapid.IntRange(0, 5).Draw(t, "lc") {
		case 0:
			return 0
		case 1:
			return float64(rapid.IntRange(1, 999).Draw(t, "l3")) / 1000
		default:
			return rapid.Float64Range(0, 100).Draw(t, "lf")
		}
	case Wild:
		for {
			var v float64
			switch rapid.IntRange(0, 7).Draw(t, "lc") {
			case 0:
				v = 0
			case 1:
				v = math.Copysign(0, -1)
			case 2:
				v = rapid.SampledFrom([]float64{5e-324, 2.2250738585072014e-308, 1e-320, 1.7976931348623157e308, 1e22, 1e21, 123456789012345678, 1e-7}).Draw(t, "lx")
			case 3:
				v = -rapid.Float64Range(0, 1e6).Draw(t, "ln")
			case 4:
				v = float64(rapid.IntRange(-5, 100).Draw(t, "li"))
			default:
				v = rapid.Float64().Draw(t, "lf")
			}
			if v == -1 || math.IsNaN(v) || math.IsInf(v, 0) {
				continue
			}
			return v
		}
	}
	panic("bad length class")
}

// Support draws a support value: frequently one of a few tied values.
func Support(t *rapid.T, wild bool) float64 {
	if wild {
		return Length(t, Wild)
	}
	switch rapid.IntRange(0, 3).Draw(t, "sc") {
	case 0:
		return rapid.SampledFrom([]float64{0, 0.5, 0.75, 1, 0.25, 100, 50}).Draw(t, "sv")
	case 1:
		return float64(rapid.IntRange(0, 20).Draw(t, "s20")) / 20
	case 2:
		return float64(rapid.IntRange(0, 100).Draw(t, "s100"))
	}
	return float64(rapid.IntRange(0, 64).Draw(t, "s64")) / 64
}

var simplePool = func() []string {
	var p []string
	for c := 'a'; c <= 'z'; c++ {
		p = append(p, string(c))
	}
	for c := 'A'; c <= 'Z'; c++ {
		p = append(p, string(c))
	}
	return p
}()

// SimpleNames returns n unique simple names in drawn order. The sorted order of the
// names is unrelated to their position in the tree.
func SimpleNames(t *rapid.T, n int, prefix string) []string {
	base := make([]string, n)
	for i := 0; i < n; i++ {
		if n <= len(simplePool) && prefix == "" {
			base[i] = simplePool[i]
		} else {
			base[i] = prefix + "t" + strconv.Itoa(i)
		}
	}
	// one name list in twelve is made of labels that look like numbers, several of them equal as
	// numbers and different as text ("1", "01", "1.0", "1e0", "10", "2" ...): legal tip names that
	// "natural" or numeric orderings tie or reorder
	if n <= len(numericNames) && prefix == "" && rapid.IntRange(0, 11).Draw(t, "numericnames") == 7 {
		base = append(base[:0], numericNames[:n]...)
	}
	// one name list in ten carries '%' followed by a letter that fmt reads as a verb (sample
	// names such as "s_10%", annotations such as height_95%_HPD are common): text that is
	// printed through a format string shows it
	if rapid.IntRange(0, 9).Draw(t, "percent") == 6 {
		verbs := []string{"%d", "%s", "%v", "%", "%%", "%_"}
		for i := range base {
			base[i] += verbs[i%len(verbs)]
		}
	}
	// one name list in twelve has labels written between quotes, some with a blank inside, next to
	// plain ones ('Homo sapiens' as FigTree or BEAST write it): the quotes are part of the name
	if rapid.IntRange(0, 11).Draw(t, "quoted") == 5 {
		for i := range base {
			switch i % 3 {
			case 0:
				base[i] = "'" + base[i] + " sp'"
			case 1:
				base[i] = "'" + base[i] + "'"
			}
		}
	}
	if n <= 1 {
		return base
	}
	return rapid.Permutation(base).Draw(t, "names")
}

var hostileAtoms = []string{
	"inf", "Inf", "NaN", "nan", "0x1p-2", "1e5", "1/2", "a/1", "1/a", "0.5", "1", "-1", "+1", "1_000", "0x10",
	"'a b'", "\"q\"", "a b", "a\tb", "x'y", "é", "日本", "a/b/c", "1e", "e1", ".", "-", "+", "_", "E", "Infinity",
	"#", "=", "<", "&amp;", "%", "\\", "{", "}", "|", "a=b", " x ", " ", "1/2/3", "0/0",
}

func validLabel(s string, inner bool) bool {
	if s == "" || !utf8.ValidString(s) {
		return false
	}
	if strings.ContainsAny(s, "()[],:;\x00") {
		return false
	}
	r0, _ := utf8.DecodeRuneInString(s)
	r1, _ := utf8.DecodeLastRuneInString(s)
	if unicode.IsSpace(r0) || unicode.IsSpace(r1) || r0 == utf8.RuneError || r1 == utf8.RuneError {
		return false
	}
	if strings.ContainsRune(s, utf8.RuneError) {
		return false
	}
	if inner {
		if _, err := strconv.ParseFloat(s, 64); err == nil {
			return false
		}
		if p := strings.Split(s, "/"); len(p) == 2 {
			_, e1 := strconv.ParseFloat(p[0], 64)
			_, e2 := strconv.ParseFloat(p[1], 64)
			if e1 == nil && e2 == nil {
				return false
			}
		}
	}
	return true
}

// HostileLabel draws a label from the C01 domain: non-empty valid UTF-8 without NUL and
// Newick metacharacters, no surrounding blanks; inner labels additionally not numeric.
func HostileLabel(t *rapid.T, inner bool) string {
	g := rapid.Custom(func(t *rapid.T) string {
		switch rapid.IntRange(0, 3).Draw(t, "k") {
		case 0:
			return rapid.SampledFrom(hostileAtoms).Draw(t, "atom")
		case 1:
			return rapid.StringMatching(`[a-zA-Z0-9_.+\-/ e']{1,8}`).Draw(t, "re")
		case 2:
			a := rapid.SampledFrom(hostileAtoms).Draw(t, "a1")
			b := rapid.SampledFrom(hostileAtoms).Draw(t, "a2")
			return a + b
		}
		return rapid.StringN(1, 6, 24).Draw(t, "any")
	}).Filter(func(s string) bool { return validLabel(s, inner) })
	return g.Draw(t, "label")
}

func comment(t *rapid.T) string {
	switch rapid.IntRange(0, 3).Draw(t, "ck") {
	case 0:
		return rapid.SampledFrom([]string{"", "&date=\"2001.5\"", "&!color=#ff0000", "a b", "x[y", "(", ",", ":", ";", ";;", " lead", "trail ", "1.5", "a:1,b;c", "\t", "&mut={A,B}", "&height_95%_HPD={1.5,2}", "100%s"}).Draw(t, "catom")
	case 1:
		return rapid.StringMatching(`[a-z0-9 ,;:()\[=&"]{0,10}`).Draw(t, "cre")
	}
	s := rapid.StringN(0, 6, 24).Draw(t, "cany")
	s = strings.Map(func(r rune) rune {
		if r == ']' || r == 0 || r == utf8.RuneError {
			return 'x'
		}
		return r
	}, s)
	return s
}

// Tree draws a well-formed model tree.
func Tree(t *rapid.T, o Opts) *ref.Node {
	maxTips := o.MaxTips
	if o.BigTips > maxTips && rapid.IntRange(0, 19).Draw(t, "big") == 0 {
		maxTips = o.BigTips
	}
	n := rapid.IntRange(o.MinTips, maxTips).Draw(t, "ntips")
	// one case in a hundred crosses the 64-tip boundary (second word of the split bitsets) in
	// every tier, for every check that allows large trees
	if o.BigTips >= 24 && !o.NoOver64 && rapid.IntRange(0, 99).Draw(t, "over64") == 0 {
		n = rapid.IntRange(65, 130).Draw(t, "ntips64")
		if rapid.Bool().Draw(t, "wordedge") {
			// exactly at the word boundaries of the bitsets
			n = rapid.SampledFrom([]int{64, 65, 66, 127, 128, 129}).Draw(t, "ntipsedge")
		}
	}
	maxDeg := o.MaxDeg
	if maxDeg == 0 {
		maxDeg = 6
	}
	// one case in sixty has one wide multifurcation (9..75 children, tips and inner nodes mixed,
	// possibly the root) in every tier, for every check that allows large trees and multifurcations
	wideK, wideAt := 0, 0
	if o.BigTips >= 24 && maxDeg > 2 && wideDraw(rapid.IntRange(0, 59).Draw(t, "wide"), o.Wide) {
		hi := 80
		if o.NoOver64 {
			hi = 60
		}
		n = rapid.IntRange(12, hi).Draw(t, "ntipswide")
		wideK = rapid.IntRange(9, n-3).Draw(t, "widek")
		wideAt = rapid.IntRange(0, 6).Draw(t, "wideat")
	}
	if maxDeg > 2 && wideK == 0 && rapid.IntRange(0, 3).Draw(t, "binary") == 0 {
		maxDeg = 2
	}
	rootDeg := 0
	switch o.Rooted {
	case 1:
		rootDeg = 2
	case 0:
		rootDeg = rapid.IntRange(3, 5).Draw(t, "rootdeg")
		if maxDeg == 2 {
			rootDeg = 3
		}
	default:
		if rapid.Bool().Draw(t, "rooted") {
			rootDeg = 2
		} else {
			rootDeg = rapid.IntRange(3, 5).Draw(t, "rootdeg")
			if maxDeg == 2 {
				rootDeg = 3
			}
		}
	}
	if wideK > 0 && rootDeg > 2 && rapid.IntRange(0, 3).Draw(t, "wideroot") == 0 {
		rootDeg, wideK = wideK, 0
	}
	// one unrooted case in thirty is a star: every tip hangs on the root, there is no inner branch
	// (for the checks that allow multifurcations and large trees, like the wide class)
	if o.BigTips >= 24 && maxDeg > 2 && rootDeg > 2 && wideK == 0 && rapid.IntRange(0, 29).Draw(t, "star") == 11 {
		rootDeg = n
	}
	if rootDeg > n {
		rootDeg = n
	}
	var names []string
	if o.Hostile {
		names = make([]string, n)
		for i := range names {
			names[i] = HostileLabel(t, false)
		}
	} else {
		names = SimpleNames(t, n, o.NamePrefix)
	}
	nodes := make([]*ref.Node, n)
	for i := range nodes {
		nodes[i] = &ref.Node{Name: names[i]}
	}
	for iter := 0; len(nodes) > rootDeg; iter++ {
		avail := len(nodes) - rootDeg + 1
		kmax := avail
		if kmax > maxDeg {
			kmax = maxDeg
		}
		k := 2
		if kmax > 2 {
			k = rapid.IntRange(2, kmax).Draw(t, "k")
		}
		if wideK > 0 && (iter == wideAt || avail <= wideK) {
			k, wideK = wideK, 0
			if k > avail {
				k = avail
			}
		}
		p := &ref.Node{}
		for j := 0; j < k; j++ {
			i := rapid.IntRange(0, len(nodes)-1).Draw(t, "pick")
			p.Ch = append(p.Ch, nodes[i])
			nodes = append(nodes[:i], nodes[i+1:]...)
		}
		pos := rapid.IntRange(0, len(nodes)).Draw(t, "pos")
		nodes = append(nodes, nil)
		copy(nodes[pos+1:], nodes[pos:])
		nodes[pos] = p
	}
	root := &ref.Node{Ch: nodes}
	if o.SingleChild && rapid.IntRange(0, 2).Draw(t, "single") == 0 {
		// insert 1..3 single-child inner nodes above random non-root nodes
		k := rapid.IntRange(1, 3).Draw(t, "nsingle")
		for j := 0; j < k; j++ {
			all := root.All()
			par := root.Parents()
			x := all[rapid.IntRange(1, len(all)-1).Draw(t, "singleat")]
			p := par[x]
			s := &ref.Node{Ch: []*ref.Node{x}}
			for i, c := range p.Ch {
				if c == x {
					p.Ch[i] = s
				}
			}
		}
	}
	Decorate(t, root, o)
	return root
}

// Decorate draws the decorations of an undecorated shape.
func Decorate(t *rapid.T, root *ref.Node, o Opts) {
	lens := pick(t, o.Lens, "lens")
	sups := pick(t, o.Sups, "sups")
	inames := pick(t, o.InnerNames, "inames")
	lv := o.LenVals
	if lv == AnyValue {
		lv = rapid.IntRange(Dyadic, Arbitrary).Draw(t, "lenvals")
	}
	// one tree in eight with dyadic lengths has them all scaled by 2^-40 (lengths of 1e-12 .. 1e-8, as
	// between nearly identical sequences): sums stay exact, fixed numbers of decimals do not
	scale := 1.0
	if (lv == Dyadic || lv == DyadicZ) && lens != None && rapid.IntRange(0, 7).Draw(t, "tinylens") == 3 {
		scale = math.Ldexp(1, -40)
	}
	innerID := 0
	root.Walk(func(x, p *ref.Node) {
		if p != nil && present(t, lens, "haslen") {
			x.Len = ref.F(Length(t, lv) * scale)
		}
		if !x.IsTip() {
			named := present(t, inames, "hasname")
			if named {
				if o.Hostile {
					x.Name = HostileLabel(t, true)
				} else {
					innerID++
					x.Name = o.NamePrefix + "N" + strconv.Itoa(innerID)
				}
			} else if p != nil && present(t, sups, "hassup") {
				x.Sup = ref.F(Support(t, o.Hostile))
				if o.Pvals && rapid.IntRange(0, 2).Draw(t, "haspv") == 0 {
					x.Pv = ref.F(Support(t, o.Hostile))
				}
			}
		}
		if o.Comments {
			if rapid.IntRange(0, 3).Draw(t, "hascom") == 0 {
				k := rapid.IntRange(1, 3).Draw(t, "ncom")
				for i := 0; i < k; i++ {
					x.Com = append(x.Com, oneLine(comment(t), o.OneLine))
				}
			}
			if p != nil && x.Len != nil && rapid.IntRange(0, 3).Draw(t, "hasbcom") == 0 {
				x.BCom = []string{oneLine(comment(t), o.OneLine)}
			}
		}
	})
}

// grid of a set of trees: 0 = only zeros / no length, 1 = every length is a multiple of 2^-10 of
// magnitude at most 2^20, 2 = every length is a multiple of 2^-50 of magnitude at most 2^-20 (the
// lengths scaled by 2^-40), -1 = anything else, or lengths of both grids.
func grid(ms []*ref.Node) int {
	g := 0
	for _, root := range ms {
		root.Walk(func(x, p *ref.Node) {
			if x.Len == nil || *x.Len == 0 || g < 0 {
				return
			}
			k := -1
			if v := *x.Len * 1024; v == math.Trunc(v) && math.Abs(v) <= 1<<30 {
				k = 1
			} else if v := math.Ldexp(*x.Len, 50); v == math.Trunc(v) && math.Abs(v) <= 1<<30 {
				k = 2
			}
			if k < 0 || (g > 0 && g != k) {
				g = -1
				return
			}
			g = k
		})
	}
	return g
}

// IsDyadicExact tells whether every sum of present lengths of the tree is exact in float64
// whatever the order of the additions: all lengths lie on one grid of dyadic numbers.
func IsDyadicExact(root *ref.Node) bool { return grid([]*ref.Node{root}) >= 0 }

// AllDyadicExact is IsDyadicExact for sums that run over several trees (means, differences).
func AllDyadicExact(ms []*ref.Node) bool { return grid(ms) >= 0 }

// ---------------------------------------------------------------------------------------
// Model perturbations producing related trees on the same taxa

// Perturb applies k random topology/presentation changes to a copy of base.
// Kinds: nni, contract, refine, shuffle, jitter, swap (two tip names).
func Perturb(t *rapid.T, base *ref.Node, k int, allowMulti bool, jitterVals int) *ref.Node {
	r := base.Clone()
	for i := 0; i < k; i++ {
		kinds := []string{"nni", "nni", "shuffle", "jitter", "swap"}
		if allowMulti {
			kinds = append(kinds, "contract", "refine")
		}
		switch rapid.SampledFrom(kinds).Draw(t, "pert") {
		case "nni":
			NNI(t, r)
		case "contract":
			Contract(t, r)
		case "refine":
			Refine(t, r, jitterVals)
		case "shuffle":
			Shuffle(t, r)
		case "jitter":
			r.Walk(func(x, p *ref.Node) {
				if p != nil && x.Len != nil && rapid.IntRange(0, 2).Draw(t, "j") == 0 {
					x.Len = ref.F(Length(t, jitterVals))
				}
			})
		case "swap":
			tips := r.TipNodes()
			a := rapid.IntRange(0, len(tips)-1).Draw(t, "sa")
			b := rapid.IntRange(0, len(tips)-1).Draw(t, "sb")
			tips[a].Name, tips[b].Name = tips[b].Name, tips[a].Name
		}
	}
	return r
}

// NNI swaps a child of an inner non-root node with a sibling of that node.
func NNI(t *rapid.T, root *ref.Node) bool {
	par := root.Parents()
	var cand []*ref.Node
	for _, x := range root.Inner() {
		if p := par[x]; p != nil && len(p.Ch) >= 2 && len(x.Ch) >= 1 {
			cand = append(cand, x)
		}
	}
	if len(cand) == 0 {
		return false
	}
	x := cand[rapid.IntRange(0, len(cand)-1).Draw(t, "nnix")]
	p := par[x]
	ci := rapid.IntRange(0, len(x.Ch)-1).Draw(t, "nnic")
	var sibs []int
	for i, s := range p.Ch {
		if s != x {
			sibs = append(sibs, i)
		}
	}
	si := sibs[rapid.IntRange(0, len(sibs)-1).Draw(t, "nnis")]
	x.Ch[ci], p.Ch[si] = p.Ch[si], x.Ch[ci]
	return true
}

// Contract removes one inner non-root branch (its children move to the parent).
func Contract(t *rapid.T, root *ref.Node) bool {
	par := root.Parents()
	var cand []*ref.Node
	for _, x := range root.Inner() {
		if par[x] != nil {
			cand = append(cand, x)
		}
	}
	if len(cand) == 0 {
		return false
	}
	x := cand[rapid.IntRange(0, len(cand)-1).Draw(t, "cx")]
	ContractNode(root, x)
	return true
}

func ContractNode(root, x *ref.Node) {
	p := root.Parents()[x]
	var ch []*ref.Node
	for _, c := range p.Ch {
		if c == x {
			ch = append(ch, x.Ch...)
		} else {
			ch = append(ch, c)
		}
	}
	p.Ch = ch
}

// Refine groups 2..k-1 children of a node with k >= 3 children (k >= 4 for the root, so
// that the new branch is a non-trivial, new split of the unrooted tree) under a new node.
func Refine(t *rapid.T, root *ref.Node, lenVals int) bool {
	par := root.Parents()
	var cand []*ref.Node
	for _, x := range root.Inner() {
		min := 3
		if par[x] == nil {
			min = 4
		}
		if len(x.Ch) >= min {
			cand = append(cand, x)
		}
	}
	if len(cand) == 0 {
		return false
	}
	x := cand[rapid.IntRange(0, len(cand)-1).Draw(t, "rx")]
	max := len(x.Ch) - 1
	if par[x] == nil {
		max = len(x.Ch) - 2
	}
	k := rapid.IntRange(2, max).Draw(t, "rk")
	nn := &ref.Node{}
	for j := 0; j < k; j++ {
		i := rapid.IntRange(0, len(x.Ch)-1).Draw(t, "ri")
		nn.Ch = append(nn.Ch, x.Ch[i])
		x.Ch = append(x.Ch[:i], x.Ch[i+1:]...)
	}
	if lenVals >= 0 {
		nn.Len = ref.F(Length(t, lenVals))
	}
	x.Ch = append(x.Ch, nn)
	return true
}

// Shuffle permutes the children of every inner node.
func Shuffle(t *rapid.T, root *ref.Node) {
	for _, x := range root.Inner() {
		if len(x.Ch) > 1 {
			x.Ch = rapid.Permutation(x.Ch).Draw(t, "perm")
		}
	}
}

// Represent returns another presentation of the same unrooted tree: re-rooted at a drawn
// inner node of degree >= 3 (degree-two leftovers suppressed) with shuffled children.
func Represent(t *rapid.T, root *ref.Node) *ref.Node {
	par := root.Parents()
	var cand []*ref.Node
	for _, x := range root.Inner() {
		d := len(x.Ch)
		if par[x] != nil {
			d++
		}
		if d >= 3 {
			cand = append(cand, x)
		}
	}
	r := root
	if len(cand) > 0 {
		at := cand[rapid.IntRange(0, len(cand)-1).Draw(t, "reat")]
		r = ref.SuppressDegree2(ref.RerootAt(root, at))
	} else {
		r = root.Clone()
	}
	Shuffle(t, r)
	return r
}

// Subset draws a subset of names with between min and max members.
func Subset(t *rapid.T, names []string, min, max int, label string) []string {
	if max > len(names) {
		max = len(names)
	}
	if min > max {
		min = max
	}
	k := rapid.IntRange(min, max).Draw(t, label+"k")
	perm := rapid.Permutation(names).Draw(t, label)
	return append([]string(nil), perm[:k]...)
}

func Describe(root *ref.Node) string {
	return fmt.Sprintf("%s", ref.Write(root))
}

// wideDraw selects interior values: rapid draws the bounds of a range far more often than
// 1/size, so "== 0" would select one case in ten.
var numericNames = []string{"1", "01", "2", "10", "1.0", "02", "1e0", "001", "3", "0", "00", "10.0", "0x1", "1_", "+1", "-0", "20", "11", "011", "1.", "9", "09", "100", "0100"}

func wideDraw(v int, often bool) bool {
	return v == 29 || v == 37 || v == 11 || v == 47 || (often && v%8 == 3)
}

// RootOnBranch returns m in a rooted presentation: a root of degree two is put in the middle of a
// drawn branch (its length cut into two halves), the former root is suppressed if it is left with
// two neighbours. The unrooted tree is the same.
func RootOnBranch(t *rapid.T, m *ref.Node) *ref.Node {
	c := m.Clone()
	all := c.All()
	if len(all) < 2 {
		return c
	}
	x := all[rapid.IntRange(1, len(all)-1).Draw(t, "rootbranch")]
	p := c.Parents()[x]
	mid := &ref.Node{Ch: []*ref.Node{x}}
	if x.Len != nil {
		half := *x.Len / 2
		mid.Len = ref.F(half)
		x.Len = ref.F(half)
	}
	for i, ch := range p.Ch {
		if ch == x {
			p.Ch[i] = mid
		}
	}
	r := ref.RerootAt(c, mid)
	var fix func(n *ref.Node)
	fix = func(n *ref.Node) {
		for i, c := range n.Ch {
			for !c.IsTip() && len(c.Ch) == 1 {
				g := c.Ch[0]
				if c.Len != nil || g.Len != nil {
					s := 0.0
					if c.Len != nil {
						s += *c.Len
					}
					if g.Len != nil {
						s += *g.Len
					}
					g.Len = ref.F(s)
				}
				c = g
				n.Ch[i] = g
			}
			fix(c)
		}
	}
	fix(r)
	return r
}

// oneLine replaces line breaks of every kind in a comment when asked to.
func oneLine(c string, on bool) string {
	if !on {
		return c
	}
	return strings.Map(func(r rune) rune {
		switch r {
		case '\n', '\r', '\v', '\f', 0x85, 0x2028, 0x2029:
			return '_'
		}
		return r
	}, c)
}
