// Package h is the check harness: it wires a generator and a check(case) predicate to
// rapid, keeps per-run statistics, journals the in-flight case, applies the watchdog,
// handles known findings, writes replay files and replays them.
package h

import (
	"encoding/json"
	"flag"
	"fmt"
	"hash/fnv"
	"io"
	"log"
	"os"
	"path/filepath"
	"runtime/debug"
	"sort"
	"strconv"
	"strings"
	"sync"
	"sync/atomic"
	"syscall"
	"testing"
	"time"

	"pgregory.net/rapid"
)

// Spec describes one generated check of a property.
type Spec[C any] struct {
	Property string // "C07"
	Name     string // unique check name inside the property, e.g. "collapse"
	Quick    int    // total number of generated cases in the quick tier (all shards)
	Thorough int    // idem, thorough tier
	Gen      func(t *rapid.T, thorough bool) C
	Check    func(c C) error
	// Classify reports whether the case is non-trivial by the property's stated rule and
	// the labels it belongs to (for the distribution report). May be nil.
	Classify func(c C) (nontrivial bool, labels []string)
	// Known maps a case to the id of a known finding whose trigger it satisfies ("" if
	// none). A failure of such a case whose message contains the finding's signature is
	// counted as excluded instead of reported, as long as the finding is listed as
	// "known" in known_findings.json and its witness still fails.
	Known func(c C) string
	// Skip is like Known but the case is not evaluated at all (for findings that kill
	// the process). Only honoured while the finding is active.
	Skip    func(c C) string
	Anchors []C           // constructed cases run before generation starts
	Timeout time.Duration // per-case watchdog (default 20s)
	Rule    string        // generation + non-triviality rule, copied into the evidence
}

type fail struct {
	Property string          `json:"property"`
	Test     string          `json:"test"`
	Check    string          `json:"check"`
	Case     json.RawMessage `json:"case"`
	Failure  string          `json:"failure"`
	Seed     int64           `json:"verif_seed"`
	Tier     string          `json:"tier"`
	Shard    int             `json:"shard"`
}

type checkStats struct {
	Property     string            `json:"property"`
	Check        string            `json:"check"`
	Rule         string            `json:"rule"`
	Requested    int               `json:"requested"`
	Evaluations  int               `json:"evaluations"`
	Anchors      int               `json:"anchors"`
	NonTrivial   int               `json:"nontrivial_evaluations"`
	Hashes       []uint64          `json:"nontrivial_hashes"`
	Labels       map[string]int    `json:"labels"`
	Excluded     map[string]int    `json:"excluded"`
	First        []json.RawMessage `json:"first_samples"`
	Samples      []sample          `json:"samples"`
	Failures     int               `json:"failures"`
	Exhaustive   bool              `json:"exhaustive,omitempty"`
	Extra        map[string]any    `json:"extra,omitempty"`
	hashSet      map[uint64]struct{}
	ShrinkPhase  bool            `json:"-"`
	KnownPrinted map[string]bool `json:"-"`
}

type sample struct {
	H uint64          `json:"h"`
	C json.RawMessage `json:"c"`
}

var (
	mu       sync.Mutex
	allStats = map[string]*checkStats{}
	outDir   = os.Getenv("VERIF_OUT")
	tier     = envOr("VERIF_TIER", "quick")
	seed     = envInt("VERIF_SEED", 1)
	shard    = int(envInt("VERIF_SHARD", 0))
	nshards  = int(envInt("VERIF_NSHARDS", 1))
	scale    = envFloat("VERIF_SCALE", 1)
	replay   = os.Getenv("VERIF_REPLAY")
	journalF *os.File
	findings []Finding
	Stdout   = os.Stdout
)

func envOr(k, d string) string {
	if v := os.Getenv(k); v != "" {
		return v
	}
	return d
}
func envInt(k string, d int64) int64 {
	if v, err := strconv.ParseInt(os.Getenv(k), 10, 64); err == nil {
		return v
	}
	return d
}
func envFloat(k string, d float64) float64 {
	if v, err := strconv.ParseFloat(os.Getenv(k), 64); err == nil {
		return v
	}
	return d
}

func Thorough() bool { return tier == "thorough" }
func Seed() int64    { return seed }
func Shard() int     { return shard }
func NShards() int   { return nshards }
func OutDir() string { return outDir }

// Finding is one entry of /verif/known_findings.json.
type Finding struct {
	ID        string          `json:"id"`
	Property  string          `json:"property"`
	Status    string          `json:"status"` // known | fixed
	Commit    string          `json:"commit,omitempty"`
	Check     string          `json:"check"`
	Title     string          `json:"title"`
	Trigger   string          `json:"trigger,omitempty"`
	Signature string          `json:"signature,omitempty"`
	Witness   json.RawMessage `json:"witness,omitempty"`
	Desc      string          `json:"description,omitempty"`
}

func findingsPath() string {
	if p := os.Getenv("VERIF_FINDINGS"); p != "" {
		return p
	}
	return "/verif/known_findings.json"
}

// Main is called from TestMain of every check package.
func Main(m *testing.M) {
	flag.Parse()
	// gotree warns on stderr and through the log package; the checks only look at
	// return values. Keep the original stderr for the Go runtime (panics still show).
	coordinator := false
	if f := flag.Lookup("test.fuzz"); f != nil && f.Value.String() != "" {
		if w := flag.Lookup("test.fuzzworker"); w == nil || w.Value.String() != "true" {
			coordinator = true // the fuzz coordinator reports progress on stderr and runs no gotree code
		}
	}
	if os.Getenv("VERIF_KEEP_STDERR") == "" && !coordinator {
		log.SetOutput(io.Discard)
		if devnull, err := os.OpenFile(os.DevNull, os.O_WRONLY, 0); err == nil {
			os.Stderr = devnull
		}
	}
	if b, err := os.ReadFile(findingsPath()); err == nil {
		var f struct {
			Findings []Finding `json:"findings"`
		}
		if err := json.Unmarshal(b, &f); err != nil {
			fmt.Fprintf(Stdout, "VERIF-ERROR cannot read known findings: %v\n", err)
			os.Exit(3)
		}
		findings = f.Findings
	}
	if outDir != "" {
		os.MkdirAll(outDir, 0o755)
		if f, err := os.OpenFile(filepath.Join(outDir, "journal"), os.O_CREATE|os.O_RDWR|os.O_TRUNC, 0o644); err == nil {
			journalF = f
		}
	}
	os.RemoveAll("testdata/rapid")
	code := m.Run()
	writeStats()
	if n := atomic.LoadInt64(&SlowCases); n > 0 {
		fmt.Fprintf(Stdout, "VERIF-NOTE %d case(s) returned after their watchdog period on a busy machine (not failures)\n", n)
	}
	fmt.Fprintf(Stdout, "VERIF-DONE code=%d\n", code)
	os.Exit(code)
}

func writeStats() {
	if outDir == "" {
		return
	}
	mu.Lock()
	defer mu.Unlock()
	var list []*checkStats
	for _, s := range allStats {
		s.Hashes = s.Hashes[:0]
		for h := range s.hashSet {
			s.Hashes = append(s.Hashes, h)
		}
		sort.Slice(s.Hashes, func(i, j int) bool { return s.Hashes[i] < s.Hashes[j] })
		list = append(list, s)
	}
	sort.Slice(list, func(i, j int) bool { return list[i].Check < list[j].Check })
	b, _ := json.Marshal(list)
	os.WriteFile(filepath.Join(outDir, "stats.json"), b, 0o644)
}

func journal(test, check string, c []byte) {
	if journalF == nil {
		return
	}
	hdr := fmt.Sprintf("%s\n%s\n%d\n", test, check, len(c))
	buf := append([]byte(hdr), c...)
	buf = append(buf, '\n')
	journalF.WriteAt(buf, 0)
	// a marker of the total record length so that a shorter record overwrites cleanly
	journalF.Truncate(int64(len(buf)))
}

func journalClear() {
	if journalF != nil {
		journalF.Truncate(0)
	}
}

func hash64(b []byte) uint64 {
	h := fnv.New64a()
	h.Write(b)
	return h.Sum64()
}

func statsFor(property, name, rule string) *checkStats {
	mu.Lock()
	defer mu.Unlock()
	key := property + "/" + name
	s := allStats[key]
	if s == nil {
		s = &checkStats{Property: property, Check: name, Rule: rule, Labels: map[string]int{}, Excluded: map[string]int{},
			hashSet: map[uint64]struct{}{}, KnownPrinted: map[string]bool{}, Extra: map[string]any{}}
		allStats[key] = s
	}
	return s
}

// guarded runs f under the watchdog and converts a panic on the calling goroutine into an
// error. ok=false means the call did not return in time.
//
// The watchdog is not a plain wall-clock limit: on a busy machine (other checks, other
// campaigns on the same cores) a case that needs a second of processor time may take many
// seconds of wall time, and a time budget hit is never a violation. After d of wall time the
// call is declared stuck only when this process itself has consumed most of d in processor
// time since the call began (a loop that does not end), or when hardFactor*d of wall time
// (d plus five minutes for the long watchdogs) has passed (a deadlock, which consumes
// nothing). A case that returns after d but before that is counted in SlowCases.
const hardFactor = 6

var SlowCases int64

var traceSlow = os.Getenv("VERIF_TRACE_SLOW") != ""

func guarded(f func() error, d time.Duration) (err error, ok bool) {
	done := make(chan error, 1)
	go func() {
		defer func() {
			if r := recover(); r != nil {
				done <- fmt.Errorf("panic: %v\n%s", r, trimStack(debug.Stack()))
			}
		}()
		done <- f()
	}()
	start, cpu0 := time.Now(), processCPU()
	timer := time.NewTimer(d)
	defer timer.Stop()
	for {
		select {
		case err = <-done:
			if traceSlow && time.Since(start) > 500*time.Millisecond {
				fmt.Fprintf(os.Stderr, "VERIF-SLOW wall=%v cpu=%v\n", time.Since(start), processCPU()-cpu0)
			}
			if time.Since(start) >= d {
				atomic.AddInt64(&SlowCases, 1)
			}
			return err, true
		case <-timer.C:
			wall := time.Since(start)
			hard := hardFactor * d
			if d > time.Minute {
				hard = d + 5*time.Minute
			}
			if used := processCPU() - cpu0; used >= d*8/10 || wall >= hard {
				return nil, false
			}
			timer.Reset(d / 8)
		}
	}
}

// processCPU is the processor time (user + system) consumed by this process so far.
func processCPU() time.Duration {
	var ru syscall.Rusage
	if syscall.Getrusage(syscall.RUSAGE_SELF, &ru) != nil {
		return 0
	}
	return time.Duration(ru.Utime.Nano() + ru.Stime.Nano())
}

func trimStack(b []byte) string {
	lines := strings.Split(string(b), "\n")
	var keep []string
	for _, l := range lines {
		if strings.Contains(l, "/repo/") || strings.Contains(l, "gotree") {
			// no addresses: the message of a case must be the same on every run
			l = strings.TrimSpace(l)
			if i := strings.Index(l, " +0x"); i >= 0 {
				l = l[:i]
			}
			if i := strings.LastIndex(l, "("); i >= 0 && strings.Contains(l[i:], "0x") {
				l = l[:i]
			}
			keep = append(keep, l)
		}
		if len(keep) >= 8 {
			break
		}
	}
	return strings.Join(keep, "\n")
}

func activeFinding(id, check string) *Finding {
	for i := range findings {
		f := &findings[i]
		if f.ID == id && f.Status == "known" {
			return f
		}
	}
	return nil
}

func writeReplay(f fail) string {
	dir := os.Getenv("VERIF_REPLAY_DIR")
	if dir == "" {
		dir = filepath.Join("/verif/replays", f.Property)
	}
	os.MkdirAll(dir, 0o755)
	b, _ := json.MarshalIndent(f, "", " ")
	name := fmt.Sprintf("%s-%016x.json", strings.ReplaceAll(f.Check, "/", "_"), hash64(f.Case))
	p := filepath.Join(dir, name)
	os.WriteFile(p, b, 0o644)
	return p
}

// Run executes one Spec inside a Go test.
func Run[C any](t *testing.T, sp Spec[C]) {
	t.Helper()
	if sp.Timeout == 0 {
		sp.Timeout = 20 * time.Second
	}
	st := statsFor(sp.Property, sp.Name, sp.Rule)
	var last *fail
	activeKnown := map[string]*Finding{}

	eval := func(c C, fromGen bool) error {
		raw, err := json.Marshal(c)
		if err != nil {
			return fmt.Errorf("harness: case not serialisable: %v", err)
		}
		if sp.Skip != nil {
			if id := sp.Skip(c); id != "" && activeKnown[id] != nil {
				st.Excluded[id]++
				return nil
			}
		}
		journal(t.Name(), sp.Name, raw)
		cerr, ok := guarded(func() error { return sp.Check(c) }, sp.Timeout)
		if !ok {
			// did not return: report directly, the stuck goroutine cannot be stopped
			f := fail{Property: sp.Property, Test: t.Name(), Check: sp.Name, Case: raw,
				Failure: fmt.Sprintf("did not return within %v", sp.Timeout), Seed: seed, Tier: tier, Shard: shard}
			p := writeReplay(f)
			fmt.Fprintf(Stdout, "VERIF-FAIL property=%s check=%s replay=%s reason=%q\n", sp.Property, sp.Name, p, f.Failure)
			writeStats()
			os.Exit(4)
		}
		journalClear()
		if cerr != nil && sp.Known != nil {
			if id := sp.Known(c); id != "" {
				if f := activeKnown[id]; f != nil && strings.Contains(cerr.Error(), f.Signature) {
					st.Excluded[id]++
					return nil
				}
			}
		}
		if cerr != nil {
			last = &fail{Property: sp.Property, Test: t.Name(), Check: sp.Name, Case: raw, Failure: cerr.Error(), Seed: seed, Tier: tier, Shard: shard}
			st.ShrinkPhase = true
			return cerr
		}
		if !st.ShrinkPhase && fromGen {
			st.Evaluations++
			if sp.Classify != nil {
				nt, labels := sp.Classify(c)
				for _, l := range labels {
					st.Labels[l]++
				}
				if nt {
					st.NonTrivial++
					hv := hash64(raw)
					if _, dup := st.hashSet[hv]; !dup {
						st.hashSet[hv] = struct{}{}
						if len(st.First) < 2 {
							st.First = append(st.First, raw)
						}
						// keep the 4 non-trivial cases with the smallest hashes: a
						// deterministic uniform sample
						st.Samples = append(st.Samples, sample{hv, raw})
						sort.Slice(st.Samples, func(i, j int) bool { return st.Samples[i].H < st.Samples[j].H })
						if len(st.Samples) > 4 {
							st.Samples = st.Samples[:4]
						}
					}
				}
			} else {
				st.NonTrivial++
				st.hashSet[hash64(raw)] = struct{}{}
				if len(st.First) < 2 {
					st.First = append(st.First, raw)
				}
			}
		}
		return nil
	}

	report := func() {
		if last != nil {
			st.Failures++
			p := writeReplay(*last)
			fmt.Fprintf(Stdout, "VERIF-FAIL property=%s check=%s replay=%s reason=%q\n", sp.Property, sp.Name, p, firstLine(last.Failure))
		}
	}

	// replay mode: run exactly the saved case
	if replay != "" {
		b, err := os.ReadFile(replay)
		if err != nil {
			t.Fatalf("cannot read replay file: %v", err)
		}
		var f fail
		if err := json.Unmarshal(b, &f); err != nil {
			t.Fatalf("bad replay file: %v", err)
		}
		if f.Check != sp.Name || f.Property != sp.Property {
			return
		}
		var c C
		if err := json.Unmarshal(f.Case, &c); err != nil {
			t.Fatalf("bad case in replay file: %v", err)
		}
		fmt.Fprintf(Stdout, "VERIF-REPLAY property=%s check=%s\n", sp.Property, sp.Name)
		if err := eval(c, false); err != nil {
			fmt.Fprintf(Stdout, "VERIF-REPLAY-FAIL property=%s check=%s reason=%q\n", sp.Property, sp.Name, firstLine(err.Error()))
			t.Fatalf("replayed case fails: %v", err)
		}
		fmt.Fprintf(Stdout, "VERIF-REPLAY-PASS property=%s check=%s\n", sp.Property, sp.Name)
		return
	}

	// known findings of this check: replay the witness; the finding is active (its
	// trigger is excluded) only while the witness still fails with its signature.
	for i := range findings {
		f := &findings[i]
		if f.Property != sp.Property || f.Check != sp.Name || f.Status != "known" {
			continue
		}
		var c C
		if err := json.Unmarshal(f.Witness, &c); err != nil {
			t.Fatalf("known finding %s: bad witness: %v", f.ID, err)
		}
		raw, _ := json.Marshal(c)
		journal(t.Name(), sp.Name, raw)
		werr, ok := guarded(func() error { return sp.Check(c) }, sp.Timeout)
		journalClear()
		if !ok || (werr != nil && strings.Contains(werr.Error(), f.Signature)) {
			activeKnown[f.ID] = f
			fmt.Fprintf(Stdout, "KNOWN-FINDING: property=%s %s [%s]\n", sp.Property, f.Title, f.ID)
		} else if werr != nil {
			last = &fail{Property: sp.Property, Test: t.Name(), Check: sp.Name, Case: raw, Failure: "witness of " + f.ID + " fails differently: " + werr.Error(), Seed: seed, Tier: tier, Shard: shard}
			report()
			t.Fatalf("witness of known finding %s fails with another signature: %v", f.ID, werr)
		} else {
			fmt.Fprintf(Stdout, "VERIF-NOTE known finding %s no longer reproduces; its trigger is not excluded any more\n", f.ID)
		}
	}

	defer report()

	for _, a := range sp.Anchors {
		st.Anchors++
		if err := eval(a, false); err != nil {
			t.Fatalf("anchor case fails: %v", err)
		}
	}

	total := sp.Quick
	if Thorough() {
		total = sp.Thorough
	}
	total = int(float64(total) * scale)
	n := total / nshards
	if shard < total%nshards {
		n++
	}
	if n <= 0 {
		return
	}
	st.Requested += n
	rs := uint64(1 + (uint64(seed)*1000003+uint64(shard)*7919+hash64([]byte(sp.Property+"/"+sp.Name))%100000)%(1<<62))
	flag.Set("rapid.checks", strconv.Itoa(n))
	flag.Set("rapid.seed", strconv.FormatUint(rs, 10))
	flag.Set("rapid.nofailfile", "true")
	if os.Getenv("VERIF_SHRINKTIME") != "" {
		flag.Set("rapid.shrinktime", os.Getenv("VERIF_SHRINKTIME"))
	} else {
		flag.Set("rapid.shrinktime", "20s")
	}
	thorough := Thorough()
	rapid.Check(t, func(rt *rapid.T) {
		c := sp.Gen(rt, thorough)
		if err := eval(c, true); err != nil {
			rt.Fatalf("%v", err)
		}
	})
}

func firstLine(s string) string {
	if i := strings.IndexByte(s, '\n'); i >= 0 {
		s = s[:i]
	}
	if len(s) > 300 {
		s = s[:300]
	}
	return s
}

// Direct is for enumerations and statistical sweeps that do not go through rapid: the
// check reports its own evaluations. It returns a recorder.
type Recorder struct {
	st   *checkStats
	t    *testing.T
	prop string
	name string
}

func NewRecorder(t *testing.T, property, name, rule string) *Recorder {
	return &Recorder{st: statsFor(property, name, rule), t: t, prop: property, name: name}
}

// Replaying tells whether the process runs in replay mode for another check (then an
// enumeration has nothing to do) .
func (r *Recorder) ReplayCase(dst any) (bool, bool) {
	if replay == "" {
		return false, false
	}
	b, err := os.ReadFile(replay)
	if err != nil {
		r.t.Fatalf("cannot read replay file: %v", err)
	}
	var f fail
	if err := json.Unmarshal(b, &f); err != nil {
		r.t.Fatalf("bad replay file: %v", err)
	}
	if f.Check != r.name || f.Property != r.prop {
		return true, false
	}
	if err := json.Unmarshal(f.Case, dst); err != nil {
		r.t.Fatalf("bad case in replay file: %v", err)
	}
	return true, true
}

func (r *Recorder) Eval(c any, nontrivial bool, labels ...string) {
	r.st.Evaluations++
	for _, l := range labels {
		r.st.Labels[l]++
	}
	if nontrivial {
		raw, _ := json.Marshal(c)
		hv := hash64(raw)
		r.st.NonTrivial++
		if _, dup := r.st.hashSet[hv]; !dup {
			r.st.hashSet[hv] = struct{}{}
			if len(r.st.First) < 2 {
				r.st.First = append(r.st.First, raw)
			}
			r.st.Samples = append(r.st.Samples, sample{hv, raw})
			sort.Slice(r.st.Samples, func(i, j int) bool { return r.st.Samples[i].H < r.st.Samples[j].H })
			if len(r.st.Samples) > 4 {
				r.st.Samples = r.st.Samples[:4]
			}
		}
	}
}

func (r *Recorder) Journal(c any) {
	raw, _ := json.Marshal(c)
	journal(r.t.Name(), r.name, raw)
}
func (r *Recorder) JournalClear() { journalClear() }

func (r *Recorder) Exhaustive()           { r.st.Exhaustive = true }
func (r *Recorder) Extra(k string, v any) { r.st.Extra[k] = v }
func (r *Recorder) Excluded(id string)    { r.st.Excluded[id]++ }

// Active tells whether a known finding is listed as known (enumerations decide
// themselves whether the witness still fails).
func (r *Recorder) Known(id string) *Finding { return activeFinding(id, r.name) }

func (r *Recorder) KnownLine(f *Finding) {
	fmt.Fprintf(Stdout, "KNOWN-FINDING: property=%s %s [%s]\n", r.prop, f.Title, f.ID)
}

// Fail records a violation with its replayable case.
func (r *Recorder) Fail(c any, format string, args ...any) {
	raw, _ := json.Marshal(c)
	f := fail{Property: r.prop, Test: r.t.Name(), Check: r.name, Case: raw, Failure: fmt.Sprintf(format, args...), Seed: seed, Tier: tier, Shard: shard}
	r.st.Failures++
	p := writeReplay(f)
	fmt.Fprintf(Stdout, "VERIF-FAIL property=%s check=%s replay=%s reason=%q\n", r.prop, r.name, p, firstLine(f.Failure))
	r.t.Errorf("%s", f.Failure)
}

// Guard runs f under the watchdog, converting panics to errors; a hang is reported as a
// violation with the given case and ends the process.
func (r *Recorder) Guard(c any, d time.Duration, f func() error) error {
	r.Journal(c)
	err, ok := guarded(f, d)
	if !ok {
		raw, _ := json.Marshal(c)
		fl := fail{Property: r.prop, Test: r.t.Name(), Check: r.name, Case: raw, Failure: fmt.Sprintf("did not return within %v", d), Seed: seed, Tier: tier, Shard: shard}
		p := writeReplay(fl)
		fmt.Fprintf(Stdout, "VERIF-FAIL property=%s check=%s replay=%s reason=%q\n", r.prop, r.name, p, fl.Failure)
		writeStats()
		os.Exit(4)
	}
	journalClear()
	return err
}

// ---------------------------------------------------------------------------------------
// Native fuzzing support

// Guarded is the exported watchdog + panic-to-error wrapper (used by fuzz targets).
func Guarded(f func() error, d time.Duration) (err error, returned bool) { return guarded(f, d) }

// FuzzCheck is the body of a native fuzz target: the case built from the fuzzer's input is
// checked under the watchdog; a hang ends the worker process (exit 3) so that the
// coordinator records the input as a crasher.
func FuzzCheck(t *testing.T, d time.Duration, check func() error) {
	err, ok := guarded(check, d)
	if !ok {
		fmt.Fprintf(Stdout, "fuzz input did not return within %v\n", d)
		os.Exit(3)
	}
	if err != nil {
		t.Fatalf("%v", err)
	}
}

// CorpusToReplay converts a crasher saved by the Go fuzzer (file named by
// VERIF_CORPUS_FILE, target by VERIF_CORPUS_TARGET) into a plain replay file of the
// given check. mk receives the decoded arguments (as strings holding the raw bytes).
func CorpusToReplay(t *testing.T, property string, targets map[string]struct {
	Check string
	Make  func(args []string) any
}) {
	file, target := os.Getenv("VERIF_CORPUS_FILE"), os.Getenv("VERIF_CORPUS_TARGET")
	if file == "" {
		t.Skip("no corpus file to convert")
	}
	tg, ok := targets[target]
	if !ok {
		t.Fatalf("unknown fuzz target %q", target)
	}
	args, err := CorpusArgs(file)
	if err != nil {
		t.Fatalf("%v", err)
	}
	raw, _ := json.Marshal(tg.Make(args))
	p := writeReplay(fail{Property: property, Test: t.Name(), Check: tg.Check, Case: raw, Failure: "crasher saved by the native fuzzer (" + target + ")", Seed: seed, Tier: tier})
	fmt.Fprintf(Stdout, "VERIF-CORPUS-REPLAY %s\n", p)
}

// CorpusArgs decodes a Go fuzz corpus file into its arguments (strings hold raw bytes).
func CorpusArgs(file string) ([]string, error) {
	b, err := os.ReadFile(file)
	if err != nil {
		return nil, err
	}
	lines := strings.Split(strings.TrimSpace(string(b)), "\n")
	if len(lines) < 2 || !strings.HasPrefix(lines[0], "go test fuzz v1") {
		return nil, fmt.Errorf("not a Go fuzz corpus file: %s", file)
	}
	var args []string
	for _, l := range lines[1:] {
		i, j := strings.IndexByte(l, '('), strings.LastIndexByte(l, ')')
		if i < 0 || j < i {
			return nil, fmt.Errorf("cannot decode corpus line %q", l)
		}
		lit := l[i+1 : j]
		if s, err := strconv.Unquote(lit); err == nil {
			args = append(args, s)
		} else {
			args = append(args, lit) // numbers, booleans
		}
	}
	return args, nil
}

// SaveFuzzFailure writes the failing case of a rapid.MakeFuzz target as a replay file, but
// only in conversion mode (VERIF_CORPUS_FILE set), so that fuzz workers do not litter.
func SaveFuzzFailure(property, check string, c any, err error) {
	if os.Getenv("VERIF_CORPUS_FILE") == "" {
		return
	}
	raw, _ := json.Marshal(c)
	p := writeReplay(fail{Property: property, Test: "fuzz", Check: check, Case: raw, Failure: err.Error(), Seed: seed, Tier: tier})
	fmt.Fprintf(Stdout, "VERIF-CORPUS-REPLAY %s\n", p)
}

// Replayed reports the outcome of replaying a recorder case (enumerations and sweeps).
func (r *Recorder) Replayed(err error) {
	fmt.Fprintf(Stdout, "VERIF-REPLAY property=%s check=%s\n", r.prop, r.name)
	if err != nil {
		fmt.Fprintf(Stdout, "VERIF-REPLAY-FAIL property=%s check=%s reason=%q\n", r.prop, r.name, firstLine(err.Error()))
		r.t.Fatalf("replayed case fails: %v", err)
	}
	fmt.Fprintf(Stdout, "VERIF-REPLAY-PASS property=%s check=%s\n", r.prop, r.name)
}
