package h

import (
	"testing"
	"time"
)

func TestWatchdogSleep(t *testing.T) {
	_, ok := guarded(func() error { time.Sleep(3 * time.Second); return nil }, 1*time.Second)
	if !ok || SlowCases != 1 {
		t.Fatal("sleeping case flagged", ok, SlowCases)
	}
}
func TestWatchdogDeadlock(t *testing.T) {
	t0 := time.Now()
	_, ok := guarded(func() error { select {} }, 1*time.Second)
	if ok || time.Since(t0) < 5*time.Second {
		t.Fatal("deadlock", ok)
	}
}

func TestWatchdogZLoop(t *testing.T) {
	t0 := time.Now()
	_, ok := guarded(func() error {
		for {
		}
	}, 2*time.Second)
	if ok || time.Since(t0) > 4*time.Second {
		t.Fatal("loop not caught", ok, time.Since(t0))
	}
}
