package cli

import (
	"os/exec"
	"testing"
	"time"
)

// The three behaviours of the command watchdog: a command that loops is stopped after one period,
// one that merely waits (as a starved one does) is left alone, one that waits for ever is stopped
// after six periods.
func TestRunWatched(t *testing.T) {
	defer func(d time.Duration) { commandPeriod = d }(commandPeriod)
	commandPeriod = 2 * time.Second
	t0 := time.Now()
	if _, fin := runWatched(exec.Command("sh", "-c", "while :; do :; done")); fin || time.Since(t0) > 4*time.Second {
		t.Fatalf("endless loop: finished=%v after %v", fin, time.Since(t0))
	}
	if err, fin := runWatched(exec.Command("sleep", "3")); !fin || err != nil {
		t.Fatalf("a waiting command was stopped: finished=%v err=%v", fin, err)
	}
	commandPeriod = time.Second
	t0 = time.Now()
	if _, fin := runWatched(exec.Command("sleep", "100")); fin || time.Since(t0) < 6*time.Second || time.Since(t0) > 8*time.Second {
		t.Fatalf("a command that waits for ever: finished=%v after %v", fin, time.Since(t0))
	}
}
