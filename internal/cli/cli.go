// Package cli runs the gotree command-line binary built by the driver from /repo's working tree.
package cli

import (
	"bytes"
	"fmt"
	"os"
	"os/exec"
	"path/filepath"
	"strconv"
	"strings"
	"sync/atomic"
	"time"
)

// Bin is the path of the gotree binary (built by tools/verif.py for checks that declare needs_cli).
func Bin() string { return os.Getenv("VERIF_CLI") }

func Available() bool {
	if Bin() == "" {
		return false
	}
	_, err := os.Stat(Bin())
	return err == nil
}

var counter int64

// Scratch returns a fresh empty directory below the shard's scratch area.
func Scratch() string {
	base := os.Getenv("VERIF_SCRATCH")
	if base == "" {
		base = filepath.Join(os.TempDir(), fmt.Sprintf("verif-scratch-%d", os.Getpid()))
	}
	d := filepath.Join(base, fmt.Sprintf("d%d", atomic.AddInt64(&counter, 1)))
	os.MkdirAll(d, 0o755)
	return d
}

type Result struct {
	Stdout, Stderr string
	Code           int
	TimedOut       bool
}

// Run executes gotree with the given arguments in dir (a scratch directory), feeding stdin.
func Run(dir string, stdin string, args ...string) Result {
	return run(dir, &stdin, args...)
}

// RunNoStdin executes gotree with its standard input connected to the null device (a character
// device, as a terminal is - not a pipe): what a command started from a script without
// redirection, or by a service, sees.
func RunNoStdin(dir string, args ...string) Result {
	return run(dir, nil, args...)
}

func run(dir string, stdin *string, args ...string) Result {
	// an older, longer result is in the way of every output file named on the command line: it
	// must be replaced, not overwritten in place or appended to (files that the caller has put
	// there itself are left alone)
	for i := 0; i+1 < len(args); i++ {
		switch args[i] {
		case "-o", "--output", "--out", "--out-steps", "--out-states", "--log", "--log-file":
			name := args[i+1]
			if name == "" || name == "stdout" || name == "stderr" || name == "none" || name == "-" || strings.ContainsAny(name, "/\\") || !strings.Contains(name, ".") {
				continue // not a file of the scratch directory, or a prefix of file names (`divide -o prefix`)
			}
			if _, err := os.Stat(filepath.Join(dir, name)); err != nil {
				os.WriteFile(filepath.Join(dir, name), []byte(strings.Repeat("(stale,(content,of),(an,earlier),run)0.5:0.25;\n", 240)), 0o644)
			}
		}
	}
	cmd := exec.Command(Bin(), args...)
	cmd.Dir = dir
	// the environment of an interactive session: a narrow terminal, a locale with a decimal comma,
	// another time zone, colour preferences - what a command does is described by its help text and
	// its options, none of this may change it
	cmd.Env = append(os.Environ(), "COLUMNS=80", "LINES=24", "TERM=xterm-256color", "LANG=fr_FR.UTF-8", "LC_ALL=fr_FR.UTF-8",
		"LC_NUMERIC=fr_FR.UTF-8", "TZ=Pacific/Auckland", "NO_COLOR=1", "CLICOLOR=0", "PAGER=cat")
	if stdin != nil {
		cmd.Stdin = strings.NewReader(*stdin)
	}
	var so, se bytes.Buffer
	cmd.Stdout, cmd.Stderr = &so, &se
	err, finished := runWatched(cmd)
	r := Result{Stdout: so.String(), Stderr: se.String()}
	if !finished {
		r.TimedOut = true
		r.Code = -1
		return r
	}
	if err != nil {
		if ee, ok := err.(*exec.ExitError); ok {
			r.Code = ee.ExitCode()
		} else {
			r.Code = -2
			r.Stderr += err.Error()
		}
	}
	return r
}

// commandPeriod is the time a command is given. As for the in-process watchdog (h.guarded), it is
// not a plain wall-clock limit - on a machine shared with other campaigns a command that needs
// 20 ms of processor time may wait seconds for it, and a time budget hit is never a violation:
// after the period the command is stopped and reported as not finishing only when it has itself
// consumed 80 % of the period in processor time (/proc/<pid>/stat: a loop that does not end), or
// when six periods of wall time have passed (a command waiting for something that never comes).
var commandPeriod = 60 * time.Second

func runWatched(cmd *exec.Cmd) (err error, finished bool) {
	if err := cmd.Start(); err != nil {
		return err, true
	}
	done := make(chan error, 1)
	go func() { done <- cmd.Wait() }()
	start := time.Now()
	tick := time.NewTicker(250 * time.Millisecond)
	defer tick.Stop()
	for {
		select {
		case err = <-done:
			return err, true
		case <-tick.C:
			wall := time.Since(start)
			if wall < commandPeriod {
				continue
			}
			if processCPU(cmd.Process.Pid) >= commandPeriod*8/10 || wall >= 6*commandPeriod {
				cmd.Process.Kill()
				<-done
				return nil, false
			}
		}
	}
}

// processCPU is the processor time (user + system, all threads) consumed so far by a live process.
func processCPU(pid int) time.Duration {
	b, err := os.ReadFile(fmt.Sprintf("/proc/%d/stat", pid))
	if err != nil {
		return 0
	}
	t := string(b)
	if i := strings.LastIndex(t, ")"); i >= 0 { // the command name may hold blanks
		t = t[i+1:]
	}
	f := strings.Fields(t) // f[0] is the state (field 3); utime and stime are fields 14 and 15
	if len(f) < 13 {
		return 0
	}
	ut, _ := strconv.ParseInt(f[11], 10, 64)
	st, _ := strconv.ParseInt(f[12], 10, 64)
	return time.Duration(ut+st) * (time.Second / 100) // USER_HZ is 100 on Linux
}

// Write creates a file in dir and returns its name (relative to dir).
func Write(dir, name, content string) string {
	os.WriteFile(filepath.Join(dir, name), []byte(content), 0o644)
	return name
}

func Read(dir, name string) string {
	b, _ := os.ReadFile(filepath.Join(dir, name))
	return string(b)
}

// Panicked tells whether stderr holds a Go panic trace.
func (r Result) Panicked() bool {
	return strings.Contains(r.Stderr, "panic:") || strings.Contains(r.Stderr, "goroutine 1 [") || strings.Contains(r.Stderr, "fatal error:")
}

// Differential runs a command and compares what it prints with what the corresponding library
// call gives on the same input (the library call being judged against an oracle elsewhere):
// when the library call fails the command must report an error (non-zero status or an [Error]
// message) and print no result; otherwise the standard output must be the library's text.
func Differential(args []string, stdin string, files map[string]string, lib func() (string, error)) error {
	return DifferentialOut(args, stdin, files, "", lib)
}

// DifferentialOut is Differential for a command whose whole result goes to the file named by
// its output option: with outFlag (e.g. "-o") set, the option is passed with a file name and the
// file's content is what must equal the library's text (and nothing may be printed instead).
func DifferentialOut(args []string, stdin string, files map[string]string, outFlag string, lib func() (string, error)) error {
	if !Available() {
		return fmt.Errorf("harness: gotree binary not built")
	}
	dir := Scratch()
	defer os.RemoveAll(dir)
	for n, c := range files {
		Write(dir, n, AuxLayout(n, c))
	}
	want, lerr := lib()
	if outFlag != "" {
		args = append(append([]string{}, args...), outFlag, "result.out")
		// an older, longer result is in the way: the file must be replaced, not overwritten in place
		Write(dir, "result.out", strings.Repeat("(stale,result,of,an,earlier,run);\n", 200))
	}
	r := Run(dir, stdin, args...)
	if outFlag != "" {
		if strings.TrimSpace(r.Stdout) != "" && lerr == nil {
			return fmt.Errorf("the command was told to write to a file but prints %q (gotree %s)", clipS(r.Stdout), strings.Join(args, " "))
		}
		r.Stdout = Read(dir, "result.out")
	}
	ctx := fmt.Sprintf(" (gotree %s)", strings.Join(args, " "))
	if r.TimedOut {
		return fmt.Errorf("command did not finish%s", ctx)
	}
	if r.Panicked() {
		return fmt.Errorf("command crashed%s: %s", ctx, clipS(r.Stderr))
	}
	// the commands checked this way return their error to the caller (cobra RunE): a failure is
	// reported through a non-zero exit status, not only through a message on stderr
	reported := r.Code != 0
	if lerr != nil {
		if !reported {
			return fmt.Errorf("the library call fails (%v) but the command reports no error and prints %q%s", lerr, clipS(r.Stdout), ctx)
		}
		return nil
	}
	if reported {
		return fmt.Errorf("the library call succeeds but the command reports an error: status %d, %s%s", r.Code, clipS(r.Stderr), ctx)
	}
	if r.Stdout != want {
		return fmt.Errorf("the command prints\n  %s\nthe library call on the same input gives\n  %s%s", clipS(r.Stdout), clipS(want), ctx)
	}
	return nil
}

func clipS(s string) string {
	if len(s) > 600 {
		return s[:600] + "..."
	}
	return s
}

// WriteIn writes an input file of a command in the layout AuxLayout chooses for it.
func WriteIn(dir, name, content string) string {
	return Write(dir, name, AuxLayout(name, content))
}

// TreesLayout lays out a text of Newick trees (one per line, as the checks write them) the way
// files met in practice are: CRLF line ends, a tab or blanks after the ';', trees wrapped over
// several lines, empty lines between trees, two trees on one line, no final end-of-line, and - the reader works through
// a 4096-byte buffer - one tree whose text up to its ';' fills a whole number of buffers (blanks
// after its first ',' bring it to that length), alone or followed by a blank. The layout is
// chosen from the content (a case replays identically); half of the texts stay as they are.
// Lines that do not end with ';' (records damaged on purpose) are left alone.
func TreesLayout(content string) string {
	if !strings.HasPrefix(content, "(") || !strings.HasSuffix(content, "\n") || strings.Contains(content, "\r") {
		return content
	}
	h := uint32(2166136261)
	for i := 0; i < len(content); i++ {
		h = (h ^ uint32(content[i])) * 16777619
	}
	lines := strings.Split(strings.TrimSuffix(content, "\n"), "\n")
	for _, l := range lines {
		if strings.TrimSpace(l) == "" {
			return content
		}
	}
	kind := h % 22
	sel := int((h / 20) % uint32(len(lines)))
	nl, after, between, final := "\n", "", "", true
	pad := func(extra string) {
		l := lines[sel]
		c := firstComma(l)
		if !strings.HasSuffix(l, ";") || c < 0 {
			return
		}
		n := (4096 - len(l)%4096) % 4096
		lines[sel] = l[:c+1] + strings.Repeat(" ", n) + l[c+1:] + extra
	}
	switch kind {
	case 0:
		nl = "\r\n"
	case 1:
		after = "\t"
	case 2:
		after = " \t "
	case 3:
		pad("")
	case 4:
		pad(" ")
	case 5:
		pad("")
		nl = "\r\n"
	case 6, 7:
		if kind == 7 {
			nl = "\r\n"
		}
		for i, l := range lines {
			lines[i] = wrapAfterCommas(l, nl)
		}
	case 8:
		final = false
	case 9:
		between = nl
	case 10:
		pad("\t")
		final = false
	case 11, 12:
		// two trees per line ("(a,b);(c,d);"), nothing or a blank between them
		sep := ""
		if kind == 12 {
			sep = " "
		}
		var joined []string
		for i := 0; i < len(lines); i++ {
			if i+1 < len(lines) && strings.HasSuffix(lines[i], ";") && strings.HasSuffix(lines[i+1], ";") {
				joined = append(joined, lines[i]+sep+lines[i+1])
				i++
			} else {
				joined = append(joined, lines[i])
			}
		}
		lines = joined
	default:
		return content
	}
	var b strings.Builder
	for i, l := range lines {
		b.WriteString(l)
		if strings.HasSuffix(l, ";") {
			b.WriteString(after)
		}
		if i < len(lines)-1 || final {
			b.WriteString(nl)
		}
		if i < len(lines)-1 {
			b.WriteString(between)
		}
	}
	return b.String()
}

// firstComma: position of the first ',' outside [comments] (-1: none).
func firstComma(l string) int {
	in := false
	for i := 0; i < len(l); i++ {
		switch {
		case in:
			in = l[i] != ']'
		case l[i] == '[':
			in = true
		case l[i] == ',':
			return i
		}
	}
	return -1
}

func wrapAfterCommas(l, nl string) string {
	var b strings.Builder
	in, k := false, 0
	for i := 0; i < len(l); i++ {
		b.WriteByte(l[i])
		switch {
		case in:
			in = l[i] != ']'
		case l[i] == '[':
			in = true
		case l[i] == ',':
			k++
			if k%2 == 1 {
				b.WriteString(nl)
			}
		}
	}
	return b.String()
}

// AuxLayout: tree files (*.nw holding Newick text) get one of the layouts of TreesLayout; line-oriented auxiliary files (*.txt: tip lists, maps, groups, states) are written
// with CRLF line ends in a third of the cases and without their final end-of-line in half of the cases (chosen from the content, so that a case
// replays identically): the last line counts like the others.
func AuxLayout(name, content string) string {
	if strings.HasSuffix(name, ".nw") {
		return TreesLayout(content)
	}
	if !strings.HasSuffix(name, ".txt") {
		return content
	}
	if len(content)%3 == 1 {
		// written on another platform: CRLF line ends
		content = strings.ReplaceAll(content, "\n", "\r\n")
	}
	if len(content)%2 == 0 && strings.HasSuffix(content, "\n") && len(content) > 2 {
		content = strings.TrimSuffix(strings.TrimSuffix(content, "\n"), "\r")
	}
	return content
}

// TipFile lays a list of tip names out as a tip file: "lines" = one name per line; "blank" = the same with empty lines between groups of names; "commas" = all
// names on one line; "long" = one line in which names that are in no tree ("zzpad<i>", "_" runs)
// push the name names[straddle%len] across the byte offset boundary (a multiple of bufio's
// 4096-byte buffer); "exact" = one line without end of line whose length is exactly boundary bytes.
func TipFile(names []string, layout string, boundary, straddle int) string {
	switch layout {
	case "blank":
		// one name per line, an empty line after every second name (groups of names typed by hand)
		var b strings.Builder
		for i, n := range names {
			b.WriteString(n + "\n")
			if i%2 == 1 && i < len(names)-1 {
				b.WriteString("\n")
			}
		}
		return b.String()
	case "commas":
		return strings.Join(names, ",") + "\n"
	case "long":
		if len(names) == 0 {
			return "\n"
		}
		k := straddle % len(names)
		target := names[k]
		var b strings.Builder
		for i, n := range names {
			if i != k {
				b.WriteString(n + ",")
			}
		}
		// the target starts 1..len-1 bytes before the boundary (a one-byte name ends on it)
		before := len(target) - 1
		if before < 1 {
			before = 1
		}
		start := boundary - 1 - (straddle/7)%before
		for i := 0; b.Len() < start; i++ {
			pad := fmt.Sprintf("zzpad%d,", i)
			if rest := start - b.Len(); rest < len(pad)+2 {
				pad = strings.Repeat("_", rest-1) + "," // never a tip name
			}
			b.WriteString(pad)
		}
		b.WriteString(target + ",zzpadlast\n")
		return b.String()
	}
	if layout == "exact" {
		// one line without end of line whose length is exactly Boundary bytes (names, then names
		// that are in no tree)
		text := strings.Join(names, ",")
		for i := 0; len(text) < boundary; i++ {
			pad := fmt.Sprintf(",zzpad%d", i)
			if rest := boundary - len(text); rest < len(pad)+3 {
				pad = "," + strings.Repeat("_", rest-1)
			}
			text += pad
		}
		return text
	}
	text := ""
	for _, n := range names {
		text += n + "\n"
	}
	return text
}
