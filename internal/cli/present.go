package cli

import (
	"bytes"
	"compress/gzip"
	"strings"

	"verif/internal/docs"
	"verif/internal/ref"
)

// InModes are the ways a stream of Newick trees can be handed to a command: on standard input,
// as a file named with -i (LF or CRLF line ends), as a gzip-compressed file, or as a Nexus document (on standard input
// or in a file) selected with --format nexus.
var InModes = []string{"stdin", "stdin", "file", "gz", "nexus", "nexus-file", "nexus-translate", "crlf"}

// Present turns a text of Newick trees (one per line) into the arguments, standard input and
// files of the given input mode. Modes that cannot represent the text (a line that is not a
// tree, trees with comments - Nexus uses [] for its own comments -, no tree at all) fall back to
// "file". iflag is the command's input option ("-i").
func Present(mode, text, iflag string) (args []string, stdin string, files map[string]string, used string) {
	files = map[string]string{}
	switch mode {
	case "nexus", "nexus-file", "nexus-translate":
		doc, ok := ToNexus(text, mode == "nexus-translate")
		if !ok {
			mode = "file"
			break
		}
		if mode == "nexus-file" {
			files["in_trees.nex"] = doc
			return []string{"--format", "nexus", iflag, "in_trees.nex"}, "", files, mode
		}
		return []string{"--format", "nexus"}, doc, files, mode
	}
	switch mode {
	case "crlf":
		// a file written on another platform: CRLF line ends
		files["in_trees.nw"] = strings.ReplaceAll(text, "\n", "\r\n")
		return []string{iflag, "in_trees.nw"}, "", files, mode
	case "file":
		files["in_trees.nw"] = text // laid out when it is written (WriteIn / AuxLayout)
		return []string{iflag, "in_trees.nw"}, "", files, mode
	case "gz":
		// a file of several lines is written as two gzip members (what `cat a.gz b.gz`, bgzip or
		// pigz -i produce): a legal .gz file that must be read to its end
		var b bytes.Buffer
		text = TreesLayout(text)
		parts := []string{text}
		if lines := strings.SplitAfter(text, "\n"); len(lines) > 2 {
			h := len(lines) / 2
			parts = []string{strings.Join(lines[:h], ""), strings.Join(lines[h:], "")}
		}
		for _, p := range parts {
			w := gzip.NewWriter(&b)
			w.Write([]byte(p))
			w.Close()
		}
		files["in_trees.nw.gz"] = b.String()
		return []string{iflag, "in_trees.nw.gz"}, "", files, mode
	}
	return nil, TreesLayout(text), files, "stdin"
}

// ToNexus writes a text of Newick trees (one per line) as a Nexus document; ok is false when the
// text cannot be represented (a line that is not a tree, comments, no tree).
func ToNexus(text string, translate bool) (string, bool) {
	if strings.TrimSpace(text) == "" || strings.ContainsAny(text, "[]'") {
		return "", false
	}
	var ms []*ref.Node
	for _, l := range strings.Split(strings.TrimSpace(text), "\n") {
		m, err := ref.Parse(l)
		if err != nil {
			return "", false
		}
		ms = append(ms, m)
	}
	return docs.Nexus(ms, docs.NexusOpts{Translate: translate}), true
}

// IsNexus tells whether a mode returned by Present hands the trees over as Nexus: --format applies
// to every tree file of the command line, so secondary tree files must then be Nexus too.
func IsNexus(mode string) bool { return strings.HasPrefix(mode, "nexus") }

// DifferentialIn is DifferentialOut with the input stream handed over in the given mode. Files
// whose name ends in ".nw" are tree files read by the command with the same --format: they are
// converted with the input (if one of them cannot be, everything stays Newick).
func DifferentialIn(args []string, text string, files map[string]string, outFlag, inMode string, lib func() (string, error)) error {
	for _, a := range args {
		if a == "-i" {
			inMode = "stdin"
		}
	}
	if text == "" {
		inMode = "stdin"
	}
	conv := map[string]string{}
	if IsNexus(inMode) {
		for k, v := range files {
			if strings.HasSuffix(k, ".nw") {
				d, ok := ToNexus(v, false)
				if !ok {
					inMode = "file"
					break
				}
				conv[k] = d
			}
		}
	}
	extra, stdin, fs, used := Present(inMode, text, "-i")
	all := map[string]string{}
	for k, v := range files {
		all[k] = v
		if d, ok := conv[k]; ok && IsNexus(used) {
			all[k] = d
		}
	}
	for k, v := range fs {
		all[k] = v
	}
	return DifferentialOut(append(append([]string{}, args...), extra...), stdin, all, outFlag, lib)
}
