package c03

import (
	"fmt"
	"sort"
	"strings"
	"testing"

	"pgregory.net/rapid"

	"verif/internal/cli"
	"verif/internal/gen"
	"verif/internal/h"
	"verif/internal/ref"
)

// ---------------------------------------------------------------------------------------
// command level: `gotree rename` on streams of trees
//
// The map file (-m: current name <TAB> new name, --revert: the other way round) is an auxiliary
// text file written by hand or by a spreadsheet: LF or CRLF line ends, with or without a final
// end-of-line (cli.AuxLayout). The renamed trees are written as Newick text; that text, read by
// the reference reader, must be exactly the input tree with the names of the map replaced: same
// shape, child order, lengths, supports - and labels that are the new names, nothing more (a
// carriage return kept at the end of a label is text that describes another tree).
// With --auto the map file is written by the command: applying it to the input must give the output.

type RenameCase struct {
	Trees  []*ref.Node `json:"trees"`
	Map    [][2]string `json:"map"` // current name, new name
	Revert bool        `json:"revert"`
	Auto   bool        `json:"auto"`
	ToFile bool        `json:"to_file"`
}

func renamed(m *ref.Node, mp map[string]string) *ref.Node {
	c := m.Clone()
	c.Walk(func(x, p *ref.Node) {
		if n, ok := mp[x.Name]; ok && x.Name != "" {
			x.Name = n
		}
	})
	return c
}

func checkRename(c RenameCase) error {
	if !cli.Available() {
		return fmt.Errorf("harness: gotree binary not built")
	}
	dir := cli.Scratch()
	var in strings.Builder
	for _, m := range c.Trees {
		in.WriteString(ref.Write(m) + "\n")
	}
	args := []string{"rename", "-m", "map.txt"}
	mp := map[string]string{}
	if c.Auto {
		args = append(args, "-a", "--internal")
	} else {
		var mf strings.Builder
		for _, e := range c.Map {
			mp[e[0]] = e[1]
			if c.Revert {
				mf.WriteString(e[1] + "\t" + e[0] + "\n")
			} else {
				mf.WriteString(e[0] + "\t" + e[1] + "\n")
			}
		}
		cli.WriteIn(dir, "map.txt", mf.String())
		if c.Revert {
			args = append(args, "-r")
		}
	}
	if c.ToFile {
		args = append(args, "-o", "renamed.nw")
	}
	extra, stdin, infiles, _ := cli.Present(cli.InModes[(len(in.String())+len(c.Map))%len(cli.InModes)], in.String(), "-i")
	for name, content := range infiles {
		cli.WriteIn(dir, name, content)
	}
	args = append(args, extra...)
	r := cli.Run(dir, stdin, args...)
	ctx := fmt.Sprintf("\n gotree %v on\n%s map %q", args, in.String(), cli.Read(dir, "map.txt"))
	if r.TimedOut || r.Panicked() {
		return fmt.Errorf("command crashed or did not end: %s%s", r.Stderr, ctx)
	}
	if r.Code != 0 {
		return fmt.Errorf("command failed with status %d: %s%s", r.Code, r.Stderr, ctx)
	}
	out := r.Stdout
	if c.ToFile {
		out = cli.Read(dir, "renamed.nw")
	}
	lines := strings.Split(strings.TrimSuffix(out, "\n"), "\n")
	if len(lines) != len(c.Trees) {
		return fmt.Errorf("%d lines written for %d trees%s", len(lines), len(c.Trees), ctx)
	}
	if c.Auto {
		// the map the command wrote: one line per renamed node, current name <TAB> new name
		for _, l := range strings.Split(strings.TrimSuffix(cli.Read(dir, "map.txt"), "\n"), "\n") {
			f := strings.Split(l, "\t")
			if len(f) != 2 {
				return fmt.Errorf("written map file has a line with %d fields: %q%s", len(f), l, ctx)
			}
			mp[f[0]] = f[1]
		}
	}
	for i, l := range lines {
		got, err := ref.Parse(l)
		if err != nil {
			return fmt.Errorf("tree %d: written text not readable by the reference reader: %v (%q)%s", i, err, l, ctx)
		}
		want := renamed(c.Trees[i], mp)
		if c.Auto {
			// unnamed inner nodes receive a name too: compare the shapes with inner names of the input filled in from the output
			fill(want, got)
			names := got.Tips()
			sort.Strings(names)
			for j := 1; j < len(names); j++ {
				if names[j] == names[j-1] {
					return fmt.Errorf("tree %d: tip name %q given twice%s", i, names[j], ctx)
				}
			}
		}
		if d := ref.Diff(want, got); d != "" {
			return fmt.Errorf("tree %d: the written text is not the input tree with the names replaced: %s\n written %q\n expected %q%s", i, d, l, ref.Write(want), ctx)
		}
	}
	return nil
}

// fill copies, for inner nodes that have no name in want, the name found at the same place in got.
func fill(want, got *ref.Node) {
	if len(want.Ch) != len(got.Ch) {
		return
	}
	if len(want.Ch) > 0 && want.Name == "" {
		want.Name = got.Name
		// a name next to a support hides the support in the written text
		if got.Name != "" {
			want.Sup, want.Pv = nil, nil
		}
	}
	for i := range want.Ch {
		fill(want.Ch[i], got.Ch[i])
	}
}

func TestC03CliRename(t *testing.T) {
	h.Run(t, h.Spec[RenameCase]{
		Property: "C03", Name: "cli-rename", Quick: 480, Thorough: 9600,
		Rule: "`gotree rename -m map.txt [-r] [-o file]` and `gotree rename -a --internal -m map.txt` on streams of 1-3 trees (3-10 tips, 5% up to 40; names unique over tips and inner nodes), the map naming a drawn subset of the tips and inner nodes plus names absent from the tree, new names fresh (some with a blank or a '%' inside), the map file with LF or CRLF line ends and with or without a final end-of-line, the input on stdin, in a file, in a gzip file or as a Nexus document: exit status 0, one line per tree, and each line read by the reference reader is the input tree with exactly the names of the map replaced (shape, child order, lengths, supports, labels); with --auto the map written by the command applied to the input gives the output and tip names are unique; non-trivial = at least two names of the tree are in the map (or --auto)",
		Gen: func(t *rapid.T, thorough bool) RenameCase {
			o := gen.Opts{MinTips: 3, MaxTips: 10, BigTips: 40, Rooted: -1, MaxDeg: 5, Lens: gen.AnyPresence, LenVals: gen.DyadicZ, Sups: gen.AnyPresence, InnerNames: gen.AnyPresence}
			c := RenameCase{Revert: rapid.Bool().Draw(t, "revert"), Auto: rapid.IntRange(0, 4).Draw(t, "auto") == 0, ToFile: rapid.IntRange(0, 2).Draw(t, "tofile") == 0}
			for i, n := 0, rapid.IntRange(1, 3).Draw(t, "ntrees"); i < n; i++ {
				c.Trees = append(c.Trees, gen.Tree(t, o))
			}
			seen := map[string]bool{}
			var names []string
			for _, m := range c.Trees {
				m.Walk(func(x, p *ref.Node) {
					if x.Name != "" && !seen[x.Name] {
						seen[x.Name] = true
						names = append(names, x.Name)
					}
				})
			}
			names = append(names, "zz_absent1", "zz_absent2")
			k := 0
			for _, n := range names {
				if rapid.IntRange(0, 2).Draw(t, "inmap") > 0 {
					k++
					nn := fmt.Sprintf("r%d", k)
					switch rapid.IntRange(0, 5).Draw(t, "newname") {
					case 0:
						nn = fmt.Sprintf("new name %d", k)
					case 1:
						nn = fmt.Sprintf("r%d_95%%", k)
					}
					c.Map = append(c.Map, [2]string{n, nn})
				}
			}
			if len(c.Map) > 1 {
				c.Map = rapid.Permutation(c.Map).Draw(t, "maporder")
			}
			return c
		},
		Check: checkRename,
		Classify: func(c RenameCase) (bool, []string) {
			l := []string{fmt.Sprintf("revert=%v", c.Revert), fmt.Sprintf("auto=%v", c.Auto)}
			in := 0
			for _, e := range c.Map {
				if !strings.HasPrefix(e[0], "zz_absent") {
					in++
				}
			}
			return c.Auto || in >= 2, l
		},
	})
}
