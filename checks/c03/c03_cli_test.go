package c03

import (
	"fmt"
	"strings"
	"testing"

	"pgregory.net/rapid"

	"verif/internal/cli"
	"verif/internal/gen"
	"verif/internal/gt"
	"verif/internal/h"
	"verif/internal/ref"
)

// ---------------------------------------------------------------------------------------
// command level: `gotree rename` on streams of trees
//
// The map file (-m: current name <TAB> new name, --revert: the other way round) is an auxiliary
// text file written by hand or by a spreadsheet: LF or CRLF line ends, with or without a final
// end-of-line (cli.AuxLayout). C03 asks that the Newick text written for the edited tree describes
// exactly that tree: the text must be readable, well-formed, and mean the same to every reader.

type RenameCase struct {
	Trees  []*ref.Node `json:"trees"`
	Map    [][2]string `json:"map"` // current name, new name
	Revert bool        `json:"revert"`
	Auto   bool        `json:"auto"`
	ToFile bool        `json:"to_file"`
}

func checkRename(c RenameCase) error {
	if !cli.Available() {
		return fmt.Errorf("harness: gotree binary not built")
	}
	dir := cli.Scratch()
	var in strings.Builder
	for _, m := range c.Trees {
		in.WriteString(ref.Write(m) + "\n")
	}
	args := []string{"rename", "-m", "map.txt"}
	if c.Auto {
		args = append(args, "-a", "--internal")
	} else {
		var mf strings.Builder
		for _, e := range c.Map {
			if c.Revert {
				mf.WriteString(e[1] + "\t" + e[0] + "\n")
			} else {
				mf.WriteString(e[0] + "\t" + e[1] + "\n")
			}
		}
		cli.WriteIn(dir, "map.txt", mf.String())
		if c.Revert {
			args = append(args, "-r")
		}
	}
	if c.ToFile {
		args = append(args, "-o", "renamed.nw")
	}
	extra, stdin, infiles, _ := cli.Present(cli.InModes[(len(in.String())+len(c.Map))%len(cli.InModes)], in.String(), "-i")
	for name, content := range infiles {
		cli.WriteIn(dir, name, content)
	}
	args = append(args, extra...)
	r := cli.Run(dir, stdin, args...)
	ctx := fmt.Sprintf("\n gotree %v on\n%s map %q", args, in.String(), cli.Read(dir, "map.txt"))
	if r.TimedOut || r.Panicked() {
		return fmt.Errorf("command crashed or did not end: %s%s", r.Stderr, ctx)
	}
	if r.Code != 0 {
		return fmt.Errorf("command failed with status %d: %s%s", r.Code, r.Stderr, ctx)
	}
	out := r.Stdout
	if c.ToFile {
		out = cli.Read(dir, "renamed.nw")
	}
	lines := strings.Split(strings.TrimSuffix(out, "\n"), "\n")
	if len(lines) != len(c.Trees) {
		return fmt.Errorf("%d lines written for %d trees%s", len(lines), len(c.Trees), ctx)
	}
	for i, l := range lines {
		// the written text describes one tree, whoever reads it: the reference reader (which takes
		// every character between two metacharacters as the label) and gotree's own reader (which
		// drops blanks around labels, as Newick readers do) must deliver the same shape, labels,
		// lengths and supports - a label that carries a blank or a carriage return at its end is
		// text that describes another tree than the one in memory
		got, err := ref.Parse(l)
		if err != nil {
			return fmt.Errorf("tree %d: written text not readable by the reference reader: %v (%q)%s", i, err, l, ctx)
		}
		t, err := gt.Parse(l)
		if err != nil {
			return fmt.Errorf("tree %d: written text not readable by gotree's reader: %v (%q)%s", i, err, l, ctx)
		}
		if err := gt.Structural(t); err != nil {
			return fmt.Errorf("tree %d: %v (%q)%s", i, err, l, ctx)
		}
		again, err := gt.Extract(t)
		if err != nil {
			return fmt.Errorf("tree %d: %v%s", i, err, ctx)
		}
		if d := ref.Diff(gt.Printable(got), gt.Printable(again)); d != "" {
			return fmt.Errorf("tree %d: the written text does not describe one tree: the reference reader and gotree's reader differ: %s\n written %q%s", i, d, l, ctx)
		}
		if len(got.Tips()) != len(c.Trees[i].Tips()) || got.NNodes() != c.Trees[i].NNodes() {
			return fmt.Errorf("tree %d: %d tips and %d nodes written, the input tree has %d and %d%s", i, len(got.Tips()), got.NNodes(), len(c.Trees[i].Tips()), c.Trees[i].NNodes(), ctx)
		}
	}
	return nil
}

func TestC03CliRename(t *testing.T) {
	h.Run(t, h.Spec[RenameCase]{
		Property: "C03", Name: "cli-rename", Quick: 480, Thorough: 9600,
		Rule: "`gotree rename -m map.txt [-r] [-o file]` and `gotree rename -a --internal -m map.txt` on streams of 1-3 trees (3-10 tips, 5% up to 40; names unique over tips and inner nodes), the map naming a drawn subset of the tips and inner nodes plus names absent from the tree, new names fresh (some with a blank or a '%' inside), the map file with LF or CRLF line ends and with or without a final end-of-line, the input on stdin, in a file, in a gzip file or as a Nexus document: exit status 0, one line per tree, each line readable by the reference reader and by gotree's reader, both delivering the same tree (shape, labels, lengths, supports: a label ending in a blank or a carriage return is text that describes another tree), structurally well-formed, with the tip and node counts of the input; what the new names are is not judged (no listed property states it); non-trivial = at least two names of the tree are in the map (or --auto)",
		Gen: func(t *rapid.T, thorough bool) RenameCase {
			o := gen.Opts{MinTips: 3, MaxTips: 10, BigTips: 40, Rooted: -1, MaxDeg: 5, Lens: gen.AnyPresence, LenVals: gen.DyadicZ, Sups: gen.AnyPresence, InnerNames: gen.AnyPresence}
			c := RenameCase{Revert: rapid.Bool().Draw(t, "revert"), Auto: rapid.IntRange(0, 4).Draw(t, "auto") == 0, ToFile: rapid.IntRange(0, 2).Draw(t, "tofile") == 0}
			for i, n := 0, rapid.IntRange(1, 3).Draw(t, "ntrees"); i < n; i++ {
				c.Trees = append(c.Trees, gen.Tree(t, o))
			}
			seen := map[string]bool{}
			var names []string
			for _, m := range c.Trees {
				m.Walk(func(x, p *ref.Node) {
					if x.Name != "" && !seen[x.Name] {
						seen[x.Name] = true
						names = append(names, x.Name)
					}
				})
			}
			names = append(names, "zz_absent1", "zz_absent2")
			k := 0
			for _, n := range names {
				if rapid.IntRange(0, 2).Draw(t, "inmap") > 0 {
					k++
					nn := fmt.Sprintf("r%d", k)
					switch rapid.IntRange(0, 5).Draw(t, "newname") {
					case 0:
						nn = fmt.Sprintf("new name %d", k)
					case 1:
						nn = fmt.Sprintf("r%d_95%%", k)
					}
					c.Map = append(c.Map, [2]string{n, nn})
				}
			}
			if len(c.Map) > 1 {
				c.Map = rapid.Permutation(c.Map).Draw(t, "maporder")
			}
			return c
		},
		Check: checkRename,
		Classify: func(c RenameCase) (bool, []string) {
			l := []string{fmt.Sprintf("revert=%v", c.Revert), fmt.Sprintf("auto=%v", c.Auto)}
			in := 0
			for _, e := range c.Map {
				if !strings.HasPrefix(e[0], "zz_absent") {
					in++
				}
			}
			return c.Auto || in >= 2, l
		},
	})
}
