package c03

import (
	"fmt"
	"testing"

	"pgregory.net/rapid"

	"verif/internal/gen"
	"verif/internal/gt"
	"verif/internal/h"
	"verif/internal/ops"
	"verif/internal/ref"
)

func TestMain(m *testing.M) { h.Main(m) }

type Case struct {
	Start   *ref.Node `json:"start"`
	Indexed bool      `json:"indexed"`
	ViaAPI  bool      `json:"via_api"`
	Ops     []ops.Op  `json:"ops"`
}

func startOpts(thorough bool) gen.Opts {
	o := gen.Opts{MinTips: 3, MaxTips: 10, BigTips: 30, Rooted: -1, MaxDeg: 5,
		Lens: gen.AnyPresence, LenVals: gen.DyadicZ, Sups: gen.AnyPresence,
		InnerNames: gen.AnyPresence, Comments: false, SingleChild: true}
	if thorough {
		o.BigTips = 80
	}
	return o
}

type outcome struct {
	applied, failed, skipped int
	kinds                    map[string]bool
	rootedChange             bool
	seq                      []string
}

func run(c Case) (outcome, error) {
	var oc outcome
	oc.kinds = map[string]bool{}
	var st ops.State
	if c.ViaAPI {
		st.T = gt.Build(c.Start)
	} else {
		t, err := gt.FromModel(c.Start)
		if err != nil {
			return oc, fmt.Errorf("start tree rejected by the parser: %v", err)
		}
		st.T = t
	}
	if c.Indexed {
		if err := st.T.ReinitIndexes(); err != nil {
			return oc, fmt.Errorf("ReinitIndexes on the start tree: %v", err)
		}
	}
	if err := gt.Structural(st.T); err != nil {
		return oc, fmt.Errorf("start tree: %v", err)
	}
	for i, op := range c.Ops {
		before := st.T.Newick()
		wasRooted := st.T.Rooted()
		status, err := ops.Apply(&st, op)
		switch status {
		case ops.Skipped:
			oc.skipped++
			continue
		case ops.Failed:
			oc.failed++
			// several operations modify the tree before failing: continue from the
			// pre-operation text
			t, perr := gt.Parse(before)
			if perr != nil {
				return oc, fmt.Errorf("step %d (%s): text before the step is not parsable: %v", i, op.Kind, perr)
			}
			st.T = t
			continue
		}
		if err != nil {
			return oc, fmt.Errorf("step %d (%s): %v", i, op.Kind, err)
		}
		oc.applied++
		oc.kinds[op.Kind] = true
		oc.seq = append(oc.seq, op.Kind)
		if st.T.Rooted() != wasRooted {
			oc.rootedChange = true
		}
		if nt := len(st.T.Tips()); nt < 3 {
			// the removal of a non-monophyletic outgroup takes the whole clade of its common
			// ancestor, and a pruning may keep two tips: fewer than three tips can remain,
			// which ends the history (the operations are only required to cope with trees on
			// >= 3 tips). A two-tip result that was reported as a success is still judged.
			if serr := gt.Structural(st.T); serr != nil {
				return oc, fmt.Errorf("after step %d (%s) on %s: %d tip(s) remain, reported as a success: %v", i, op.Kind, clip(before), nt, serr)
			}
			oc.applied--
			break
		}
		if serr := gt.Structural(st.T); serr != nil {
			return oc, fmt.Errorf("after step %d (%s) on %s: %v", i, op.Kind, clip(before), serr)
		}
	}
	return oc, nil
}

func clip(s string) string {
	if len(s) > 300 {
		return s[:300] + "..."
	}
	return s
}

func TestC03Histories(t *testing.T) {
	h.Run(t, h.Spec[Case]{
		Property: "C03", Name: "histories", Quick: 16000, Thorough: 320000,
		Rule: "start tree (3..10 tips, 5% up to 30/80; rooted or not, multifurcating, optional single-child nodes, built by the parser or through the API, indexed or not) followed by 1..12 (quick) / 1..40 (thorough) operations of 44 kinds with drawn arguments (among them: a rearrangement applied, other edits that reorder neighbours or change labels, then its Undo); invariant checked after every successful step; non-trivial = >=3 successful edits of >=2 kinds on a tree that is multifurcating or changes rootedness",
		Gen: func(t *rapid.T, thorough bool) Case {
			max := 12
			if thorough {
				max = 40
			}
			so := startOpts(thorough)
			so.Comments = rapid.IntRange(0, 2).Draw(t, "comments") == 0 // node / root / branch comments must follow their node and branch through every edit
			c := Case{Start: gen.Tree(t, so), Indexed: rapid.Bool().Draw(t, "indexed"), ViaAPI: rapid.Bool().Draw(t, "api")}
			c.Ops = rapid.SliceOfN(rapid.Custom(func(t *rapid.T) ops.Op { return ops.GenOp(t, ops.Kinds) }), 1, max).Draw(t, "ops")
			// a rearrangement that is applied and kept is usually undone a little later, after edits that
			// reorder neighbours or change labels (the drawn list alone rarely produces that sequence)
			var seq []ops.Op
			for _, op := range c.Ops {
				seq = append(seq, op)
				if op.Kind == "nni_hold" && rapid.IntRange(0, 3).Draw(t, "holdseq") > 0 {
					for i, n := 0, rapid.IntRange(1, 2).Draw(t, "between"); i < n; i++ {
						seq = append(seq, ops.GenOp(t, []string{"sort", "rotate", "rotate_node", "rename_swap", "reinit", "scale_lengths"}))
					}
					seq = append(seq, ops.Op{Kind: "nni_release"})
				}
			}
			c.Ops = seq
			return c
		},
		Check: func(c Case) error { _, err := run(c); return err },
		Classify: func(c Case) (bool, []string) {
			oc, _ := run(c)
			var l []string
			for k := range oc.kinds {
				l = append(l, "op:"+k)
			}
			if oc.failed > 0 {
				l = append(l, "has-failed-step")
			}
			multi := c.Start.MaxDegree() > 3
			if multi {
				l = append(l, "multifurcating-start")
			}
			if len(c.Start.Ch) == 2 {
				l = append(l, "rooted-start")
			}
			if c.Start.HasSingleChildInner() {
				l = append(l, "single-child-start")
			}
			for i := 0; i+1 < len(oc.seq); i++ {
				if oc.seq[i] == "graft" && oc.seq[i+1] == "prune" {
					l = append(l, "graft-then-prune")
				}
			}
			return oc.applied >= 3 && len(oc.kinds) >= 2 && (multi || oc.rootedChange), l
		},
		Anchors: anchors(),
	})
}

func anchors() []Case {
	f := ref.F
	rootedMulti := &ref.Node{Ch: []*ref.Node{
		{Len: f(0.5), Sup: f(0.2), Ch: []*ref.Node{{Name: "a", Len: f(1)}, {Name: "b", Len: f(1)}, {Len: f(0), Sup: f(0.9), Ch: []*ref.Node{{Name: "c", Len: f(1)}, {Name: "d", Len: f(2)}, {Name: "e", Len: f(1)}}}}},
		{Len: f(0.5), Ch: []*ref.Node{{Name: "f", Len: f(1)}, {Name: "g", Len: f(0.25)}}},
	}}
	return []Case{
		{Start: rootedMulti, Ops: []ops.Op{{Kind: "collapse_len", F: []float64{0}, B: []bool{false, false}}, {Kind: "reroot", Sel: []int{2}}, {Kind: "prune", Sel: []int{0, 5}, B: []bool{false}}}},
		{Start: rootedMulti, Indexed: true, Ops: []ops.Op{{Kind: "nni", Sel: []int{0}}, {Kind: "nni_undo", Sel: []int{1}}, {Kind: "nni_double", Sel: []int{2}}}},
		{Start: rootedMulti, Ops: []ops.Op{{Kind: "graft", Sel: []int{1}, Graft: &ref.Node{Ch: []*ref.Node{{Name: "x"}, {Name: "y"}, {Name: "z"}}}}, {Kind: "prune", Sel: []int{0, 1, 2}, B: []bool{false}}}},
		{Start: rootedMulti, Ops: []ops.Op{{Kind: "outgroup", Sel: []int{0, 5}, B: []bool{false, true}}, {Kind: "midpoint"}}},
	}
}
