package c03

import (
	"testing"

	"pgregory.net/rapid"

	"verif/internal/big"
	"verif/internal/h"
	"verif/internal/ops"
	"verif/internal/ref"
)

// ---------------------------------------------------------------------------------------
// huge: start trees beyond the 2000-element capacities the tree code preallocates for its lists
// (a star or a node with more than 2000 neighbours, a caterpillar 2100 levels deep, a bushy tree
// with 2500 tips), followed by short drawn histories of the same operations and the same invariant.

type HugeCase struct {
	Shape   string `json:"shape"` // star | wide | caterpillar | bushy
	N       int    `json:"n"`
	HistNo  int    `json:"hist_no"`
	Indexed bool   `json:"indexed"`
}

func hugeStart(c HugeCase) *ref.Node { return big.Model(c.Shape, c.N) }

func hugeCaseOf(c HugeCase) Case {
	start := hugeStart(c)
	// the first operation is one that takes a neighbour out of a node or puts one in (the kinds taken
	// in turn), the others are drawn from all kinds
	first := []string{"prune", "midpoint", "graft", "outgroup", "reroot", "identical", "graft_tip_on_edge", "resolve", "subtree", "collapse_len"}[c.HistNo%10]
	hist := rapid.Custom(func(t *rapid.T) []ops.Op {
		l := []ops.Op{ops.GenOp(t, []string{first})}
		return append(l, rapid.SliceOfN(rapid.Custom(func(t *rapid.T) ops.Op { return ops.GenOp(t, ops.Kinds) }), 3, 5).Draw(t, "ops")...)
	}).Example(c.N*100 + c.HistNo)
	return Case{Start: start, Indexed: c.Indexed, Ops: hist}
}

func TestC03Huge(t *testing.T) {
	r := h.NewRecorder(t, "C03", "huge", "constructed start trees - star with 2000, 2001, 2002 and 2500 tips, an inner node with 2001 / 2500 children inside a small tree, an unrooted caterpillar with 2100 tips, a bushy tree (2-4 children per node) with 2500 tips; indexed or not - each followed by 2 (thorough 10) histories of 4..6 drawn operations, the first one a pruning, midpoint or outgroup rooting, graft, tip insertion, resolution, subtree extraction or collapse in turn; same invariant after every successful step as the histories check; non-trivial = at least two steps succeeded")
	var rc HugeCase
	if replaying, mine := r.ReplayCase(&rc); replaying {
		if mine {
			_, err := run(hugeCaseOf(rc))
			r.Replayed(err)
		}
		return
	}
	type sz struct {
		shape string
		n     int
	}
	nh := 2
	if h.Thorough() {
		nh = 10
	}
	k := 0
	for _, s := range []sz{{"star", 2000}, {"star", 2001}, {"star", 2002}, {"star", 2500}, {"wide", 2005}, {"wide", 2504}, {"caterpillar", 2100}, {"bushy", 2500}} {
		for hn := 0; hn < nh; hn++ {
			k++
			if k%h.NShards() != h.Shard() {
				continue
			}
			c := HugeCase{Shape: s.shape, N: s.n, HistNo: int(h.Seed())*10 + hn, Indexed: hn%2 == 0}
			var oc outcome
			var err error
			if gerr := r.Guard(c, 300e9, func() error { oc, err = run(hugeCaseOf(c)); return nil }); gerr != nil {
				err = gerr
			}
			r.Eval(c, oc.applied >= 2, "shape:"+s.shape)
			if err != nil {
				r.Fail(c, "%v", err)
			}
		}
	}
}
