package c09

import (
	"errors"
	"fmt"
	"math"
	"math/big"
	"sort"
	"strconv"
	"strings"
	"testing"

	"pgregory.net/rapid"

	"github.com/evolbioinfo/gotree/tree"

	"verif/internal/cli"
	"verif/internal/gen"
	"verif/internal/gt"
	"verif/internal/h"
	"verif/internal/ref"
)

func TestMain(m *testing.M) { h.Main(m) }

// memSel: selectors of in-memory re-rootings applied to the trees after parsing (set from the
// case at the start of each check; cases are evaluated one at a time). The oracles of this
// property do not depend on the rooting, but a tree re-rooted in memory is in a state (parent not
// first among a node's neighbours) that no freshly parsed tree has.
var memSel []int

func mem(i int) int {
	if len(memSel) == 0 {
		return 0
	}
	return memSel[i%len(memSel)]
}

func parseMem(m *ref.Node, i int) (*tree.Tree, error) {
	t, err := gt.FromModel(m)
	if err != nil {
		return nil, err
	}
	if err := gt.RerootInMemory(t, mem(i)); err != nil {
		return nil, fmt.Errorf("Reroot failed: %v", err)
	}
	return t, nil
}

// CloneSpec: member I of the collection is not parsed from text but made in memory from member J
// (J < I, indexed beforehand): Clone, exchange the names of tips A and B, re-index. Trees[I] is
// the model of that result.
type CloneSpec struct {
	I int    `json:"i"`
	J int    `json:"j"`
	A string `json:"a"`
	B string `json:"b"`
}

// cloneSel: the clone specifications of the collection being fed (set by check for c.Trees only).
var cloneSel []CloneSpec

type Case struct {
	Clones []CloneSpec `json:"clones,omitempty"`
	Trees  []*ref.Node `json:"trees"`
	Alt    []*ref.Node `json:"alt"` // permuted, re-presented collection
	Cutoff float64     `json:"cutoff"`
	Mem    []int       `json:"mem,omitempty"` // in-memory re-rootings of the parsed trees (0 = none)
}

func baseOpts(thorough bool) gen.Opts {
	o := gen.Opts{MinTips: 4, MaxTips: 10, BigTips: 30, Rooted: -1, MaxDeg: 5, Lens: gen.All, LenVals: gen.AnyValue}
	if thorough {
		o.BigTips = 100
	}
	return o
}

func genCollection(t *rapid.T, thorough bool, min int) []*ref.Node {
	base := gen.Tree(t, baseOpts(thorough))
	max := 12
	if thorough && rapid.IntRange(0, 19).Draw(t, "many") == 0 {
		max = 60
	}
	n := rapid.IntRange(min, max).Draw(t, "ntrees")
	// a few distinct variants, repeated, so that frequencies spread over 1/n .. n/n
	nv := rapid.IntRange(1, 4).Draw(t, "nvariants")
	variants := []*ref.Node{base}
	for i := 1; i < nv; i++ {
		variants = append(variants, gen.Perturb(t, variants[rapid.IntRange(0, len(variants)-1).Draw(t, "from")], rapid.IntRange(1, 2).Draw(t, "np"), true, gen.DyadicZ))
	}
	var out []*ref.Node
	for i := 0; i < n; i++ {
		v := variants[rapid.IntRange(0, len(variants)-1).Draw(t, "variant")]
		switch rapid.IntRange(0, 3).Draw(t, "present") {
		case 0:
			v = gen.Represent(t, v)
		case 1:
			v = rootOnBranch(t, v)
		default:
			v = v.Clone()
		}
		// length jitter so that means are not trivial
		if rapid.Bool().Draw(t, "jitter") {
			v.Walk(func(x, p *ref.Node) {
				if p != nil && rapid.IntRange(0, 2).Draw(t, "j") == 0 {
					x.Len = ref.F(gen.Length(t, gen.Dyadic))
				}
			})
		}
		out = append(out, v)
	}
	return out
}

func rootOnBranch(t *rapid.T, m *ref.Node) *ref.Node {
	c := m.Clone()
	all := c.All()
	x := all[rapid.IntRange(1, len(all)-1).Draw(t, "rootbranch")]
	p := c.Parents()[x]
	mid := &ref.Node{Ch: []*ref.Node{x}}
	if x.Len != nil {
		half := *x.Len / 2
		mid.Len = ref.F(half)
		x.Len = ref.F(half)
	}
	for i, ch := range p.Ch {
		if ch == x {
			p.Ch[i] = mid
		}
	}
	r := ref.RerootAt(c, mid)
	return suppressBelow(r)
}

// suppressBelow removes single-child nodes below the root (summing lengths).
func suppressBelow(r *ref.Node) *ref.Node {
	var fix func(n *ref.Node)
	fix = func(n *ref.Node) {
		for i, c := range n.Ch {
			for !c.IsTip() && len(c.Ch) == 1 {
				g := c.Ch[0]
				if c.Len != nil || g.Len != nil {
					s := 0.0
					if c.Len != nil {
						s += *c.Len
					}
					if g.Len != nil {
						s += *g.Len
					}
					g.Len = ref.F(s)
				}
				c = g
				n.Ch[i] = g
			}
			fix(c)
		}
	}
	fix(r)
	return r
}

func cutoff(t *rapid.T, n int) float64 {
	if rapid.Bool().Draw(t, "dyadic") {
		return rapid.SampledFrom([]float64{0.5, 0.625, 0.75, 0.875, 1}).Draw(t, "cut")
	}
	if rapid.IntRange(0, 2).Draw(t, "near") == 0 {
		// just below or just above an attainable frequency k/n (by 1e-8, 1e-7 or 1e-5: far more than the
		// rounding error of cutoff*n, far less than any tolerance one might be tempted to add)
		k := rapid.IntRange((n+1)/2, n).Draw(t, "neark")
		d := rapid.SampledFrom([]float64{1e-8, -1e-8, 1e-7, -1e-7, 1e-5, -1e-5}).Draw(t, "neard")
		if c := float64(k)/float64(n) + d; c >= 0.5 && c <= 1 {
			return c
		}
	}
	for {
		c := rapid.Float64Range(0.5, 1).Draw(t, "cutf")
		ok := true
		for k := 0; k <= n; k++ {
			if math.Abs(c-float64(k)/float64(n)) < 1e-9 {
				ok = false
			}
		}
		if ok {
			return c
		}
	}
}

func feed(models []*ref.Node) (<-chan tree.Trees, error) {
	ch := make(chan tree.Trees, len(models)+1)
	built := make([]*tree.Tree, len(models))
	spec := map[int]CloneSpec{}
	src := map[int]bool{}
	for _, cs := range cloneSel {
		if cs.I < len(models) && cs.J < cs.I {
			spec[cs.I] = cs
			src[cs.J] = true
		}
	}
	for i, m := range models {
		var t *tree.Tree
		var err error
		if cs, ok := spec[i]; ok {
			t = built[cs.J].Clone()
			for _, tip := range t.Tips() {
				switch tip.Name() {
				case cs.A:
					tip.SetName(cs.B)
				case cs.B:
					tip.SetName(cs.A)
				}
			}
			err = t.ReinitIndexes()
		} else {
			t, err = parseMem(m, i+1)
		}
		if err != nil {
			return nil, err
		}
		if src[i] {
			// a tree that was used (indexed) before it is copied
			if err := t.ReinitIndexes(); err != nil {
				return nil, err
			}
		}
		built[i] = t
		ch <- tree.Trees{Tree: t, Id: i}
	}
	close(ch)
	return ch, nil
}

func swapNames(m *ref.Node, a, b string) *ref.Node {
	c := m.Clone()
	for _, tip := range c.TipNodes() {
		switch tip.Name {
		case a:
			tip.Name = b
		case b:
			tip.Name = a
		}
	}
	return c
}

type entry struct {
	count int
	len   float64
	nolen int // occurrences (branches in series counted once) lacking a length
}

func dyadicAll(ms []*ref.Node) bool { return gen.AllDyadicExact(ms) }

func expectedTable(trees []*ref.Node) (*ref.Taxa, map[string]*entry, map[string]bool, error) {
	tx, err := ref.NewTaxa(trees[0].Tips())
	if err != nil {
		return nil, nil, nil, err
	}
	table := map[string]*entry{}
	trivial := map[string]bool{}
	for _, m := range trees {
		u, err := ref.UnrootedOn(m, tx)
		if err != nil {
			return nil, nil, nil, err
		}
		for k, s := range u.Splits {
			e := table[k]
			if e == nil {
				e = &entry{}
				table[k] = e
			}
			e.count++
			e.len += s.Len
			if !s.AllLen {
				e.nolen++
			}
			trivial[k] = s.Trivial
		}
	}
	return tx, table, trivial, nil
}

func checkAgainst(trees []*ref.Node, cut float64, tx *ref.Taxa, table map[string]*entry, trivial map[string]bool, exact bool) error {
	ch, err := feed(trees)
	if err != nil {
		return err
	}
	cons, err := tree.Consensus(ch, cut)
	if err != nil {
		return fmt.Errorf("Consensus failed: %v", err)
	}
	if err := gt.Structural(cons); err != nil {
		return fmt.Errorf("consensus tree malformed: %v", err)
	}
	m, err := gt.Read(cons)
	if err != nil {
		return err
	}
	return compareConsensus(m, len(trees), cut, tx, table, trivial, exact)
}

// compareConsensus judges a consensus tree (reference reading of its text) against the frequency table.
func compareConsensus(m *ref.Node, n int, cut float64, tx *ref.Taxa, table map[string]*entry, trivial map[string]bool, exact bool) error {
	u, err := ref.UnrootedOn(m, tx)
	if err != nil {
		return fmt.Errorf("consensus tree: %v (%s)", err, ref.Write(m))
	}
	rc := new(big.Rat).SetFloat64(cut)
	for k, e := range table {
		freq := big.NewRat(int64(e.count), int64(n))
		keep := freq.Cmp(rc) > 0 || e.count == n
		s, present := u.Splits[k]
		if trivial[k] {
			if !present {
				return fmt.Errorf("tip split %v missing", tx.KeyNames(k))
			}
			if e.count != n {
				return fmt.Errorf("harness: tip split counted %d times in %d trees", e.count, n)
			}
			if !s.AllLen && e.nolen == 0 {
				return fmt.Errorf("tip branch %v has no length in the consensus, every input tree gives it one (mean %v)", tx.KeyNames(k), e.len/float64(n))
			}
			if want := e.len / float64(n); !ref.Close(s.Len, want, exact) {
				return fmt.Errorf("tip branch %v has length %v, mean over the trees is %v", tx.KeyNames(k), s.Len, want)
			}
			continue
		}
		if keep != present {
			return fmt.Errorf("split %v occurs in %d of %d trees, threshold %v: kept=%v", tx.KeyNames(k), e.count, n, cut, present)
		}
		if !present {
			continue
		}
		if s.N != 1 {
			return fmt.Errorf("split %v appears on %d branches of the consensus", tx.KeyNames(k), s.N)
		}
		wantSup := float64(e.count) / float64(n)
		if len(s.Sups) != 1 || s.Sups[0] != wantSup {
			return fmt.Errorf("split %v: support %v, expected frequency %v", tx.KeyNames(k), s.Sups, wantSup)
		}
		if !s.AllLen && e.nolen == 0 {
			return fmt.Errorf("split %v has no length in the consensus, every tree containing it gives it one (mean %v)", tx.KeyNames(k), e.len/float64(e.count))
		}
		if want := e.len / float64(e.count); !ref.Close(s.Len, want, exact) {
			return fmt.Errorf("split %v: length %v, mean over the %d trees containing it is %v", tx.KeyNames(k), s.Len, e.count, want)
		}
	}
	for k, s := range u.Splits {
		if _, ok := table[k]; !ok && !s.Trivial {
			return fmt.Errorf("consensus contains split %v that occurs in no input tree", tx.KeyNames(k))
		}
	}
	return nil
}

func check(c Case) error {
	memSel = c.Mem
	defer func() { memSel = nil }()
	tx, table, trivial, err := expectedTable(c.Trees)
	if err != nil {
		return err
	}
	exact := dyadicAll(c.Trees)
	ctx := func() string {
		s := fmt.Sprintf("\n cutoff %v", c.Cutoff)
		for _, m := range c.Trees {
			s += "\n " + ref.Write(m)
		}
		return s
	}
	cloneSel = c.Clones
	err = checkAgainst(c.Trees, c.Cutoff, tx, table, trivial, exact)
	cloneSel = nil
	if err != nil {
		return fmt.Errorf("%v%s", err, ctx())
	}
	if err := checkAgainst(c.Alt, c.Cutoff, tx, table, trivial, exact); err != nil {
		s := ""
		for _, m := range c.Alt {
			s += "\n " + ref.Write(m)
		}
		return fmt.Errorf("after permuting / re-rooting the inputs: %v%s\n permuted collection:%s", err, ctx(), s)
	}
	return nil
}

func TestC09Consensus(t *testing.T) {
	h.Run(t, h.Spec[Case]{
		Property: "C09", Name: "consensus", Quick: 6000, Thorough: 300000,
		Rule: "collections of 1..12 (5% up to 60 thorough) trees on the same 4..10 (30/100) taxa: 1..4 topological variants repeated, each member possibly re-rooted at a node, rooted on a branch, rotated, with jittered lengths; in a third of the collections some members are made in memory (Clone of an earlier, already indexed member, two tip names exchanged, re-indexed) instead of parsed; thresholds dyadic {0.5,.625,.75,.875,1} or arbitrary in [0.5,1] at least 1e-9 from every k/n; oracle = naive frequency table over reference split maps with exact rationals, supports = count/n, lengths = means; the same expectation must hold for a permuted and re-presented copy of the collection; non-trivial = >=3 trees, >=1 split kept and >=1 rejected",
		Gen: func(t *rapid.T, thorough bool) Case {
			trees := genCollection(t, thorough, 1)
			var clones []CloneSpec
			if rapid.IntRange(0, 2).Draw(t, "withclones") == 0 {
				for i := 1; i < len(trees); i++ {
					if rapid.IntRange(0, 2).Draw(t, "isclone") == 0 {
						tips := trees[0].Tips()
						ab := gen.Subset(t, tips, 2, 2, "swap")
						cs := CloneSpec{I: i, J: rapid.IntRange(0, i-1).Draw(t, "cloneof"), A: ab[0], B: ab[1]}
						trees[i] = swapNames(trees[cs.J], cs.A, cs.B)
						clones = append(clones, cs)
					}
				}
			}
			c := Case{Trees: trees, Clones: clones, Cutoff: cutoff(t, len(trees))}
			if rapid.Bool().Draw(t, "mem") {
				c.Mem = rapid.SliceOfN(rapid.IntRange(0, 50), 1, 6).Draw(t, "memsel")
			}
			perm := rapid.Permutation(trees).Draw(t, "perm")
			for _, m := range perm {
				switch rapid.IntRange(0, 2).Draw(t, "altp") {
				case 0:
					c.Alt = append(c.Alt, gen.Represent(t, m))
				case 1:
					c.Alt = append(c.Alt, rootOnBranch(t, m))
				default:
					c.Alt = append(c.Alt, m)
				}
			}
			return c
		},
		Check: check,
		Classify: func(c Case) (bool, []string) {
			_, table, trivial, err := expectedTable(c.Trees)
			if err != nil {
				return false, nil
			}
			n := len(c.Trees)
			rc := new(big.Rat).SetFloat64(c.Cutoff)
			kept, rej, tie := 0, 0, false
			for k, e := range table {
				if trivial[k] {
					continue
				}
				f := big.NewRat(int64(e.count), int64(n))
				if f.Cmp(rc) == 0 {
					tie = true
				}
				if f.Cmp(rc) > 0 || e.count == n {
					kept++
				} else {
					rej++
				}
			}
			var l []string
			if tie {
				l = append(l, "frequency==threshold")
			}
			for _, m := range c.Trees {
				if len(m.Ch) == 2 {
					l = append(l, "rooted-member")
					break
				}
			}
			for _, m := range c.Trees {
				if m.MaxDegree() > 3 {
					l = append(l, "multifurcating-member")
					break
				}
			}
			if c.Cutoff == 1 {
				l = append(l, "cutoff=1")
			}
			if n >= 13 {
				l = append(l, "trees>12")
			}
			if len(c.Clones) > 0 {
				l = append(l, "modified-clone-member")
			}
			return n >= 3 && kept >= 1 && rej >= 1, l
		},
	})
}

// ---------------------------------------------------------------------------------------

type RejCase struct {
	Trees  []*ref.Node `json:"trees"`
	Kind   string      `json:"kind"` // cutoff-low, cutoff-high, renamed, added, removed, error-record
	Pos    int         `json:"pos"`
	Cutoff float64     `json:"cutoff"`
}

func checkRej(c RejCase) error {
	trees := append([]*ref.Node{}, c.Trees...)
	pos := c.Pos % len(trees)
	switch c.Kind {
	case "renamed", "added", "removed", "duplicate":
		if pos == 0 && len(trees) == 1 {
			return nil
		}
	}
	if c.Kind == "empty" {
		trees = nil // a collection without any tree (a file that holds none)
	}
	ch := make(chan tree.Trees, len(trees)+1)
	for i, m := range trees {
		if c.Kind == "error-record" && i == pos {
			ch <- tree.Trees{Tree: nil, Id: i, Err: errors.New("injected")}
			continue
		}
		t, err := gt.FromModel(m)
		if err != nil {
			return err
		}
		ch <- tree.Trees{Tree: t, Id: i}
	}
	close(ch)
	cons, err := tree.Consensus(ch, c.Cutoff)
	if err == nil {
		text := ""
		if cons != nil {
			text = cons.Newick()
		}
		return fmt.Errorf("%s at position %d (cutoff %v) accepted, result %s", c.Kind, pos, c.Cutoff, text)
	}
	return nil
}

func TestC09Reject(t *testing.T) {
	h.Run(t, h.Spec[RejCase]{
		Property: "C09", Name: "reject", Quick: 3000, Thorough: 100000,
		Rule: "collections of 2..8 trees with a threshold below 0.5 / above 1, or with one member whose taxon set differs (one tip renamed, added, removed, or carrying the name of another tip) at every position, or an error record in the stream, or no tree at all: Consensus must return an error; every case is non-trivial",
		Gen: func(t *rapid.T, thorough bool) RejCase {
			trees := genCollection(t, false, 2)
			if len(trees) > 8 {
				trees = trees[:8]
			}
			c := RejCase{Trees: trees, Kind: rapid.SampledFrom([]string{"cutoff-low", "cutoff-high", "renamed", "added", "removed", "duplicate", "error-record", "empty"}).Draw(t, "kind"),
				Pos: rapid.IntRange(0, 7).Draw(t, "pos"), Cutoff: 0.5}
			pos := c.Pos % len(trees)
			switch c.Kind {
			case "cutoff-low":
				c.Cutoff = rapid.SampledFrom([]float64{0.49999, 0, -1, 0.25}).Draw(t, "cl")
			case "cutoff-high":
				c.Cutoff = rapid.SampledFrom([]float64{1.0000001, 2, 100}).Draw(t, "chh")
			case "renamed":
				m := trees[pos].Clone()
				m.TipNodes()[rapid.IntRange(0, len(m.Tips())-1).Draw(t, "rt")].Name = "zz_other"
				c.Trees[pos] = m
			case "duplicate":
				// same number of tips: one taxon is missing, another one is there twice
				m := trees[pos].Clone()
				tn := m.TipNodes()
				i, j := rapid.IntRange(0, len(tn)-1).Draw(t, "d1"), rapid.IntRange(0, len(tn)-1).Draw(t, "d2")
				if i == j {
					tn[i].Name = "zz_other"
				} else {
					tn[i].Name = tn[j].Name
				}
				c.Trees[pos] = m
			case "added":
				m := trees[pos].Clone()
				x := m.TipNodes()[rapid.IntRange(0, len(m.Tips())-1).Draw(t, "at")]
				x.Ch = []*ref.Node{{Name: x.Name, Len: ref.F(1)}, {Name: "zz_extra", Len: ref.F(1)}}
				x.Name = ""
				c.Trees[pos] = m
			case "removed":
				m := trees[pos]
				tips := m.Tips()
				if len(tips) <= 4 {
					c.Kind = "cutoff-low"
					c.Cutoff = 0.25
					break
				}
				drop := tips[rapid.IntRange(0, len(tips)-1).Draw(t, "dt")]
				c.Trees[pos] = ref.Restrict(m, func(n string) bool { return n != drop })
			}
			return c
		},
		Check: checkRej,
		Classify: func(c RejCase) (bool, []string) {
			return true, []string{"kind:" + c.Kind, fmt.Sprintf("pos-first=%v", c.Pos%len(c.Trees) == 0)}
		},
	})
}

// ---------------------------------------------------------------------------------------
// command level: gotree compute consensus [-f cutoff]

type CliCase struct {
	Trees   []*ref.Node `json:"trees"`
	Cutoff  float64     `json:"cutoff"`
	OmitF   bool        `json:"omit_f"` // leave -f out: the documented default 0.5 applies
	Threads int         `json:"threads"`
}

func checkCli(c CliCase) error {
	if !cli.Available() {
		return fmt.Errorf("harness: gotree binary not built")
	}
	tx, table, trivial, err := expectedTable(c.Trees)
	if err != nil {
		return err
	}
	var in strings.Builder
	for _, m := range c.Trees {
		in.WriteString(ref.Write(m) + "\n")
	}
	args := []string{"compute", "consensus"}
	cut := c.Cutoff
	if c.OmitF {
		cut = 0.5
	} else {
		args = append(args, "-f", strconv.FormatFloat(c.Cutoff, 'g', -1, 64))
	}
	dir := cli.Scratch()
	toFile := len(c.Trees)%3 == 0
	if toFile {
		args = append(args, "-o", "cons.nw")
	}
	// the collection on stdin, in a file (LF or CRLF line ends, one of the layouts of
	// cli.TreesLayout), in a gzip file or as a Nexus document
	extra, stdin, infiles, _ := cli.Present(cli.InModes[(len(in.String())+len(c.Trees))%len(cli.InModes)], in.String(), "-i")
	for n, content := range infiles {
		cli.WriteIn(dir, n, content)
	}
	args = append(args, extra...)
	r := cli.Run(dir, stdin, args...)
	ctx := fmt.Sprintf(" (gotree %v)\n%s", args, in.String())
	if !c.OmitF && (c.Cutoff < 0.5 || c.Cutoff > 1) {
		// a threshold outside [0.5,1] is refused (the consensus would not be a tree / is not defined)
		if r.TimedOut || r.Panicked() {
			return fmt.Errorf("command hangs or crashes on the threshold %v%s", c.Cutoff, ctx)
		}
		if r.Code == 0 {
			return fmt.Errorf("the threshold %v is outside [0.5,1] and is accepted: exit status 0, output %q%s", c.Cutoff, r.Stdout+cli.Read(dir, "cons.nw"), ctx)
		}
		return nil
	}
	if r.Code != 0 || r.TimedOut {
		return fmt.Errorf("command failed with status %d: %s%s", r.Code, r.Stderr, ctx)
	}
	if toFile {
		r.Stdout = cli.Read(dir, "cons.nw")
	}
	m, err := ref.Parse(strings.TrimRight(r.Stdout, "\r\n"))
	if err != nil {
		return fmt.Errorf("output not readable: %v%s", err, ctx)
	}
	if err := compareConsensus(m, len(c.Trees), cut, tx, table, trivial, dyadicAll(c.Trees)); err != nil {
		return fmt.Errorf("%v%s", err, ctx)
	}
	return nil
}

func TestC09Cli(t *testing.T) {
	h.Run(t, h.Spec[CliCase]{
		Property: "C09", Name: "cli", Quick: 1600, Thorough: 32000,
		Rule: "the same collections and thresholds through `gotree compute consensus -f x`, and with -f left out (documented default 0.5), the collection handed over on stdin, in a file with LF or CRLF line ends and the layouts of tree files met in practice, in a gzip file or as a Nexus document: the printed tree is judged against the same frequency table; one case in eight passes a threshold outside [0.5,1] (0.3, 1.5, 50, 75, 100 ...), which must be refused with a non-zero status; non-trivial = >= 3 trees",
		Gen: func(t *rapid.T, thorough bool) CliCase {
			trees := genCollection(t, false, 1)
			c := CliCase{Trees: trees, Cutoff: cutoff(t, len(trees)), OmitF: rapid.IntRange(0, 3).Draw(t, "omitf") == 0}
			if !c.OmitF && rapid.IntRange(0, 3).Draw(t, "nearcount") == 0 {
				// a threshold typed with eight or nine decimals, just above or below the frequency of a split
				// that is in the collection (the option is a text that the command turns into a number)
				if _, table, trivial, err := expectedTable(trees); err == nil {
					var counts []int
					for k, e := range table {
						if !trivial[k] && 2*e.count >= len(trees) {
							counts = append(counts, e.count)
						}
					}
					sort.Ints(counts)
					if len(counts) > 0 {
						k := counts[rapid.IntRange(0, len(counts)-1).Draw(t, "nearcountk")]
						d := rapid.SampledFrom([]float64{1e-8, -1e-8, 3e-8, -3e-8, 2e-9, -2e-9}).Draw(t, "nearcountd")
						if f := float64(k)/float64(len(trees)) + d; f >= 0.5 && f <= 1 {
							c.Cutoff = f
						}
					}
				}
			}
			if !c.OmitF && rapid.IntRange(0, 7).Draw(t, "badcut") == 3 {
				c.Cutoff = rapid.SampledFrom([]float64{0.3, 0.49, 0, -1, 1.0001, 1.5, 2, 30, 50, 60, 75, 100, 150}).Draw(t, "cutbad")
			}
			return c
		},
		Check: checkCli,
		Classify: func(c CliCase) (bool, []string) {
			return len(c.Trees) >= 3, []string{fmt.Sprintf("omit-f=%v", c.OmitF)}
		},
	})
}
