package c09

import (
	"fmt"
	"testing"

	"verif/internal/big"
	"verif/internal/h"
	"verif/internal/ref"
)

// huge: constructed trees of 2100-2500 tips (internal/big) and variants of them that differ by
// nearest-neighbour interchanges at a few dozen branches - more branches than the 2000 the tree
// code preallocates room for - judged by the same oracle as the drawn cases.

type HugeCase struct {
	Shape string `json:"shape"`
	N     int    `json:"n"`
	K     int    `json:"k"`
}

func checkHuge(c HugeCase) error {
	m := big.Model(c.Shape, c.N)
	v1, v2 := big.Variant(m, c.K, 53), big.Variant(m, c.K+1, 97)
	trees := []*ref.Node{m, v1, big.Represent(m), v2, big.Represent(v1)}
	alt := []*ref.Node{big.Represent(v2), m, v1, big.Represent(v1), big.Represent(m)}
	return check(Case{Trees: trees, Alt: alt, Cutoff: 0.5})
}

func TestC09Huge(t *testing.T) {
	r := h.NewRecorder(t, "C09", "huge", "five trees on 2100-2500 tips (a constructed tree twice, two variants differing by interchanges at one branch in 53 / 97, one of them twice), threshold 0.5: the consensus judged by the same frequency table as the drawn cases, and the same collection permuted and re-presented; every case is non-trivial")
	var rc HugeCase
	if replaying, mine := r.ReplayCase(&rc); replaying {
		if mine {
			r.Replayed(checkHuge(rc))
		}
		return
	}
	for k, c := range []HugeCase{{Shape: "binary", N: 2100}, {Shape: "bushy", N: 2500}, {Shape: "caterpillar", N: 2100}} {
		if k%h.NShards() != h.Shard() {
			continue
		}
		c.K = int(h.Seed())
		c := c
		var err error
		if gerr := r.Guard(c, 600e9, func() error { err = checkHuge(c); return nil }); gerr != nil {
			err = gerr
		}
		r.Eval(c, true, fmt.Sprintf("shape:%s", c.Shape))
		if err != nil {
			msg := err.Error()
			if len(msg) > 900 {
				msg = msg[:900] + "..."
			}
			r.Fail(c, "%s", msg)
		}
	}
}

var _ = ref.Write
