package c15

import (
	"strings"
	"testing"

	"pgregory.net/rapid"

	"github.com/evolbioinfo/gotree/tree"

	"verif/internal/cli"
	"verif/internal/gt"
	"verif/internal/h"
	"verif/internal/ref"
)

// Command level: `gotree graft`, `merge`, `repopulate`, `subtree`, `collapse single` print what the
// library calls (judged by the `edits` check) give on the same input.

func checkCli(c Case) error {
	text := ref.Write(c.Tree) + "\n"
	switch c.Kind {
	case "graft":
		tips := c.Tree.TipNodes()
		tip := tips[c.Sel%len(tips)].Name
		c.Other = keepName(c, tip)
		return cli.DifferentialIn([]string{"graft", "-c", "graft.nw", "-l", tip}, text, map[string]string{"graft.nw": ref.Write(c.Other) + "\n"}, c15out(c), c15in(c), func() (string, error) {
			t, err := load(c.Tree, false)
			if err != nil {
				return "", err
			}
			if err := t.UpdateTipIndex(); err != nil {
				return "", err
			}
			g, err := load(c.Other, false)
			if err != nil {
				return "", err
			}
			if err := t.GraftTreeOnTip(tip, g); err != nil {
				return "", err
			}
			return t.Newick() + "\n", nil
		})
	case "merge":
		return cli.DifferentialIn([]string{"merge", "-i", "a.nw", "-c", "b.nw"}, "", map[string]string{"a.nw": text, "b.nw": ref.Write(c.Other) + "\n"}, c15out(c), c15in(c), func() (string, error) {
			a, err := load(c.Tree, false)
			if err != nil {
				return "", err
			}
			b, err := load(c.Other, false)
			if err != nil {
				return "", err
			}
			if err := a.UpdateTipIndex(); err != nil {
				return "", err
			}
			if err := b.UpdateTipIndex(); err != nil {
				return "", err
			}
			if err := a.Merge(b); err != nil {
				return "", err
			}
			return a.Newick() + "\n", nil
		})
	case "identical":
		var g strings.Builder
		for _, grp := range c.Groups {
			g.WriteString(strings.Join(grp, ",") + "\n")
		}
		return cli.DifferentialIn([]string{"repopulate", "-g", "groups.txt"}, text, map[string]string{"groups.txt": g.String()}, c15out(c), c15in(c), func() (string, error) {
			t, err := load(c.Tree, false)
			if err != nil {
				return "", err
			}
			if err := t.UpdateTipIndex(); err != nil {
				return "", err
			}
			if err := t.InsertIdenticalTips(c.Groups); err != nil {
				return "", err
			}
			return t.Newick() + "\n", nil
		})
	case "single":
		// a stream: the tree, a second one (the graft/other tree when there is one) and the tree again
		stream := []*ref.Node{c.Tree, c.Tree}
		if c.Other != nil {
			stream = []*ref.Node{c.Tree, c.Other, c.Tree}
		}
		in := ""
		for _, m := range stream {
			in += ref.Write(m) + "\n"
		}
		return cli.DifferentialIn([]string{"collapse", "single"}, in, nil, c15out(c), c15in(c), func() (string, error) {
			out := ""
			for _, m := range stream {
				t, err := load(m, false)
				if err != nil {
					return "", err
				}
				t.RemoveSingleNodes()
				out += t.Newick() + "\n"
			}
			return out, nil
		})
	case "subtree":
		// select an inner node by its (unique) name
		var named []*ref.Node
		c.Tree.Walk(func(x, p *ref.Node) {
			if !x.IsTip() && x.Name != "" {
				named = append(named, x)
			}
		})
		if len(named) == 0 {
			return nil
		}
		name := named[c.Sel%len(named)].Name
		// the tree once, twice or three times in the input: every tree gets its subtree, to stdout or
		// to the one output file
		copies := 1 + (c.Sel/7)%3
		return cli.DifferentialIn([]string{"subtree", "-n", "^" + name + "$"}, strings.Repeat(text, copies), nil, c15out(c), c15in(c), func() (out string, err error) {
			defer func() { out = strings.Repeat(out, copies) }()
			t, err := load(c.Tree, false)
			if err != nil {
				return "", err
			}
			var node *tree.Node
			for _, n := range t.Nodes() {
				if n.Name() == name && !n.Tip() {
					node = n
				}
			}
			return t.SubTree(node).Newick() + "\n", nil
		})
	}
	return nil
}

func TestC15Cli(t *testing.T) {
	h.Run(t, h.Spec[Case]{
		Property: "C15", Name: "cli", Quick: 1600, Thorough: 32000,
		Rule: "`gotree graft -c -l`, `merge -i -c`, `repopulate -g`, `collapse single`, `subtree -n` on the generated cases of the library check (incl. the refused ones: overlapping tips, unrooted input, bad identical groups), the input on stdin, in a file, in a gzip file or as a Nexus document (--format nexus, the grafted tree too): the printed tree must be byte-identical to what the library call gives, or both must report an error; non-trivial = multifurcating or rooted tree",
		Gen: func(t *rapid.T, thorough bool) Case {
			for {
				c := genCase(t, false)
				switch c.Kind {
				case "graft", "merge", "identical", "single", "subtree":
					if c.Kind == "subtree" {
						// comments would carry line breaks the line-based reader cannot take
						c.Tree.Walk(func(x, p *ref.Node) { x.Com, x.BCom = nil, nil })
					}
					return c
				}
			}
		},
		Check: checkCli,
		Classify: func(c Case) (bool, []string) {
			return c.Tree.MaxDegree() > 3 || len(c.Tree.Ch) == 2, []string{"kind:" + c.Kind, "bad:" + c.BadKind}
		},
	})
}

var _ = gt.Parse

// c15out: a third of the cases write the result with -o file instead of stdout (drawn with the case: Sel).
// c15in: how the input stream is handed over (stdin, file, gzip file, Nexus document), drawn with the case.
func c15in(c Case) string { return cli.InModes[(c.Sel/3)%len(cli.InModes)] }

func c15out(c Case) string {
	if c.Sel%3 == 0 {
		return "-o"
	}
	return ""
}
