package c15

import (
	"fmt"
	"sort"
	"strings"
	"testing"

	"pgregory.net/rapid"

	"github.com/evolbioinfo/gotree/tree"

	"verif/internal/gen"
	"verif/internal/gt"
	"verif/internal/h"
	"verif/internal/ops"
	"verif/internal/ref"
)

func TestMain(m *testing.M) { h.Main(m) }

type Case struct {
	Kind     string     `json:"kind"` // graft | merge | identical | single | subtree | clone | twin
	Tree     *ref.Node  `json:"tree"`
	Other    *ref.Node  `json:"other,omitempty"`     // graft tree / second tree of a merge
	Sel      int        `json:"sel,omitempty"`       // tip or inner node selector
	KeepName int        `json:"keep_name,omitempty"` // graft: > 0 = tip (KeepName-1)%n of the grafted tree carries the name of the replaced tip
	Groups   [][]string `json:"groups,omitempty"`
	BadKind  string     `json:"bad,omitempty"` // merge: overlap | unrooted ; identical: none-existing | two-existing
	Indexed  bool       `json:"indexed,omitempty"`
	Via      string     `json:"via,omitempty"` // twin: clone | subtree
	Ops      []ops.Op   `json:"ops,omitempty"`
	EditSrc  bool       `json:"edit_source,omitempty"` // twin: edit the source and watch the copy
	Mem      int        `json:"mem,omitempty"`         // > 0: the main tree is re-rooted in memory first
}

var twinKinds = []string{"reroot", "outgroup", "midpoint", "unroot", "prune", "collapse_len", "collapse_sup", "collapse_depth",
	"resolve", "rotate", "sort", "rotate_node", "graft", "identical", "identical_one", "single_nodes",
	"nni", "nni_double", "rename", "rename_auto", "rename_regexp", "shuffle_tips", "reinit", "clear_lengths", "clear_supports",
	"comments_set", "comments_clear", "comments_add", "comments_set", "comments_add", "edge_comments_set", "edge_comments_set", "scale_lengths", "round_supports"}

func baseOpts(thorough bool) gen.Opts {
	o := gen.Opts{MinTips: 3, MaxTips: 10, BigTips: 30, Rooted: -1, MaxDeg: 5, Lens: gen.AnyPresence, LenVals: gen.Dyadic, Sups: gen.AnyPresence, InnerNames: gen.AnyPresence}
	if thorough {
		o.BigTips = 100
	}
	return o
}

// keepName returns the tree to graft: with KeepName set, one of its tips carries the name of the
// tip it replaces.
func keepName(c Case, replaced string) *ref.Node {
	if c.KeepName == 0 {
		return c.Other
	}
	o := c.Other.Clone()
	tn := o.TipNodes()
	tn[(c.KeepName-1)%len(tn)].Name = replaced
	return o
}

func genCase(t *rapid.T, thorough bool) Case {
	c := Case{Kind: rapid.SampledFrom([]string{"graft", "merge", "identical", "single", "subtree", "clone", "twin", "twin"}).Draw(t, "kind")}
	o := baseOpts(thorough)
	c.Sel = rapid.IntRange(0, 1000).Draw(t, "sel")
	c.Indexed = rapid.Bool().Draw(t, "indexed")
	if rapid.IntRange(0, 2).Draw(t, "mem") == 0 {
		c.Mem = 1 + rapid.IntRange(0, 50).Draw(t, "memsel")
	}
	switch c.Kind {
	case "graft":
		c.Tree = gen.Tree(t, o)
		g := o
		g.MinTips, g.MaxTips, g.BigTips, g.NamePrefix = 2, 6, 0, "g"
		c.Other = gen.Tree(t, g)
		prefixNames(c.Other, "G_")
		if rapid.IntRange(0, 2).Draw(t, "keepname") == 0 {
			// the grafted clade holds a tip with the name of the tip it replaces (a sample replaced
			// by the clade of its relatives): the name is free again once the tip is gone. The
			// renaming is done by the check, which knows the tip (see keepName).
			c.KeepName = 1 + rapid.IntRange(0, 5).Draw(t, "keepat")
		}
	case "merge":
		o.Rooted = 1
		c.Tree = gen.Tree(t, o)
		g := o
		g.MinTips, g.MaxTips, g.BigTips = 2, 7, 0
		c.Other = gen.Tree(t, g)
		prefixNames(c.Other, "M_")
		switch rapid.IntRange(0, 5).Draw(t, "bad") {
		case 0:
			c.BadKind = "overlap"
			c.Other.TipNodes()[c.Sel%len(c.Other.Tips())].Name = c.Tree.Tips()[0]
		case 1:
			c.BadKind = "unrooted"
			u := o
			u.Rooted = 0
			c.Tree = gen.Tree(t, u)
		}
	case "identical":
		o.LenVals = gen.DyadicZ // zero-length tip branches (polytomy path) are frequent
		c.Tree = gen.Tree(t, o)
		if rapid.IntRange(0, 3).Draw(t, "negative") == 1 {
			// slightly negative tip branches (distance methods produce them; never -1, "no length"):
			// documented rule "if l==0.0 the new tip hangs on the parent, otherwise on a new node"
			for _, x := range c.Tree.TipNodes() {
				if x.Len != nil && rapid.IntRange(0, 2).Draw(t, "neghere") == 0 {
					x.Len = ref.F(rapid.SampledFrom([]float64{-0.125, -0.5, -2}).Draw(t, "negval"))
				}
			}
		}
		tips := c.Tree.Tips()
		perm := rapid.Permutation(tips).Draw(t, "gperm")
		ng := rapid.IntRange(1, min(3, len(tips))).Draw(t, "ngroups")
		k := 0
		for i := 0; i < ng; i++ {
			grp := []string{perm[i]}
			for j, n := 0, rapid.IntRange(0, 3).Draw(t, "nnew"); j < n; j++ {
				k++
				grp = append(grp, fmt.Sprintf("new%d", k))
			}
			grp = rapid.Permutation(grp).Draw(t, "gorder")
			c.Groups = append(c.Groups, grp)
		}
		// a later group may be anchored on a tip inserted by an earlier group
		if rapid.IntRange(0, 2).Draw(t, "chained") == 0 {
			var inserted []string
			for _, g := range c.Groups {
				for _, n := range g {
					if strings.HasPrefix(n, "new") {
						inserted = append(inserted, n)
					}
				}
			}
			if len(inserted) > 0 {
				anchor := inserted[rapid.IntRange(0, len(inserted)-1).Draw(t, "anchor")]
				c.Groups = append(c.Groups, rapid.Permutation([]string{anchor, "chain1", "chain2"}).Draw(t, "chainorder"))
			}
		}
		switch rapid.IntRange(0, 7).Draw(t, "bad") {
		case 0:
			c.BadKind = "none-existing"
			c.Groups = append(c.Groups, []string{"ghost1", "ghost2"})
		case 1:
			if len(tips) > ng {
				c.BadKind = "two-existing"
				c.Groups[0] = append(c.Groups[0], perm[ng])
			}
		}
	case "single":
		o.SingleChild = true
		o.Lens = gen.AnyPresence
		c.Tree = gen.Tree(t, o)
		// chains: put a second single-child node above an existing one now and then
		if rapid.Bool().Draw(t, "chain") {
			par := c.Tree.Parents()
			for _, x := range c.Tree.All() {
				if p := par[x]; p != nil && len(x.Ch) == 1 && rapid.Bool().Draw(t, "dochain") {
					s := &ref.Node{Ch: []*ref.Node{x}}
					if rapid.Bool().Draw(t, "chainlen") {
						s.Len = ref.F(gen.Length(t, gen.Dyadic))
					}
					for i, ch := range p.Ch {
						if ch == x {
							p.Ch[i] = s
						}
					}
					break
				}
			}
		}
	case "subtree", "clone":
		o.Comments = true
		o.Pvals = true
		o.SingleChild = c.Kind == "clone" && rapid.IntRange(0, 3).Draw(t, "sc") == 0
		c.Tree = gen.Tree(t, o)
	case "twin":
		o.Comments = rapid.Bool().Draw(t, "comments")
		c.Tree = gen.Tree(t, o)
		c.Via = rapid.SampledFrom([]string{"clone", "clone", "subtree"}).Draw(t, "via")
		c.EditSrc = rapid.Bool().Draw(t, "editsrc")
		n := rapid.IntRange(1, 10).Draw(t, "nops")
		for i := 0; i < n; i++ {
			c.Ops = append(c.Ops, ops.GenOp(t, twinKinds))
		}
	}
	return c
}

func min(a, b int) int {
	if a < b {
		return a
	}
	return b
}

func prefixNames(m *ref.Node, p string) {
	m.Walk(func(x, _ *ref.Node) {
		if x.Name != "" {
			x.Name = p + x.Name
		}
	})
}

func innerOf(t *tree.Tree) []*tree.Node {
	var out []*tree.Node
	for _, n := range t.Nodes() {
		if n.Nneigh() >= 2 {
			out = append(out, n)
		}
	}
	return out
}

// restrictDist compares the distances between the given tips in two models.
func restrictDist(before, after *ref.Node, keep []string, what string) error {
	nb, db, err := ref.DistMatrix(before, ref.MetricLen)
	if err != nil {
		return err
	}
	na, da, err := ref.DistMatrix(after, ref.MetricLen)
	if err != nil {
		return fmt.Errorf("%s: result has duplicate tips: %v", what, err)
	}
	// lengths on one dyadic grid: every path sum is exact; otherwise (grids mixed by a chained node
	// or a graft) sums may differ in their last bits
	exact := gen.IsDyadicExact(before)
	ib, ia := map[string]int{}, map[string]int{}
	for i, n := range nb {
		ib[n] = i
	}
	for i, n := range na {
		ia[n] = i
	}
	for _, x := range keep {
		for _, y := range keep {
			i, ok1 := ia[x]
			j, ok2 := ia[y]
			if !ok1 || !ok2 {
				return fmt.Errorf("%s: pre-existing tip %q or %q is gone", what, x, y)
			}
			if got, want := da[i][j], db[ib[x]][ib[y]]; !ref.Close(got, want, exact) {
				return fmt.Errorf("%s: path length %s-%s changed from %v to %v", what, x, y, want, got)
			}
		}
	}
	return nil
}

func tipSetIs(after *ref.Node, want []string, what string) error {
	got := after.Tips()
	sort.Strings(got)
	w := append([]string(nil), want...)
	sort.Strings(w)
	if strings.Join(got, ",") != strings.Join(w, ",") {
		return fmt.Errorf("%s: tips are %v, expected %v", what, got, w)
	}
	return nil
}

func load(m *ref.Node, indexed bool) (*tree.Tree, error) {
	t, err := gt.FromModel(m)
	if err != nil {
		return nil, fmt.Errorf("parser rejects %s: %v", ref.Write(m), err)
	}
	if indexed {
		if err := t.ReinitIndexes(); err != nil {
			return nil, err
		}
	}
	return t, nil
}

// loadMain parses the case's main tree and, when the case asks for it, re-roots it in memory
// first (the model is re-rooted alongside): the operations must cope with trees whose nodes do not
// list their parent first.
func loadMain(c *Case, indexed bool) (*tree.Tree, error) {
	t, err := gt.FromModel(c.Tree)
	if err != nil {
		return nil, fmt.Errorf("parser rejects %s: %v", ref.Write(c.Tree), err)
	}
	if c.Mem > 0 {
		rm, _, err := gt.RerootBoth(t, c.Tree, c.Mem-1)
		if err != nil {
			return nil, err
		}
		c.Tree = rm
	}
	if indexed {
		if err := t.ReinitIndexes(); err != nil {
			return nil, err
		}
	}
	return t, nil
}

func check(c Case) error {
	ctx := func(after string) string {
		s := "\n tree " + ref.Write(c.Tree)
		if c.Other != nil {
			s += "\n other " + ref.Write(c.Other)
		}
		if after != "" {
			s += "\n after " + after
		}
		return s
	}
	switch c.Kind {
	case "graft":
		t, err := loadMain(&c, true) // GraftTreeOnTip looks the tip up in the tip index
		if err != nil {
			return err
		}
		tips := c.Tree.TipNodes()
		tip := tips[c.Sel%len(tips)]
		c.Other = keepName(c, tip.Name)
		g, err := load(c.Other, c.Indexed)
		if err != nil {
			return err
		}
		if err := t.GraftTreeOnTip(tip.Name, g); err != nil {
			return fmt.Errorf("GraftTreeOnTip failed: %v%s", err, ctx(""))
		}
		if err := gt.Structural(t); err != nil {
			return fmt.Errorf("graft: %v%s", err, ctx(""))
		}
		// expected: the tip node replaced by the graft's root, the branch above it unchanged
		want := c.Tree.Clone()
		wt := want.TipNodes()[c.Sel%len(tips)]
		gr := c.Other.Clone()
		wt.Name, wt.Ch, wt.Com = gr.Name, gr.Ch, gr.Com
		after, err := gt.Read(t)
		if err != nil {
			return err
		}
		if d := ref.Diff(gt.Printable(want), after); d != "" {
			return fmt.Errorf("graft in place of %q: %s%s", tip.Name, d, ctx(ref.Write(after)))
		}
		var old []string
		for _, n := range c.Tree.Tips() {
			if n != tip.Name {
				old = append(old, n)
			}
		}
		if err := restrictDist(c.Tree, after, old, "graft"); err != nil {
			return fmt.Errorf("%v%s", err, ctx(ref.Write(after)))
		}
		if err := tipSetIs(after, append(old, c.Other.Tips()...), "graft"); err != nil {
			return fmt.Errorf("%v%s", err, ctx(ref.Write(after)))
		}
		// look-ups after the graft (UpdateTipIndex is part of the operation)
		for _, n := range c.Other.Tips() {
			if ok, _ := t.ExistsTip(n); !ok {
				return fmt.Errorf("graft: grafted tip %q not found by name%s", n, ctx(""))
			}
		}
		reused := false
		for _, n := range c.Other.Tips() {
			if n == tip.Name {
				reused = true
			}
		}
		if ok, _ := t.ExistsTip(tip.Name); ok && !reused {
			return fmt.Errorf("graft: replaced tip %q still found by name%s", tip.Name, ctx(""))
		}
		return nil
	case "merge":
		t1, err := load(c.Tree, true)
		if err != nil {
			return err
		}
		t2, err := load(c.Other, true)
		if err != nil {
			return err
		}
		err = t1.Merge(t2)
		if c.BadKind != "" {
			if err == nil {
				return fmt.Errorf("Merge accepted %s trees%s", c.BadKind, ctx(t1.Newick()))
			}
			return nil
		}
		if err != nil {
			return fmt.Errorf("Merge of two rooted trees on disjoint tips failed: %v%s", err, ctx(""))
		}
		if err := gt.Structural(t1); err != nil {
			return fmt.Errorf("merge: %v%s", err, ctx(""))
		}
		after, err := gt.Read(t1)
		if err != nil {
			return err
		}
		if len(after.Ch) != 2 {
			return fmt.Errorf("merge: new root has %d children%s", len(after.Ch), ctx(ref.Write(after)))
		}
		for i, m := range []*ref.Node{c.Tree, c.Other} {
			sub := after.Ch[i].Clone()
			sub.Len, sub.Sup, sub.Pv, sub.BCom = nil, nil, nil, nil
			if d := ref.Diff(gt.Printable(m), sub); d != "" {
				return fmt.Errorf("merge: subtree %d changed: %s%s", i, d, ctx(ref.Write(after)))
			}
		}
		if err := restrictDist(c.Tree, after, c.Tree.Tips(), "merge (first tree)"); err != nil {
			return fmt.Errorf("%v%s", err, ctx(ref.Write(after)))
		}
		if err := restrictDist(c.Other, after, c.Other.Tips(), "merge (second tree)"); err != nil {
			return fmt.Errorf("%v%s", err, ctx(ref.Write(after)))
		}
		return tipSetIs(after, append(c.Tree.Tips(), c.Other.Tips()...), "merge")
	case "identical":
		t, err := loadMain(&c, true) // ExistsTip needs the tip index, as cmd/addtips.go prepares it
		if err != nil {
			return err
		}
		err = t.InsertIdenticalTips(c.Groups)
		if c.BadKind != "" {
			if err == nil {
				return fmt.Errorf("InsertIdenticalTips accepted a group with %s member%s", c.BadKind, ctx(t.Newick()))
			}
			return nil
		}
		if err != nil {
			return fmt.Errorf("InsertIdenticalTips failed: %v (groups %v)%s", err, c.Groups, ctx(""))
		}
		if err := gt.Structural(t); err != nil {
			return fmt.Errorf("identical tips: %v%s", err, ctx(""))
		}
		after, err := gt.Read(t)
		if err != nil {
			return err
		}
		old := c.Tree.Tips()
		isOld := map[string]bool{}
		for _, n := range old {
			isOld[n] = true
		}
		all := append([]string(nil), old...)
		if err := restrictDist(c.Tree, after, old, "identical tips"); err != nil {
			return fmt.Errorf("%v (groups %v)%s", err, c.Groups, ctx(ref.Write(after)))
		}
		na, da, err := ref.DistMatrix(after, ref.MetricLen)
		if err != nil {
			return fmt.Errorf("identical tips: %v%s", err, ctx(ref.Write(after)))
		}
		ia := map[string]int{}
		for i, n := range na {
			ia[n] = i
		}
		exists := map[string]bool{}
		for _, n := range old {
			exists[n] = true
		}
		for _, g := range c.Groups {
			// the member that exists when the group is processed is the model of the others
			model := ""
			for _, n := range g {
				if exists[n] {
					model = n
				}
			}
			for _, n := range g {
				exists[n] = true
			}
			for _, n := range g {
				if n == model {
					continue
				}
				all = append(all, n)
				i, ok := ia[n]
				if !ok {
					return fmt.Errorf("identical tips: requested tip %q is missing%s", n, ctx(ref.Write(after)))
				}
				if da[i][ia[model]] != 0 {
					return fmt.Errorf("identical tips: %q sits at distance %v from its model %q%s", n, da[i][ia[model]], model, ctx(ref.Write(after)))
				}
				for j := range na {
					if da[i][j] != da[ia[model]][j] && na[j] != n && na[j] != model {
						return fmt.Errorf("identical tips: %q and its model %q differ in distance to %q (%v vs %v)%s", n, model, na[j], da[i][j], da[ia[model]][j], ctx(ref.Write(after)))
					}
				}
				if ok, _ := t.ExistsTip(n); !ok {
					return fmt.Errorf("identical tips: new tip %q not found by name%s", n, ctx(""))
				}
			}
		}
		return tipSetIs(after, all, "identical tips")
	case "single":
		t, err := loadMain(&c, c.Indexed)
		if err != nil {
			return err
		}
		if c.Mem > 0 && c.Tree.HasSingleChildInner() {
			// loadMain does not re-root trees that have single-child nodes (its model re-rooting does not
			// handle them): re-root the object and take the tree read back from it as the tree to start
			// from (Reroot itself is C05's subject) - single-child nodes then sit on the path between
			// the old and the new root, with their parent no longer first among their neighbours
			if err := gt.RerootInMemory(t, c.Mem); err != nil {
				return err
			}
			if c.Tree, err = gt.Read(t); err != nil {
				return err
			}
		}
		t.RemoveSingleNodes()
		if err := gt.Structural(t); err != nil {
			return fmt.Errorf("single nodes: %v%s", err, ctx(""))
		}
		after, err := gt.Read(t)
		if err != nil {
			return err
		}
		if after.HasSingleChildInner() {
			return fmt.Errorf("single-child inner node left%s", ctx(ref.Write(after)))
		}
		if err := restrictDist(c.Tree, after, c.Tree.Tips(), "removal of single-child nodes"); err != nil {
			return fmt.Errorf("%v%s", err, ctx(ref.Write(after)))
		}
		ub, err := ref.Unrooted(c.Tree)
		if err != nil {
			return err
		}
		ua, err := ref.Unrooted(after)
		if err != nil {
			return err
		}
		if err := ref.CompareU(ub, ua, gen.IsDyadicExact(c.Tree), false); err != nil {
			return fmt.Errorf("removal of single-child nodes: %v%s", err, ctx(ref.Write(after)))
		}
		return tipSetIs(after, c.Tree.Tips(), "single nodes")
	case "subtree":
		t, err := loadMain(&c, c.Indexed)
		if err != nil {
			return err
		}
		nm := map[*tree.Node]*ref.Node{}
		pairs, err := gt.PairEdges(t, c.Tree)
		if err != nil {
			return err
		}
		nm[t.Root()] = c.Tree
		for _, p := range pairs {
			nm[p.E.Right()] = p.M
		}
		inner := innerOf(t)
		n := inner[c.Sel%len(inner)]
		before := t.Newick()
		sub := t.SubTree(n)
		if err := gt.Structural(sub); err != nil {
			return fmt.Errorf("subtree: %v%s", err, ctx(""))
		}
		want := nm[n].Clone()
		want.Len, want.Sup, want.Pv, want.BCom = nil, nil, nil, nil
		got, err := gt.Read(sub)
		if err != nil {
			return err
		}
		if d := ref.Diff(gt.Printable(want), got); d != "" {
			return fmt.Errorf("subtree at clade %v: %s%s", nm[n].Tips(), d, ctx(sub.Newick()))
		}
		if t.Newick() != before {
			return fmt.Errorf("SubTree changed its source%s", ctx(t.Newick()))
		}
		return nil
	case "clone":
		t, err := loadMain(&c, c.Indexed)
		if err != nil {
			return err
		}
		before := t.Newick()
		cl := t.Clone()
		if a := cl.Newick(); a != before {
			return fmt.Errorf("clone is not an exact copy:\n source %s\n clone  %s", before, a)
		}
		if err := gt.Structural(cl); err != nil {
			return fmt.Errorf("clone: %v%s", err, ctx(""))
		}
		if t.Newick() != before {
			return fmt.Errorf("Clone changed its source%s", ctx(t.Newick()))
		}
		x, err := gt.Extract(cl)
		if err != nil {
			return err
		}
		y, err := gt.Extract(t)
		if err != nil {
			return err
		}
		if d := ref.Diff(y, x); d != "" {
			return fmt.Errorf("clone differs from its source (API view): %s%s", d, ctx(""))
		}
		if c.Indexed {
			for _, n := range c.Tree.Tips() {
				if ok, _ := cl.ExistsTip(n); !ok {
					return fmt.Errorf("clone of an indexed tree does not find tip %q by name", n)
				}
			}
		}
		return nil
	case "twin":
		_, err := runTwin(c)
		return err
	}
	return fmt.Errorf("harness: unknown kind %q", c.Kind)
}

// runTwin: A = source, B = clone or subtree; a history is applied to one of them while the
// other one's text and structure are observed after every step.
func runTwin(c Case) (applied int, err error) {
	a, err := load(c.Tree, c.Indexed)
	if err != nil {
		return 0, err
	}
	var b *tree.Tree
	if c.Via == "subtree" {
		inner := innerOf(a)
		n := inner[c.Sel%len(inner)]
		if n.Nneigh() < 3 && n != a.Root() {
			n = a.Root()
		}
		b = a.SubTree(n)
		if len(b.Tips()) < 3 {
			b = a.SubTree(a.Root())
		}
	} else {
		b = a.Clone()
	}
	edited, watched := b, a
	if c.EditSrc {
		edited, watched = a, b
	}
	// both trees are indexed when the case says so (SubTree indexes its result itself; a clone of
	// an indexed tree is re-indexed here as a user would before using its splits)
	watchedIndexed := c.Indexed && len(watched.Tips()) >= 3 && watched.Root().Nneigh() >= 2
	if watchedIndexed {
		if err := watched.ReinitIndexes(); err != nil {
			watchedIndexed = false
		} else if err := gt.IndexesExact(watched); err != nil {
			return 0, fmt.Errorf("indexes of a freshly indexed tree: %v", err)
		}
	}
	want := watched.Newick()
	st := ops.State{T: edited}
	for i, op := range c.Ops {
		status, _ := ops.Apply(&st, op)
		if status == ops.Failed {
			break // a failed operation may leave the edited tree half-modified; the history ends here
		}
		if status == ops.Applied {
			applied++
		}
		if got := watched.Newick(); got != want {
			return applied, fmt.Errorf("step %d (%s) on the %s changed the other tree (copy made by %s):\n before %s\n after  %s\n tree %s", i, op.Kind, map[bool]string{true: "source", false: "copy"}[c.EditSrc], c.Via, want, got, ref.Write(c.Tree))
		}
		if err := gt.Structural(watched); err != nil {
			return applied, fmt.Errorf("step %d (%s) on the %s damaged the other tree (copy made by %s): %v\n tree %s", i, op.Kind, map[bool]string{true: "source", false: "copy"}[c.EditSrc], c.Via, err, ref.Write(c.Tree))
		}
		if watchedIndexed {
			// re-index the edited tree as a user would, then the untouched tree's indexes must still describe it
			if status == ops.Applied && st.T == edited && len(edited.Tips()) >= 3 {
				edited.ReinitIndexes()
			}
			if err := gt.IndexesExact(watched); err != nil {
				return applied, fmt.Errorf("step %d (%s) on the %s (then re-indexed) corrupted the indexes of the other tree (copy made by %s): %v\n tree %s", i, op.Kind, map[bool]string{true: "source", false: "copy"}[c.EditSrc], c.Via, err, ref.Write(c.Tree))
			}
		}
		if st.T != edited {
			break // the operation continued on a new object
		}
		if len(st.T.Tips()) < 3 {
			break
		}
	}
	// index-level independence: re-indexing the edited tree must not disturb look-ups in the other
	if c.Indexed {
		for _, n := range watched.AllTipNames() {
			if ok, err := watched.ExistsTip(n); err == nil && !ok {
				return applied, fmt.Errorf("after editing the other tree, tip %q is no longer found by name in the untouched one", n)
			}
		}
	}
	return applied, nil
}

func TestC15Edits(t *testing.T) {
	f := ref.F
	h.Run(t, h.Spec[Case]{
		Property: "C15", Name: "edits", Quick: 20000, Thorough: 800000,
		Rule: "graft (every tip position, rooted/unrooted graft trees, fresh names; in a third of the cases one grafted tip carries the name of the replaced tip): result equals the host model with the tip replaced by the graft's root, distances among old tips unchanged, look-ups updated; merge of rooted trees on disjoint tips (overlapping tips / unrooted input must be refused): both subtrees unchanged under a new root; identical tips (1-3 groups, 0-3 new tips each, zero-length tip branches frequent, negative ones in a quarter of the cases; groups with 0 or 2 existing members refused): old distances unchanged, new tip at distance 0 from its model and equidistant to all others; removal of single-child nodes (anywhere, chains, mixed absent/present lengths): none left, same split lengths and distances; subtree at every inner node = reference subtree; clone byte-identical incl. node and branch comments, supports, p-values; twin histories: 1-10 edits of 30 kinds (incl. comment, length and support edits) applied to a clone/subtree (or to the source) while the other tree's text and structure are observed after every step. Non-trivial = multifurcating or rooted tree and (for twins) >= 3 applied edits",
		Gen:  genCase, Check: check,
		Anchors: []Case{
			{Kind: "clone", Tree: &ref.Node{Com: []string{"r"}, Ch: []*ref.Node{{Name: "a", Len: f(1), BCom: []string{"bc"}}, {Name: "b", Len: f(2), Com: []string{"nc"}}, {Sup: f(0.5), Pv: f(0.1), Len: f(0.25), BCom: []string{"x"}, Ch: []*ref.Node{{Name: "c"}, {Name: "d"}}}}}},
			{Kind: "single", Tree: &ref.Node{Ch: []*ref.Node{{Len: f(0.5), Ch: []*ref.Node{{Ch: []*ref.Node{{Name: "a"}, {Name: "b"}}}}}, {Name: "c", Len: f(1)}, {Name: "d"}}}},
			{Kind: "identical", Tree: &ref.Node{Ch: []*ref.Node{{Name: "a", Len: f(0)}, {Name: "b", Len: f(1)}, {Name: "c"}}}, Groups: [][]string{{"a", "a2"}, {"n1", "b", "n2"}, {"c", "c2"}}},
		},
		Classify: func(c Case) (bool, []string) {
			l := []string{"kind:" + c.Kind}
			if c.BadKind != "" {
				l = append(l, c.Kind+":"+c.BadKind)
			}
			special := c.Tree.MaxDegree() > 3 || len(c.Tree.Ch) == 2
			if len(c.Tree.Ch) == 2 {
				l = append(l, "rooted")
			}
			bcom, mixed := false, false
			nlen, nnolen := 0, 0
			c.Tree.Walk(func(x, p *ref.Node) {
				if len(x.BCom) > 0 {
					bcom = true
				}
				if p != nil {
					if x.Len != nil {
						nlen++
					} else {
						nnolen++
					}
				}
			})
			mixed = nlen > 0 && nnolen > 0
			if c.Kind == "clone" && bcom {
				l = append(l, "clone-with-branch-comments")
			}
			if c.Kind == "single" && mixed {
				l = append(l, "single-mixed-lengths")
			}
			if c.Kind == "twin" {
				n, _ := runTwin(c)
				l = append(l, "twin-via:"+c.Via, fmt.Sprintf("twin-edit-source=%v", c.EditSrc))
				if n >= 3 {
					l = append(l, "twin>=3-edits")
				}
				return special && n >= 3, l
			}
			return special, l
		},
	})
}
