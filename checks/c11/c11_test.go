package c11

import (
	"bufio"
	"errors"
	"fmt"
	"os"
	"runtime"
	"sort"
	"strings"
	"testing"
	"time"

	"pgregory.net/rapid"

	"github.com/evolbioinfo/gotree/io/utils"
	"github.com/evolbioinfo/gotree/support"
	"github.com/evolbioinfo/gotree/tree"

	"verif/internal/gen"
	"verif/internal/gt"
	"verif/internal/h"
	"verif/internal/ref"
)

func TestMain(m *testing.M) { h.Main(m) }

type Case struct {
	Func    string      `json:"func"` // compare | weighted | fbp | tbe
	Ref     *ref.Node   `json:"ref"`
	Trees   []*ref.Node `json:"trees"`
	Threads int         `json:"threads"`
	Procs   int         `json:"gomaxprocs"`
	Pauses  []int       `json:"pauses"`
	BadKind string      `json:"bad_kind"` // "" | error-record | renamed
	BadPos  []int       `json:"bad_pos"`
	Tips    bool        `json:"tips"`
	Repeat  int         `json:"repeat"`
	Reader  bool        `json:"via_reader,omitempty"` // the stream comes from utils.ReadMultiTrees on a text (possibly empty) instead of the harness's producer
	Moved   bool        `json:"moved_taxa,omitempty"` // tbe: raw tree, moved-taxa and per-branch tables in a log file
	Tables  int         `json:"tables,omitempty"`     // with Moved: 0 = both tables, 1 = moved-taxa only, 2 = per-branch only
}

func (c Case) bad(i int) bool {
	if c.BadKind == "" || len(c.Trees) == 0 {
		return false
	}
	for _, p := range c.BadPos {
		if p%len(c.Trees) == i {
			return true
		}
	}
	return false
}

// producer feeds the stream through a small channel from a goroutine owned by the
// harness, pausing according to the drawn pattern (fresh parses: the functions mutate
// their inputs).
func (c Case) producer() (<-chan tree.Trees, error) {
	if c.Reader {
		var b strings.Builder
		for i, m := range c.Trees {
			switch {
			case c.bad(i) && c.BadKind == "error-record":
				b.WriteString("(a,b;\n") // a record the reader reports as an error
			case c.bad(i) && c.BadKind == "renamed":
				mm := m.Clone()
				mm.TipNodes()[0].Name = curPfx + "zz_other"
				b.WriteString(ref.Write(mm) + "\n")
			default:
				b.WriteString(ref.Write(m) + "\n")
			}
		}
		return utils.ReadMultiTrees(bufio.NewReader(strings.NewReader(b.String())), utils.FORMAT_NEWICK), nil
	}
	trees := make([]tree.Trees, len(c.Trees))
	for i, m := range c.Trees {
		if c.bad(i) && c.BadKind == "error-record" {
			trees[i] = tree.Trees{Id: i, Err: errors.New("injected error record")}
			continue
		}
		mm := m
		if c.bad(i) && c.BadKind == "renamed" {
			mm = m.Clone()
			mm.TipNodes()[0].Name = curPfx + "zz_other"
		}
		t, err := gt.FromModel(mm)
		if err != nil {
			return nil, err
		}
		trees[i] = tree.Trees{Tree: t, Id: i}
	}
	ch := make(chan tree.Trees, 2)
	go func() {
		for i, t := range trees {
			if len(c.Pauses) > 0 {
				switch c.Pauses[i%len(c.Pauses)] {
				case 1:
					runtime.Gosched()
				case 2:
					time.Sleep(time.Microsecond)
				case 3:
					time.Sleep(200 * time.Microsecond)
				}
			}
			ch <- t
		}
		close(ch)
	}()
	return ch, nil
}

type result struct {
	records map[int]string
	text    string
	err     bool
}

// runNo numbers the runs of this process: every run works on tip names no earlier run has used,
// so that whatever the library keeps per name between calls is first touched by the run's own
// worker threads (as in a new process started with several threads).
var runNo int
var curPfx string // prefix of the current run (the foreign taxon of a mismatched tree is fresh too)

func (c Case) run(threads int) (result, error) {
	runNo++
	pfx := fmt.Sprintf("u%dx", runNo)
	curPfx = pfx
	fresh := func(m *ref.Node) *ref.Node {
		mm := m.Clone()
		for _, tip := range mm.TipNodes() {
			tip.Name = pfx + tip.Name
		}
		return mm
	}
	cc := c
	cc.Ref = fresh(c.Ref)
	cc.Trees = nil
	for _, m := range c.Trees {
		cc.Trees = append(cc.Trees, fresh(m))
	}
	r, err := cc.runPlain(threads)
	r.text = strings.ReplaceAll(r.text, pfx, "")
	for k, v := range r.records {
		r.records[k] = strings.ReplaceAll(v, pfx, "")
	}
	return r, err
}

func (c Case) runPlain(threads int) (result, error) {
	var r result
	ch, err := c.producer()
	if err != nil {
		return r, err
	}
	rt, err := gt.FromModel(c.Ref)
	if err != nil {
		return r, err
	}
	switch c.Func {
	case "compare":
		stats, err := tree.Compare(rt, ch, c.Tips, false, threads)
		if err != nil {
			return r, err
		}
		r.records = map[int]string{}
		for s := range stats {
			if _, dup := r.records[s.Id]; dup {
				return r, fmt.Errorf("two records for tree %d", s.Id)
			}
			if s.Err != nil {
				r.records[s.Id] = "error"
			} else {
				r.records[s.Id] = fmt.Sprintf("%d/%d/%d/%v", s.Tree1, s.Common, s.Tree2, s.Sametree)
			}
		}
	case "weighted":
		stats, err := tree.CompareWeighted(rt, ch, c.Tips, false, threads)
		if err != nil {
			return r, err
		}
		r.records = map[int]string{}
		for s := range stats {
			if _, dup := r.records[s.Id]; dup {
				return r, fmt.Errorf("two records for tree %d", s.Id)
			}
			if s.Err != nil {
				r.records[s.Id] = "error"
			} else {
				sort.Float64s(s.Tree1)
				sort.Float64s(s.Tree2)
				sort.Float64s(s.Common)
				r.records[s.Id] = fmt.Sprintf("%v/%v/%v/%v", s.Tree1, s.Common, s.Tree2, s.Sametree)
			}
		}
	case "fbp":
		err := support.FBP(rt, ch, threads, nil)
		r.err = err != nil
		if err == nil {
			r.text = rt.Newick()
		}
	case "tbe":
		if err := rt.ReinitIndexes(); err != nil {
			return r, err
		}
		if c.Moved {
			f, ferr := os.CreateTemp("", "c11tbelog")
			if ferr != nil {
				return r, ferr
			}
			defer os.Remove(f.Name())
			// distance cutoff 0.9: moved-taxa tables are filled for branches of depth >= 3 (with the
			// default 0.3 only branches of depth >= 5 count, which small trees rarely have)
			raw, err := support.TBE(rt, ch, threads, true, c.Tables != 2, c.Tables != 1, 0.9, f, nil)
			f.Close()
			r.err = err != nil
			if err == nil {
				lg, _ := os.ReadFile(f.Name())
				var keep []string
				for _, l := range strings.Split(string(lg), "\n") {
					ll := strings.ToLower(l)
					if strings.HasPrefix(ll, "cpus") || strings.Contains(ll, "date") || strings.Contains(ll, "time") || strings.Contains(ll, "start") || strings.Contains(ll, "end") {
						continue
					}
					keep = append(keep, l)
				}
				r.text = rt.Newick() + "\n" + raw.Newick() + "\n" + strings.Join(keep, "\n")
			}
			return r, nil
		}
		_, err := support.TBE(rt, ch, threads, false, false, false, 0.3, nil, nil)
		r.err = err != nil
		if err == nil {
			r.text = rt.Newick()
		}
	}
	return r, nil
}

func check(c Case) error {
	old := runtime.GOMAXPROCS(c.Procs)
	defer runtime.GOMAXPROCS(old)
	base, err := c.run(1)
	if err != nil {
		return err
	}
	anyBad := false
	for i := range c.Trees {
		if c.bad(i) {
			anyBad = true
		}
	}
	// the single-threaded run itself must deliver the errors
	switch c.Func {
	case "compare", "weighted":
		want := len(c.Trees)
		if c.Reader && c.BadKind == "error-record" {
			// the reader stops at the first record it cannot parse
			for i := range c.Trees {
				if c.bad(i) {
					want = i + 1
					break
				}
			}
		}
		if c.Reader && len(c.Trees) == 0 {
			want = len(base.records) // an empty file: the reader may deliver one error record or nothing
			if want > 1 {
				return fmt.Errorf("%s on an empty stream: %d records", c.Func, want)
			}
		}
		if len(base.records) != want {
			return fmt.Errorf("%s with 1 thread: %d records for %d trees (expected %d)", c.Func, len(base.records), len(c.Trees), want)
		}
		for i := 0; i < want && i < len(c.Trees); i++ {
			if (base.records[i] == "error") != c.bad(i) {
				return fmt.Errorf("%s with 1 thread: record %d is %q, bad=%v", c.Func, i, base.records[i], c.bad(i))
			}
		}
	default:
		if len(c.Trees) > 0 && base.err != anyBad {
			return fmt.Errorf("%s with 1 thread: error=%v although bad tree present=%v", c.Func, base.err, anyBad)
		}
	}
	for rep := 0; rep < c.Repeat; rep++ {
		got, err := c.run(c.Threads)
		if err != nil {
			return err
		}
		if got.err != base.err {
			return fmt.Errorf("%s with %d threads: error=%v, with 1 thread error=%v", c.Func, c.Threads, got.err, base.err)
		}
		if got.text != base.text {
			return fmt.Errorf("%s with %d threads differs from 1 thread:\n %s\n %s", c.Func, c.Threads, got.text, base.text)
		}
		if len(got.records) != len(base.records) {
			return fmt.Errorf("%s with %d threads: %d records, with 1 thread %d", c.Func, c.Threads, len(got.records), len(base.records))
		}
		for id, v := range base.records {
			if got.records[id] != v {
				return fmt.Errorf("%s with %d threads: tree %d gives %s, with 1 thread %s", c.Func, c.Threads, id, got.records[id], v)
			}
		}
	}
	return nil
}

func genCase(t *rapid.T, thorough bool) Case {
	o := gen.Opts{MinTips: 4, MaxTips: 12, BigTips: 24, Rooted: -1, MaxDeg: 4, Lens: gen.All, LenVals: gen.DyadicZ}
	base := gen.Tree(t, o)
	c := Case{Func: rapid.SampledFrom([]string{"compare", "weighted", "fbp", "tbe"}).Draw(t, "func"), Ref: base,
		Threads: rapid.SampledFrom([]int{2, 3, 4, 8, 16, 64}).Draw(t, "threads"),
		Procs:   rapid.SampledFrom([]int{1, 2, 16}).Draw(t, "procs"),
		Pauses:  rapid.SliceOfN(rapid.IntRange(0, 3), 0, 5).Draw(t, "pauses"),
		Tips:    rapid.Bool().Draw(t, "tips"), Repeat: 2}
	max := 40
	n := rapid.IntRange(1, max).Draw(t, "ntrees")
	variants := []*ref.Node{base}
	for i := 0; i < 3; i++ {
		variants = append(variants, gen.Perturb(t, base, rapid.IntRange(1, 3).Draw(t, "np"), true, gen.DyadicZ))
	}
	for i := 0; i < n; i++ {
		c.Trees = append(c.Trees, variants[rapid.IntRange(0, len(variants)-1).Draw(t, "variant")])
	}
	c.Reader = rapid.IntRange(0, 3).Draw(t, "viareader") == 0
	c.Moved = c.Func == "tbe" && rapid.Bool().Draw(t, "moved")
	if c.Moved {
		c.Tables = rapid.IntRange(0, 2).Draw(t, "tables")
	}
	if c.Reader && rapid.IntRange(0, 5).Draw(t, "empty") == 0 {
		c.Trees = nil // an empty file
		n = 0
	}
	if n > 0 && rapid.IntRange(0, 2).Draw(t, "hasbad") == 0 {
		c.BadKind = rapid.SampledFrom([]string{"error-record", "renamed"}).Draw(t, "badkind")
		switch rapid.IntRange(0, 3).Draw(t, "badwhere") {
		case 0:
			c.BadPos = []int{0}
		case 1:
			c.BadPos = []int{n - 1}
		case 2:
			c.BadPos = []int{n / 2}
		default:
			// several bad records, possibly most of the stream (several workers meet one at the same time)
			c.BadPos = rapid.SliceOfN(rapid.IntRange(0, 100), 1, 12).Draw(t, "badpos")
		}
	}
	return c
}

func TestC11Threads(t *testing.T) {
	h.Run(t, h.Spec[Case]{
		Property: "C11", Name: "threads", Quick: 3000, Thorough: 60000, Timeout: 60 * time.Second,
		Rule: "Compare / CompareWeighted / FBP / TBE on a reference tree and a stream of 1..40 trees (fresh parses), thread counts {2,3,4,8,16,64}, GOMAXPROCS {1,2,16}, producer goroutine pausing by a drawn pattern (Gosched / 1us / 200us), optional error record or taxon-mismatched tree first / middle / last / several (up to 12); a quarter of the streams come from utils.ReadMultiTrees on a text (one in six of those empty); TBE in half of the cases with raw tree and the moved-taxa table, the per-branch table or both in a log file (compared after masking dates and the CPU count); binary built with -race (a report ends the process: violation); every run uses tip names that no earlier run of the process has used; results compared per tree id with the 1-thread run, twice; watchdog 60 s; non-trivial = #trees >= 2*threads, or a bad record in a stream of >= 3 trees",
		Gen:   genCase,
		Check: check,
		Classify: func(c Case) (bool, []string) {
			l := []string{"func:" + c.Func, fmt.Sprintf("threads=%d", c.Threads), fmt.Sprintf("procs=%d", c.Procs)}
			if c.BadKind != "" {
				l = append(l, "bad:"+c.BadKind)
				l = append(l, fmt.Sprintf("bad-records:%d", len(c.BadPos)))
				p := c.BadPos[0] % len(c.Trees)
				switch {
				case p == 0:
					l = append(l, "bad-first")
				case p == len(c.Trees)-1:
					l = append(l, "bad-last")
				default:
					l = append(l, "bad-middle")
				}
			}
			if c.Reader {
				l = append(l, "via-ReadMultiTrees")
			}
			if len(c.Trees) == 0 {
				l = append(l, "empty-stream")
			}
			if c.Moved {
				l = append(l, "tbe-moved-taxa-log")
			}
			if c.Threads > len(c.Trees) {
				l = append(l, "more-threads-than-trees")
			}
			return len(c.Trees) >= 2*c.Threads || (c.BadKind != "" && len(c.Trees) >= 3), l
		},
	})
}
