package c18

import (
	"bufio"
	"fmt"
	"strings"
	"testing"
	"time"

	"pgregory.net/rapid"

	"github.com/evolbioinfo/gotree/io/utils"

	"verif/internal/gen"
	"verif/internal/h"
	"verif/internal/ref"
)

// slow-consumer: what a reader delivers does not depend on how fast its consumer is. The
// multi-tree readers hand the trees over through a channel of capacity 10; a consumer that needs
// seconds for one tree (a support computation on a big tree, a loaded machine) lets it fill up.
// The stream read by a consumer that pauses once, after the first tree, must be the stream read
// by a consumer that never pauses: same number of records, same ids, same texts, same error.

type SlowCase struct {
	Trees  []*ref.Node `json:"trees"`
	Format string      `json:"format"` // newick | nexus
	Pause  float64     `json:"pause_s"`
	Broken bool        `json:"broken"` // a record that is not a tree after the 12th tree
}

func slowRead(doc string, format int, pause time.Duration) []string {
	var out []string
	i := 0
	for r := range utils.ReadMultiTrees(bufio.NewReader(strings.NewReader(doc)), format) {
		if r.Err != nil {
			out = append(out, fmt.Sprintf("%d error", r.Id))
		} else {
			out = append(out, fmt.Sprintf("%d %s", r.Id, r.Tree.Newick()))
		}
		if i == 0 && pause > 0 {
			time.Sleep(pause)
		}
		i++
	}
	return out
}

func checkSlow(c SlowCase) error {
	var b strings.Builder
	for i, m := range c.Trees {
		if c.Broken && i == 12 {
			b.WriteString("((a,b),c;\n")
		}
		b.WriteString(ref.Write(m) + "\n")
	}
	doc, format := b.String(), utils.FORMAT_NEWICK
	fast := slowRead(doc, format, 0)
	slow := slowRead(doc, format, time.Duration(c.Pause*float64(time.Second)))
	if len(fast) != len(slow) {
		return fmt.Errorf("a consumer that pauses %.1f s after the first tree receives %d records, one that does not pause receives %d (stream of %d trees)", c.Pause, len(slow), len(fast), len(c.Trees))
	}
	for i := range fast {
		if fast[i] != slow[i] {
			return fmt.Errorf("record %d differs between a pausing and a non-pausing consumer: %q vs %q", i, slow[i], fast[i])
		}
	}
	if !c.Broken && len(fast) != len(c.Trees) {
		return fmt.Errorf("%d records for %d trees", len(fast), len(c.Trees))
	}
	return nil
}

func TestC18SlowConsumer(t *testing.T) {
	r := h.NewRecorder(t, "C18", "slow-consumer", "a Newick stream of 14-40 trees generated from VERIF_SEED (one variant with a record that is not a tree after the 12th tree) read through ReadMultiTrees by a consumer that pauses 3 s (thorough: 3 s and 12 s) after the first record, so that the reader's channel of capacity 10 fills up: the records (ids, texts, error record) must be those received by a consumer that never pauses; every case is non-trivial")
	var rc SlowCase
	if replaying, mine := r.ReplayCase(&rc); replaying {
		if mine {
			r.Replayed(checkSlow(rc))
		}
		return
	}
	pauses := []float64{3}
	if h.Thorough() {
		pauses = []float64{3, 12}
	}
	k := 0
	for _, p := range pauses {
		for _, broken := range []bool{false, true} {
			k++
			if k%h.NShards() != h.Shard() {
				continue
			}
			trees := rapid.Custom(func(t *rapid.T) []*ref.Node {
				var l []*ref.Node
				o := gen.Opts{MinTips: 3, MaxTips: 9, Rooted: -1, MaxDeg: 4, Lens: gen.AnyPresence, LenVals: gen.Dyadic, Sups: gen.AnyPresence}
				for i, n := 0, rapid.IntRange(14, 40).Draw(t, "n"); i < n; i++ {
					l = append(l, gen.Tree(t, o))
				}
				return l
			}).Example(int(h.Seed())*10 + k)
			c := SlowCase{Trees: trees, Format: "newick", Pause: p, Broken: broken}
			var err error
			if gerr := r.Guard(c, 120e9, func() error { err = checkSlow(c); return nil }); gerr != nil {
				err = gerr
			}
			r.Eval(c, true, fmt.Sprintf("pause=%vs", p), fmt.Sprintf("broken=%v", broken))
			if err != nil {
				r.Fail(c, "%v", err)
			}
		}
	}
}
