package c18

import (
	"testing"

	"pgregory.net/rapid"

	"verif/internal/cli"
	"verif/internal/clit"
	"verif/internal/h"
)

// cli-each: the drawn cases of the cli check spread unevenly over the templates (a list of ~170
// names); here every template is run on two data sets generated from VERIF_SEED (four in the
// thorough tier), with the same oracle: three runs in new processes give the same status, output
// and files, and the thread counts 1, 4, 16 agree.
func TestC18CliEach(t *testing.T) {
	r := h.NewRecorder(t, "C18", "cli-each", "every command template x 2 (thorough 4) data sets generated from VERIF_SEED (one of them with 67-130 tips in the thorough tier; in the quick tier the commands with -t get such a data set too): each command run 3 times in new processes with the same --seed gives the same exit status, stdout and written files (dates in logs masked); commands with -t agree between 1, 4 and 16 threads (per-tree records as multisets); every case is non-trivial")
	var rc CliCase
	if replaying, mine := r.ReplayCase(&rc); replaying {
		if mine {
			r.Replayed(checkCli(rc))
		}
		return
	}
	if !cli.Available() {
		t.Fatalf("gotree binary not built")
	}
	nd := 2
	if h.Thorough() {
		nd = 4
	}
	var data []clit.Dataset
	for i := 0; i < nd; i++ {
		large := i == 3
		data = append(data, rapid.Custom(func(t *rapid.T) clit.Dataset { return clit.GenDatasetSized(t, large) }).Example(int(h.Seed())*100+50+i))
	}
	// commands with -t also get a data set of 67-130 tips in the quick tier: threads that share a
	// buffer only step on each other when the trees give them enough to do
	largeSet := rapid.Custom(func(t *rapid.T) clit.Dataset { return clit.GenDatasetSized(t, true) }).Example(int(h.Seed())*100 + 59)
	k := 0
	for _, tp := range clit.Templates() {
		sets := data
		if tp.Threads && !h.Thorough() {
			sets = append(append([]clit.Dataset{}, data...), largeSet)
		}
		for i, d := range sets {
			k++
			if k%h.NShards() != h.Shard() {
				continue
			}
			c := CliCase{Template: tp.Name, Data: d, Seed: h.Seed()*7 + int64(i)}
			small := map[string]any{"template": tp.Name, "dataset": i, "seed": c.Seed}
			var err error
			if gerr := r.Guard(small, 300e9, func() error { err = checkCli(c); return nil }); gerr != nil {
				err = gerr
			}
			r.Eval(small, true, "template:"+tp.Name)
			if err != nil {
				r.Fail(c, "%v", err)
			}
		}
	}
	if h.NShards() == 1 {
		r.Exhaustive()
	}
}
