package c18

import (
	"bytes"
	"fmt"
	"math/rand"
	"os"
	"sort"
	"strings"
	"testing"

	"pgregory.net/rapid"

	"github.com/evolbioinfo/goalign/align"
	"github.com/evolbioinfo/gotree/acr"
	"github.com/evolbioinfo/gotree/asr"
	"github.com/evolbioinfo/gotree/io/nexus"
	"github.com/evolbioinfo/gotree/io/phyloxml"
	"github.com/evolbioinfo/gotree/support"
	"github.com/evolbioinfo/gotree/tree"

	"verif/internal/cli"
	"verif/internal/clit"
	"verif/internal/gen"
	"verif/internal/gt"
	"verif/internal/h"
	"verif/internal/ref"
)

// ---------------------------------------------------------------------------------------
// command level: same command, same input, same seed, new processes

type CliCase struct {
	Template string       `json:"template"`
	Data     clit.Dataset `json:"data"`
	Seed     int64        `json:"seed"`
}

func templateByName(n string) (clit.Template, bool) {
	for _, t := range clit.Templates() {
		if t.Name == n {
			return t, true
		}
	}
	return clit.Template{}, false
}

func sortedLines(s string) string {
	l := strings.Split(s, "\n")
	sort.Strings(l)
	return strings.Join(l, "\n")
}

// maskLog removes the parts of TBE log files that legitimately differ between runs (dates,
// elapsed time).
func maskLog(o clit.Observed) clit.Observed {
	for k, v := range o.Files {
		if strings.HasSuffix(k, ".log") {
			var keep []string
			for _, l := range strings.Split(v, "\n") {
				ll := strings.ToLower(l)
				if strings.Contains(ll, "date") || strings.Contains(ll, "time") || strings.Contains(ll, "end") || strings.Contains(ll, "start") || strings.HasPrefix(ll, "cpus") {
					continue
				}
				keep = append(keep, l)
			}
			o.Files[k] = strings.Join(keep, "\n")
		}
	}
	return o
}

func checkCli(c CliCase) error {
	tp, ok := templateByName(c.Template)
	if !ok {
		return fmt.Errorf("harness: unknown template %q", c.Template)
	}
	if !cli.Available() {
		return fmt.Errorf("harness: gotree binary not built")
	}
	first := maskLog(clit.Run(tp, c.Data, c.Seed, 0))
	if first.TimedOut {
		return fmt.Errorf("%s: command did not finish", tp.Name)
	}
	if strings.Contains(first.Stderr, "panic:") || strings.Contains(first.Stderr, "goroutine 1 [") {
		return fmt.Errorf("%s: command crashed: %s", tp.Name, clip(first.Stderr))
	}
	for i := 0; i < 2; i++ {
		again := maskLog(clit.Run(tp, c.Data, c.Seed, 0))
		if d := first.Diff(again); d != "" {
			return fmt.Errorf("%s (seed %d): two runs of the same command on the same input differ: %s", tp.Name, c.Seed, d)
		}
	}
	if tp.Threads {
		base := maskLog(clit.Run(tp, c.Data, c.Seed, 1))
		for _, th := range []int{4, 16} {
			o := maskLog(clit.Run(tp, c.Data, c.Seed, th))
			a, b := base, o
			if tp.Records {
				// per-tree records carry their tree id: only their order may differ
				a.Stdout, b.Stdout = sortedLines(a.Stdout), sortedLines(b.Stdout)
			}
			if d := a.Diff(b); d != "" {
				return fmt.Errorf("%s: output with %d threads differs from the single-thread output: %s", tp.Name, th, d)
			}
		}
	}
	return nil
}

func clip(s string) string {
	if len(s) > 400 {
		return s[:400] + "..."
	}
	return s
}

func TestC18Cli(t *testing.T) {
	names := []string{}
	for _, tp := range clit.Templates() {
		names = append(names, tp.Name)
	}
	h.Run(t, h.Spec[CliCase]{
		Property: "C18", Name: "cli", Quick: 1280, Thorough: 12000,
		Rule: fmt.Sprintf("%d command templates (every runnable command that works offline; download/upload, the interactive console and version are excluded) x generated data sets (12-16 tips so that map-order effects show: trees, bootstrap trees, tip/map/state/group files, nucleotide and protein-with-X alignments, Nexus and PhyloXML files) x seed; each command is run 3 times in new processes with the same --seed: exit status, stdout and every written file must be byte-identical (dates in log files masked); commands with -t are run with 1, 4 and 16 threads: supports byte-identical, per-tree records equal as multisets of lines; non-trivial = exit status 0, non-empty output, command consumes generated data", len(names)),
		Gen: func(t *rapid.T, thorough bool) CliCase {
			// rapid favours the ends of a list and small integers: the drawn number is mixed so that every
			// template gets its share of the cases
			z := rapid.Uint64().Draw(t, "template") + 0x9E3779B97F4A7C15
			z = (z ^ (z >> 30)) * 0xBF58476D1CE4E5B9
			z = (z ^ (z >> 27)) * 0x94D049BB133111EB
			z ^= z >> 31
			return CliCase{Template: names[z%uint64(len(names))], Data: clit.GenDataset(t), Seed: rapid.Int64Range(0, 1<<31).Draw(t, "seed")}
		},
		Check: checkCli,
		Classify: func(c CliCase) (bool, []string) {
			tp, _ := templateByName(c.Template)
			o := clit.Run(tp, c.Data, c.Seed, 0)
			l := []string{"template:" + c.Template}
			if o.Code != 0 {
				l = append(l, "nonzero-exit:"+c.Template)
			}
			size := len(o.Stdout)
			for _, v := range o.Files {
				size += len(v)
			}
			consumes := tp.Stdin != ""
			for _, a := range tp.Args {
				if _, ok := c.Data.Files[strings.TrimPrefix(a, "@")]; ok {
					consumes = true
				}
			}
			return o.Code == 0 && size > 0 && consumes, l
		},
		Timeout: 300e9,
	})
}

// ---------------------------------------------------------------------------------------
// library level: seeded calls repeated in one process (Go randomises the start of every map
// iteration, so order dependence shows between two calls of the same process)

type LibCase struct {
	Scenario string      `json:"scenario"`
	Trees    []*ref.Node `json:"trees"`
	States   []string    `json:"states,omitempty"` // per tip (left to right): state name or sequence
	Seed     int64       `json:"seed"`
	Flag     bool        `json:"flag,omitempty"`
	Algo     int         `json:"algo,omitempty"`
	Indexed  bool        `json:"indexed,omitempty"` // the first tree was indexed (used) before the scenario
}

var scenarios = []string{"gen-uniform", "gen-yule", "gen-caterpillar", "gen-balanced", "resolve", "shuffle", "rotate", "acr", "asr-nucl", "asr-protein",
	"write-nexus", "write-phyloxml", "rename", "rename-shift", "write-nexus-numeric", "rename-auto", "consensus", "matrix", "cut", "tbe", "fbp", "remove-tips", "reroot-outgroup", "collapse", "clone-newick"}

func feed(ts []*tree.Tree) <-chan tree.Trees {
	ch := make(chan tree.Trees, len(ts))
	for i, t := range ts {
		ch <- tree.Trees{Tree: t, Id: i}
	}
	close(ch)
	return ch
}

func parseAll(ms []*ref.Node) ([]*tree.Tree, error) {
	var out []*tree.Tree
	for _, m := range ms {
		t, err := gt.FromModel(m)
		if err != nil {
			return nil, err
		}
		out = append(out, t)
	}
	return out, nil
}

// once performs the scenario from scratch and returns everything it produced as text.
func once(c LibCase) (string, error) {
	rand.Seed(c.Seed)
	n := 12
	if len(c.Trees) > 0 {
		n = len(c.Trees[0].Tips())
	}
	switch c.Scenario {
	case "gen-uniform", "gen-yule", "gen-caterpillar", "gen-balanced":
		var t *tree.Tree
		var err error
		switch c.Scenario {
		case "gen-uniform":
			t, err = tree.RandomUniformBinaryTree(n, c.Flag)
		case "gen-yule":
			t, err = tree.RandomYuleBinaryTree(n, c.Flag)
		case "gen-caterpillar":
			t, err = tree.RandomCaterpillarBinaryTree(n, c.Flag)
		default:
			t, err = tree.RandomBalancedBinaryTree(4, c.Flag)
		}
		if err != nil {
			return "", err
		}
		return t.Newick(), nil
	}
	ts, err := parseAll(c.Trees)
	if err != nil {
		return "", err
	}
	t := ts[0]
	tips := c.Trees[0].Tips()
	if c.Indexed {
		if err := t.ReinitIndexes(); err != nil {
			return "", err
		}
	}
	switch c.Scenario {
	case "resolve":
		t.Resolve()
		return t.Newick(), nil
	case "shuffle":
		t.ShuffleTips()
		return t.Newick(), nil
	case "rotate":
		t.RotateInternalNodes()
		return t.Newick(), nil
	case "acr":
		st := map[string]string{}
		for i, n := range tips {
			st[n] = c.States[i%len(c.States)]
		}
		m, steps, err := acr.ParsimonyAcr(t, st, c.Algo, c.Flag)
		if err != nil {
			return "", err
		}
		keys := make([]string, 0, len(m))
		for k := range m {
			keys = append(keys, k)
		}
		sort.Strings(keys)
		var b strings.Builder
		fmt.Fprintf(&b, "%d\n%s\n", steps, t.Newick())
		for _, k := range keys {
			fmt.Fprintf(&b, "%s=%s\n", k, m[k])
		}
		return b.String(), nil
	case "asr-nucl", "asr-protein":
		alpha := align.NUCLEOTIDS
		if c.Scenario == "asr-protein" {
			alpha = align.AMINOACIDS
		}
		al := align.NewAlign(alpha)
		for i, n := range tips {
			if err := al.AddSequence(n, c.States[i%len(c.States)], ""); err != nil {
				return "", err
			}
		}
		steps, err := asr.ParsimonyAsr(t, al, c.Algo, c.Flag)
		if err != nil {
			return "", err
		}
		return fmt.Sprintf("%v\n%s", steps, t.Newick()), nil
	case "write-nexus":
		s, err := nexus.WriteNexus(feed(ts), c.Flag)
		return s, err
	case "write-phyloxml":
		s, err := phyloxml.WritePhyloXML(feed(ts))
		return s, err
	case "rename":
		mp := map[string]string{}
		for i, n := range tips {
			if i%2 == 0 {
				mp[n] = "R_" + n
			}
		}
		if err := t.Rename(mp); err != nil {
			return "", err
		}
		return t.Newick(), nil
	case "rename-shift":
		// new names that are also current names of other tips (a cyclic shift): the result must be
		// the simultaneous renaming, whatever the iteration order over the map
		mp := map[string]string{}
		for i, n := range tips {
			mp[n] = tips[(i+1)%len(tips)]
		}
		if err := t.Rename(mp); err != nil {
			return "", err
		}
		return t.Newick(), nil
	case "write-nexus-numeric":
		// tip labels that look like the indices of the translate table
		perm := rand.New(rand.NewSource(c.Seed)).Perm(len(tips))
		mp := map[string]string{}
		for i, n := range tips {
			mp[n] = fmt.Sprint(perm[i])
		}
		for _, x := range ts {
			if err := x.Rename(mp); err != nil {
				return "", err
			}
		}
		s, err := nexus.WriteNexus(feed(ts), true)
		return s, err
	case "rename-auto":
		id := 0
		mp := map[string]string{}
		var b strings.Builder
		for _, x := range ts {
			if err := x.RenameAuto(c.Flag, true, 8, &id, mp); err != nil {
				return "", err
			}
			b.WriteString(x.Newick() + "\n")
		}
		keys := make([]string, 0, len(mp))
		for k := range mp {
			keys = append(keys, k)
		}
		sort.Strings(keys)
		for _, k := range keys {
			b.WriteString(k + "->" + mp[k] + "\n")
		}
		return b.String(), nil
	case "consensus":
		cons, err := tree.Consensus(feed(ts), 0.5)
		if err != nil {
			return "", err
		}
		return cons.Newick(), nil
	case "matrix":
		m, nodes := t.ToDistanceMatrix(c.Algo % 3)
		var b strings.Builder
		for i, nd := range nodes {
			fmt.Fprintf(&b, "%s %v\n", nd.Name(), m[i])
		}
		return b.String(), nil
	case "cut":
		bags, err := t.CutEdgesMaxLength(0.05)
		if err != nil {
			return "", err
		}
		var b strings.Builder
		for _, bag := range bags {
			for _, nd := range bag.Tips() {
				b.WriteString(nd.Name() + ",")
			}
			b.WriteString("\n")
		}
		return b.String(), nil
	case "tbe":
		if err := t.ReinitIndexes(); err != nil {
			return "", err
		}
		f, err := os.CreateTemp("", "tbelog")
		if err != nil {
			return "", err
		}
		defer os.Remove(f.Name())
		raw, err := support.TBE(t, feed(ts[1:]), 1, true, true, true, 0.3, f, nil)
		if err != nil {
			return "", err
		}
		f.Close()
		lg, _ := os.ReadFile(f.Name())
		return t.Newick() + "\n" + raw.Newick() + "\n" + string(lg), nil
	case "fbp":
		if err := support.FBP(t, feed(ts[1:]), 1, nil); err != nil {
			return "", err
		}
		return t.Newick(), nil
	case "remove-tips":
		rm := []string{tips[1], tips[3], tips[5], tips[7]}
		if c.Algo >= 1 {
			// a run of neighbouring tips (whole cherries and ladders go), just under a tenth of a large tree
			k := len(tips)/10 - 1
			if k < 5 {
				k = 5
			}
			rm = append([]string{}, tips[2*c.Algo:2*c.Algo+k]...)
		}
		if err := t.RemoveTips(c.Flag, rm...); err != nil {
			return "", err
		}
		return t.Newick(), nil
	case "reroot-outgroup":
		if err := t.RerootOutGroup(false, false, tips[0], tips[1]); err != nil {
			return "err:" + err.Error(), nil
		}
		return t.Newick(), nil
	case "collapse":
		t.CollapseShortBranches(0.05, c.Flag, false)
		t.CollapseLowSupport(0.5, c.Flag)
		return t.Newick(), nil
	case "clone-newick":
		var b bytes.Buffer
		b.WriteString(t.Clone().Newick())
		b.WriteString(t.Nexus())
		return b.String(), nil
	}
	return "", fmt.Errorf("harness: unknown scenario %q", c.Scenario)
}

func checkLib(c LibCase) error {
	first, err := once(c)
	if err != nil {
		return fmt.Errorf("%s failed: %v", c.Scenario, err)
	}
	for i := 0; i < 3; i++ {
		again, err := once(c)
		if err != nil {
			return fmt.Errorf("%s failed on repetition: %v", c.Scenario, err)
		}
		if again != first {
			return fmt.Errorf("%s (seed %d): repetition %d of the same call gives a different result:\n%s", c.Scenario, c.Seed, i+1, firstDiff(first, again))
		}
	}
	return nil
}

func firstDiff(a, b string) string {
	la, lb := strings.Split(a, "\n"), strings.Split(b, "\n")
	for i := 0; i < len(la) || i < len(lb); i++ {
		x, y := "<missing>", "<missing>"
		if i < len(la) {
			x = la[i]
		}
		if i < len(lb) {
			y = lb[i]
		}
		if x != y {
			return fmt.Sprintf("  line %d: %s\n       vs: %s", i+1, clip(x), clip(y))
		}
	}
	return ""
}

var acrStatePool = []string{"2", "10", "19A", "3", "14", "7B", "s0", "s1", "A", "100", "b", "1e1"}

func TestC18Lib(t *testing.T) {
	h.Run(t, h.Spec[LibCase]{
		Property: "C18", Name: "lib", Quick: 4000, Thorough: 160000,
		Rule: "25 library scenarios (4 generators, Resolve, ShuffleTips, RotateInternalNodes, ParsimonyAcr x 3 algorithms x random resolution, ParsimonyAsr on nucleotide alignments and on protein alignments containing X, WriteNexus +-translate, WritePhyloXML, Rename, RenameAuto, Consensus, ToDistanceMatrix, CutEdgesMaxLength, TBE with raw tree and log tables, FBP, RemoveTips, RerootOutGroup, collapse, Clone/Nexus) on generated trees with 12-18 tips (one case in twelve 101-150 tips), freshly parsed or already indexed, each performed 4 times from scratch in one process with the same seed: all results byte-identical; non-trivial = every case (the result depends on the generated input)",
		Gen: func(t *rapid.T, thorough bool) LibCase {
			c := LibCase{Scenario: rapid.SampledFrom(scenarios).Draw(t, "scenario"), Seed: rapid.Int64Range(0, 1<<40).Draw(t, "seed"), Flag: rapid.Bool().Draw(t, "flag"), Algo: rapid.IntRange(0, 2).Draw(t, "algo")}
			n := rapid.IntRange(12, 18).Draw(t, "n")
			if lg := rapid.IntRange(0, 11).Draw(t, "large"); (lg == 7 || (lg%2 == 1 && c.Scenario == "remove-tips")) && c.Scenario != "asr-nucl" && c.Scenario != "asr-protein" {
				n = rapid.IntRange(101, 150).Draw(t, "nlarge") // shortcuts for large inputs
			}
			c.Indexed = rapid.Bool().Draw(t, "indexed")
			o := gen.Opts{MinTips: n, MaxTips: n, Rooted: -1, MaxDeg: 5, Lens: gen.All, LenVals: gen.Arbitrary, Sups: gen.Mixed}
			if n > 100 && rapid.Bool().Draw(t, "binarylarge") {
				o.MaxDeg = 2
			}
			if c.Scenario == "tbe" || c.Scenario == "fbp" || c.Scenario == "consensus" {
				o.Rooted = 0
			}
			base := gen.Tree(t, o)
			c.Trees = []*ref.Node{base}
			for i := 0; i < 3; i++ {
				c.Trees = append(c.Trees, gen.Perturb(t, base, rapid.IntRange(0, 4).Draw(t, "np"), true, gen.Arbitrary))
			}
			switch c.Scenario {
			case "acr":
				k := rapid.IntRange(2, 12).Draw(t, "k")
				for i := 0; i < n; i++ {
					// state labels that sort differently as numbers and as text, next to plain ones
					c.States = append(c.States, acrStatePool[rapid.IntRange(0, k-1).Draw(t, "st")])
				}
			case "asr-nucl":
				for i := 0; i < n; i++ {
					c.States = append(c.States, rapid.StringMatching(`[ACGTNRY-]{6}`).Draw(t, "seq"))
				}
			case "asr-protein":
				for i := 0; i < n; i++ {
					c.States = append(c.States, rapid.StringMatching(`[ARNDKLXXMF]{5}`).Draw(t, "pseq"))
				}
			}
			return c
		},
		Check: checkLib,
		Classify: func(c LibCase) (bool, []string) {
			l := []string{"scenario:" + c.Scenario}
			if len(c.Trees) > 0 && len(c.Trees[0].Tips()) > 100 {
				l = append(l, "tips>100")
			}
			if c.Scenario == "asr-protein" && strings.Contains(strings.Join(c.States, ""), "X") {
				l = append(l, "protein-alignment-with-X")
			}
			return true, l
		},
	})
}
