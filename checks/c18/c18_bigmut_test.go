package c18

import (
	"fmt"
	"strings"
	"testing"

	"verif/internal/big"
	"verif/internal/cli"
	"verif/internal/h"
	"verif/internal/ref"
)

// big-mutations: `gotree compute mutations` (and --eems) on a tree with more than 4096 branches in
// which the same substitution occurs on hundreds of branches: three runs in new processes must
// print the same lines in the same order (an order that is only settled for small branch numbers,
// or that falls back on map iteration for ties, shows here).

type BigMutCase struct {
	Tips  int  `json:"tips"`
	Sites int  `json:"sites"`
	EEMs  bool `json:"eems"`
}

func checkBigMut(c BigMutCase) error {
	m := big.Model("binary", c.Tips)
	m.Name = "ROOT"
	k := 0
	var fa strings.Builder
	m.Walk(func(x, p *ref.Node) {
		k++
		if x.Name == "" {
			x.Name = fmt.Sprintf("n%d", k)
		}
		fa.WriteString(">" + x.Name + "\n")
		for s := 0; s < c.Sites; s++ {
			fa.WriteByte("ACGT"[(k*(7+2*s)+3*s+k/5)%4])
		}
		fa.WriteString("\n")
	})
	dir := cli.Scratch()
	cli.Write(dir, "named.nw", ref.Write(m)+"\n")
	cli.Write(dir, "anc.fa", fa.String())
	args := []string{"compute", "mutations", "-i", "named.nw", "-a", "anc.fa"}
	if c.EEMs {
		args = append(args, "--eems")
	}
	first := cli.Run(dir, "", args...)
	if first.TimedOut || first.Panicked() {
		return fmt.Errorf("gotree %v crashed or did not end: %s", args, clip(first.Stderr))
	}
	if first.Code != 0 {
		return fmt.Errorf("gotree %v failed with status %d: %s", args, first.Code, clip(first.Stderr))
	}
	if strings.Count(first.Stdout, "\n") < 10 {
		return fmt.Errorf("harness: only %d lines printed for a tree with %d tips", strings.Count(first.Stdout, "\n"), c.Tips)
	}
	for i := 0; i < 2; i++ {
		again := cli.Run(dir, "", args...)
		if again.Stdout != first.Stdout || again.Code != first.Code {
			la, lb := strings.Split(first.Stdout, "\n"), strings.Split(again.Stdout, "\n")
			for j := 0; j < len(la) && j < len(lb); j++ {
				if la[j] != lb[j] {
					return fmt.Errorf("gotree %v on a tree with %d tips: two runs differ at line %d of %d: %q vs %q", args, c.Tips, j+1, len(la), la[j], lb[j])
				}
			}
			return fmt.Errorf("gotree %v on a tree with %d tips: two runs print %d and %d lines", args, c.Tips, len(la), len(lb))
		}
	}
	return nil
}

func TestC18BigMutations(t *testing.T) {
	r := h.NewRecorder(t, "C18", "big-mutations", "`gotree compute mutations -a anc.fa [--eems]` on a rooted binary tree with 2300 tips (4598 branches; thorough: also 4200 tips) whose nodes are all named, with 2-3 alignment sites over ACGT in which the same substitution occurs on hundreds of branches: three runs in new processes print the same lines in the same order; every case is non-trivial")
	var rc BigMutCase
	if replaying, mine := r.ReplayCase(&rc); replaying {
		if mine {
			r.Replayed(checkBigMut(rc))
		}
		return
	}
	if !cli.Available() {
		t.Fatalf("gotree binary not built")
	}
	cases := []BigMutCase{{2300, 2, false}, {2300, 3, true}}
	if h.Thorough() {
		cases = append(cases, BigMutCase{4200, 3, false}, BigMutCase{4200, 2, true})
	}
	for k, c := range cases {
		if k%h.NShards() != h.Shard() {
			continue
		}
		var err error
		if gerr := r.Guard(c, 300e9, func() error { err = checkBigMut(c); return nil }); gerr != nil {
			err = gerr
		}
		r.Eval(c, true, fmt.Sprintf("eems=%v", c.EEMs))
		if err != nil {
			r.Fail(c, "%v", err)
		}
	}
}
