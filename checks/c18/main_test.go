package c18

import (
	"testing"

	"verif/internal/h"
)

func TestMain(m *testing.M) { h.Main(m) }
