package c18

import (
	"fmt"
	"os"
	"strings"
	"testing"

	"pgregory.net/rapid"

	"verif/internal/clit"
)

// TestSmoke (VERIF_SMOKE=1) prints what every template does on one generated data set.
func TestSmoke(t *testing.T) {
	if os.Getenv("VERIF_SMOKE") == "" {
		t.Skip()
	}
	var d clit.Dataset
	rapid.Check(t, func(rt *rapid.T) { d = clit.GenDataset(rt) })
	for _, tp := range clit.Templates() {
		o := clit.Run(tp, d, 7, 0)
		var files []string
		for k, v := range o.Files {
			files = append(files, fmt.Sprintf("%s(%d)", k, len(v)))
		}
		first := strings.SplitN(strings.TrimSpace(o.Stderr), "\n", 2)[0]
		out := strings.SplitN(o.Stdout, "\n", 2)[0]
		if len(out) > 70 {
			out = out[:70]
		}
		fmt.Printf("%-30s code=%d out=%dB files=%v | %s | %s\n", tp.Name, o.Code, len(o.Stdout), files, out, first)
	}
}
