package c16

import (
	"fmt"
	"math/rand"
	"sort"
	"strconv"
	"strings"
	"testing"

	"pgregory.net/rapid"

	"github.com/evolbioinfo/gotree/tree"

	"verif/internal/cli"
	"verif/internal/gt"
	"verif/internal/h"
	"verif/internal/ref"
)

func TestMain(m *testing.M) { h.Main(m) }

type Case struct {
	Gen    string `json:"gen"` // uniform | yule | caterpillar | balanced | star | starnames
	N      int    `json:"n"`   // tips (depth for balanced)
	Rooted bool   `json:"rooted"`
	Seed   int64  `json:"seed"`
	CLI    bool   `json:"cli,omitempty"`
	NTrees int    `json:"ntrees,omitempty"`
}

func genCase(t *rapid.T, thorough bool) Case {
	c := Case{Gen: rapid.SampledFrom([]string{"uniform", "yule", "caterpillar", "balanced", "star", "starnames"}).Draw(t, "gen"),
		Rooted: rapid.Bool().Draw(t, "rooted"), Seed: rapid.Int64Range(0, 1<<40).Draw(t, "seed")}
	maxN, maxD := 60, 7
	if thorough {
		maxN, maxD = 400, 10
	}
	if c.Gen == "balanced" {
		c.N = rapid.SampledFrom([]int{-1, 0, 1, 1, 2, 2, 3, 4, 5, maxD}).Draw(t, "depth")
	} else {
		switch rapid.IntRange(0, 3).Draw(t, "nclass") {
		case 0:
			c.N = rapid.IntRange(-1, 4).Draw(t, "nsmall")
		case 1:
			c.N = rapid.IntRange(3, 12).Draw(t, "nmid")
		default:
			c.N = rapid.IntRange(5, maxN).Draw(t, "nbig")
		}
	}
	if cli.Available() && rapid.IntRange(0, 19).Draw(t, "cli") == 0 && c.Gen != "starnames" {
		c.CLI = true
		c.NTrees = rapid.IntRange(1, 3).Draw(t, "ntrees")
	}
	return c
}

// validity of the request: "ok" (must succeed), "reject" (must be an error), "either" (a
// degenerate size the messages call valid but for which no binary unrooted tree exists:
// an error or a tree are both accepted, a crash is not).
func expectation(c Case) string {
	switch c.Gen {
	case "balanced":
		if c.N < 1 {
			return "reject"
		}
		if c.N == 1 && !c.Rooted {
			return "either"
		}
		return "ok"
	case "star", "starnames":
		if c.N < 2 {
			return "reject"
		}
		return "ok"
	}
	if c.N < 2 {
		return "reject"
	}
	if c.N == 2 {
		if c.Rooted {
			return "reject" // documented: "Cannot create a rooted random binary tree with less than 3 tips"
		}
		return "either"
	}
	return "ok"
}

func generate(c Case) (*tree.Tree, error) {
	rand.Seed(c.Seed)
	switch c.Gen {
	case "uniform":
		return tree.RandomUniformBinaryTree(c.N, c.Rooted)
	case "yule":
		return tree.RandomYuleBinaryTree(c.N, c.Rooted)
	case "caterpillar":
		return tree.RandomCaterpillarBinaryTree(c.N, c.Rooted)
	case "balanced":
		return tree.RandomBalancedBinaryTree(c.N, c.Rooted)
	case "star":
		return tree.StarTree(c.N)
	case "starnames":
		var names []string
		for i := 0; i < c.N; i++ {
			names = append(names, "x"+strconv.Itoa(i*7%101)+"_"+strconv.Itoa(i))
		}
		return tree.StarTreeFromName(names...)
	}
	return nil, fmt.Errorf("harness: unknown generator")
}

// unrootedModel merges the two root branches of a rooted model (root of degree 2).
func unrootedModel(m *ref.Node) *ref.Node {
	if len(m.Ch) != 2 {
		return m
	}
	a, b := m.Ch[0], m.Ch[1]
	if a.IsTip() {
		a, b = b, a
	}
	if a.IsTip() {
		return m
	}
	r := &ref.Node{Ch: append(append([]*ref.Node{}, a.Ch...), b)}
	return r
}

// shape checks on the reference reading of the text
func checkShape(c Case, m *ref.Node) error {
	tips := m.Tips()
	wantTips := c.N
	if c.Gen == "balanced" {
		wantTips = 1 << uint(c.N)
	}
	if len(tips) != wantTips {
		return fmt.Errorf("%d tips, requested %d", len(tips), wantTips)
	}
	seen := map[string]bool{}
	for _, n := range tips {
		if n == "" || seen[n] {
			return fmt.Errorf("tip name %q empty or repeated", n)
		}
		seen[n] = true
	}
	var rerr error
	m.Walk(func(x, p *ref.Node) {
		if p != nil && (x.Len == nil || *x.Len < 0) {
			rerr = fmt.Errorf("branch above %q has no length or a negative one", x.Name)
		}
	})
	if rerr != nil {
		return rerr
	}
	if c.Gen == "star" || c.Gen == "starnames" {
		if len(m.Inner()) != 1 || len(m.Ch) != c.N {
			return fmt.Errorf("star tree has %d inner nodes and a root of degree %d", len(m.Inner()), len(m.Ch))
		}
		for _, x := range m.Ch {
			// the library documents "branch lengths are all set to 1.0"; the command draws them
			if !c.CLI && *x.Len != 1 {
				return fmt.Errorf("star branch length %v, documented 1.0", *x.Len)
			}
		}
		return nil
	}
	// binary with the requested rootedness
	wantRoot := 3
	if c.Rooted {
		wantRoot = 2
	}
	if len(m.Ch) != wantRoot {
		return fmt.Errorf("root has %d children, expected %d (rooted=%v)", len(m.Ch), wantRoot, c.Rooted)
	}
	m.Walk(func(x, p *ref.Node) {
		if p != nil && !x.IsTip() && len(x.Ch) != 2 {
			rerr = fmt.Errorf("inner node with %d children: not binary", len(x.Ch))
		}
	})
	if rerr != nil {
		return rerr
	}
	switch c.Gen {
	case "caterpillar":
		u := unrootedModel(m)
		par := u.Parents()
		u.Walk(func(x, p *ref.Node) {
			if x.IsTip() {
				return
			}
			k := 0
			for _, ch := range x.Ch {
				if !ch.IsTip() {
					k++
				}
			}
			if par[x] != nil {
				k++
			}
			if k > 2 {
				rerr = fmt.Errorf("an inner node has %d inner neighbours: not a caterpillar", k)
			}
		})
	case "balanced":
		if c.Rooted {
			for n, d := range edgeDepths(m) {
				if d != c.N {
					rerr = fmt.Errorf("tip %q at depth %d, expected %d", n, d, c.N)
				}
			}
		} else {
			// the root was suppressed: re-inserting it on one branch must give a perfect tree
			ok := false
			g := ref.NewGraph(m)
			for v := range g.Nodes {
				for _, e := range g.Adj[v] {
					if e.To() <= v {
						continue
					}
					if perfectSide(g, v, e.To(), c.N-1) && perfectSide(g, e.To(), v, c.N-1) {
						ok = true
					}
				}
			}
			if !ok {
				rerr = fmt.Errorf("no branch splits the tree into two perfect binary trees of depth %d", c.N-1)
			}
		}
	}
	return rerr
}

func edgeDepths(m *ref.Node) map[string]int {
	out := map[string]int{}
	var rec func(n *ref.Node, d int)
	rec = func(n *ref.Node, d int) {
		if n.IsTip() {
			out[n.Name] = d
		}
		for _, c := range n.Ch {
			rec(c, d+1)
		}
	}
	rec(m, 0)
	return out
}

// perfectSide: the component containing v after cutting v-from is a perfect binary tree of the given depth rooted at v.
func perfectSide(g *ref.Graph, v, from, depth int) bool {
	var kids []int
	for _, e := range g.Adj[v] {
		if e.To() != from {
			kids = append(kids, e.To())
		}
	}
	if depth == 0 {
		return len(kids) == 0
	}
	if len(kids) != 2 {
		return false
	}
	return perfectSide(g, kids[0], v, depth-1) && perfectSide(g, kids[1], v, depth-1)
}

// indexes ready for use without further calls
func checkIndexes(t *tree.Tree, m *ref.Node) error {
	names := m.Tips()
	sort.Strings(names)
	for i, n := range names {
		k, err := t.TipIndex(n)
		if err != nil {
			return fmt.Errorf("TipIndex(%q) on a freshly generated tree: %v", n, err)
		}
		if k != i {
			return fmt.Errorf("TipIndex(%q) = %d, rank in name order is %d", n, k, i)
		}
	}
	pairs, err := gt.PairEdges(t, m)
	if err != nil {
		return err
	}
	tx, err := ref.NewTaxa(m.Tips())
	if err != nil {
		return err
	}
	cl, _ := tx.Clades(m)
	for _, p := range pairs {
		bs := p.E.Bitset()
		if bs == nil {
			return fmt.Errorf("branch without bitset on a freshly generated tree")
		}
		if int(bs.Len()) != len(names) {
			return fmt.Errorf("bitset width %d for %d tips", bs.Len(), len(names))
		}
		want := cl[p.M]
		for i := range names {
			if bs.Test(uint(i)) != want.Has(i) {
				return fmt.Errorf("bitset of the branch above clade %v is wrong at tip %q", p.M.Tips(), names[i])
			}
		}
		d, err := p.E.TopoDepth()
		if err != nil {
			return fmt.Errorf("TopoDepth on a freshly generated tree: %v", err)
		}
		k := want.Count()
		if len(names)-k < k {
			k = len(names) - k
		}
		if d != k {
			return fmt.Errorf("TopoDepth %d, expected %d", d, k)
		}
	}
	// hashes ("indexes ready for use"): every branch must be found in a split index built from the
	// same tree read again from its text, compare equal to its counterpart there and hash like it
	if fresh, err := gt.FromModel(m); err == nil {
		if err := fresh.ReinitIndexes(); err != nil {
			return fmt.Errorf("the generated tree's text cannot be indexed: %v", err)
		}
		fpairs, err := gt.PairEdges(fresh, m)
		if err != nil {
			return err
		}
		byNode := map[*ref.Node]*tree.Edge{}
		for _, p := range fpairs {
			byNode[p.M] = p.E
		}
		idx := tree.NewEdgeIndex(uint64(len(fpairs))*2+1, 0.75)
		for i, p := range fpairs {
			idx.PutEdgeValue(p.E, i, p.E.Length())
		}
		for _, p := range pairs {
			f := byNode[p.M]
			if f == nil {
				continue
			}
			if !p.E.SameBipartition(f) {
				return fmt.Errorf("branch above clade %v of the generated tree and the same branch of the tree read from its text are not SameBipartition", p.M.Tips())
			}
			if p.E.HashCode() != f.HashCode() {
				return fmt.Errorf("branch above clade %v: HashCode %d on the generated tree, %d on the tree read from its text", p.M.Tips(), p.E.HashCode(), f.HashCode())
			}
			if _, ok := idx.Value(p.E); !ok {
				return fmt.Errorf("branch above clade %v of the generated tree is not found in a split index built from the tree read from its text", p.M.Tips())
			}
		}
	}
	// node depths ("length of the path from n to the closest tip", computed with the indexes):
	// judged on unrooted trees, where the documented definition leaves no choice
	if t.Root().Nneigh() >= 3 {
		dist := map[*tree.Node]int{}
		var level []*tree.Node
		for _, n := range t.Nodes() {
			if n.Tip() {
				dist[n] = 0
				level = append(level, n)
			}
		}
		for len(level) > 0 {
			var next []*tree.Node
			for _, n := range level {
				for _, nb := range n.Neigh() {
					if _, ok := dist[nb]; !ok {
						dist[nb] = dist[n] + 1
						next = append(next, nb)
					}
				}
			}
			level = next
		}
		for _, n := range t.Nodes() {
			d, err := n.Depth()
			if err != nil {
				return fmt.Errorf("Node.Depth() on a freshly generated tree: %v", err)
			}
			if d != dist[n] {
				return fmt.Errorf("Node.Depth() = %d for a node whose closest tip is %d branches away (node %q, %d neighbours)", d, dist[n], n.Name(), n.Nneigh())
			}
		}
	}
	return nil
}

func check(c Case) error {
	exp := expectation(c)
	t, err := generate(c)
	ctx := fmt.Sprintf(" (%s n=%d rooted=%v seed=%d)", c.Gen, c.N, c.Rooted, c.Seed)
	switch exp {
	case "reject":
		if err == nil {
			return fmt.Errorf("size below the documented minimum accepted%s", ctx)
		}
	case "either":
		// no crash is all that is asked
	case "ok":
		if err != nil {
			return fmt.Errorf("valid request refused: %v%s", err, ctx)
		}
		if t == nil {
			return fmt.Errorf("nil tree without error%s", ctx)
		}
		if err := gt.Structural(t); err != nil {
			return fmt.Errorf("%v%s", err, ctx)
		}
		m, err := gt.Read(t)
		if err != nil {
			return err
		}
		lc := c
		lc.CLI = false
		if err := checkShape(lc, m); err != nil {
			return fmt.Errorf("%v%s\n %s", err, ctx, t.Newick())
		}
		if err := checkIndexes(t, m); err != nil {
			return fmt.Errorf("%v%s\n %s", err, ctx, t.Newick())
		}
		if c.Gen == "star" || c.Gen == "starnames" {
			if t.Rooted() && c.N != 2 {
				return fmt.Errorf("star tree reported as rooted%s", ctx)
			}
		} else if t.Rooted() != c.Rooted {
			return fmt.Errorf("Rooted() = %v, requested %v%s", t.Rooted(), c.Rooted, ctx)
		}
	}
	if c.CLI {
		return checkCLI(c, exp)
	}
	return nil
}

var cliName = map[string]string{"uniform": "uniformtree", "yule": "yuletree", "caterpillar": "caterpillartree", "balanced": "balancedtree", "star": "startree"}

func checkCLI(c Case, exp string) error {
	dir := cli.Scratch()
	args := []string{"generate", cliName[c.Gen], "--seed", strconv.FormatInt(c.Seed, 10), "-n", strconv.Itoa(c.NTrees)}
	if c.Gen == "balanced" {
		args = append(args, "-d", strconv.Itoa(c.N))
	} else {
		args = append(args, "-l", strconv.Itoa(c.N))
	}
	if c.Rooted {
		args = append(args, "-r")
	}
	toFile := (c.Seed+int64(c.N))%2 == 0 // half of the cases write the trees with -o
	if toFile {
		args = append(args, "-o", "gen.nw")
	}
	r := cli.Run(dir, "", args...)
	ctx := fmt.Sprintf(" (gotree %s)", strings.Join(args, " "))
	if r.TimedOut {
		return fmt.Errorf("command did not finish%s", ctx)
	}
	if toFile {
		if strings.TrimSpace(r.Stdout) != "" && exp == "ok" {
			return fmt.Errorf("told to write to a file, the command prints %q%s", r.Stdout, ctx)
		}
		r.Stdout = cli.Read(dir, "gen.nw")
	}
	if r.Panicked() {
		return fmt.Errorf("command crashed%s: %s", ctx, firstLines(r.Stderr))
	}
	switch exp {
	case "reject":
		// some generate commands report the error on stderr ("[Error] ...") and still exit with
		// status 0: an error message and no tree is "rejected with an error"
		if r.Code == 0 && !(strings.Contains(r.Stderr, "[Error]") && strings.TrimSpace(r.Stdout) == "") {
			return fmt.Errorf("size below the documented minimum neither refused nor reported%s, stdout %q stderr %q", ctx, r.Stdout, firstLines(r.Stderr))
		}
		return nil
	case "either":
		return nil
	}
	if r.Code != 0 {
		return fmt.Errorf("valid request: exit status %d%s: %s", r.Code, ctx, firstLines(r.Stderr))
	}
	lines := strings.Split(strings.TrimRight(r.Stdout, "\n"), "\n")
	if len(lines) != c.NTrees {
		return fmt.Errorf("%d trees printed, %d requested%s", len(lines), c.NTrees, ctx)
	}
	for _, l := range lines {
		m, err := ref.Parse(l)
		if err != nil {
			return fmt.Errorf("output not readable: %v%s", err, ctx)
		}
		cc := c
		if c.Gen == "star" {
			cc.Rooted = false
		}
		if err := checkShape(cc, m); err != nil {
			return fmt.Errorf("%v%s\n %s", err, ctx, l)
		}
	}
	return nil
}

func firstLines(s string) string {
	l := strings.Split(s, "\n")
	if len(l) > 4 {
		l = l[:4]
	}
	return strings.Join(l, " | ")
}

func TestC16Generators(t *testing.T) {
	var anchors []Case
	for _, g := range []string{"uniform", "yule", "caterpillar", "star", "starnames"} {
		for _, r := range []bool{false, true} {
			for _, n := range []int{-1, 0, 1, 2, 3, 4} {
				anchors = append(anchors, Case{Gen: g, N: n, Rooted: r, Seed: 1})
			}
		}
	}
	for _, r := range []bool{false, true} {
		for _, d := range []int{-1, 0, 1, 2, 3} {
			anchors = append(anchors, Case{Gen: "balanced", N: d, Rooted: r, Seed: 1})
		}
	}
	// sizes around the 2000-element capacities that the tree code preallocates for its tip, node and
	// edge lists (and a recursion 2000 levels deep for the caterpillar), spread over the shards
	k := 0
	for _, g := range []string{"caterpillar", "yule", "uniform", "star"} {
		for _, n := range []int{1000, 1999, 2000, 2001, 2002, 2100, 4100} {
			if g != "caterpillar" && n != 2001 && n != 4100 {
				continue
			}
			for _, r := range []bool{false, true} {
				if k++; k%h.NShards() == h.Shard() {
					anchors = append(anchors, Case{Gen: g, N: n, Rooted: r, Seed: int64(n)})
				}
			}
		}
	}
	h.Run(t, h.Spec[Case]{
		Property: "C16", Name: "generators", Quick: 12000, Thorough: 320000,
		Rule: "6 generators (uniform, Yule, caterpillar, balanced, star, star from names) x sizes -1..60 (thorough 400; depth -1..7/10) with a quarter of the cases at -1..4 x rooted x seed, plus constructed cases of 1000..4100 tips (caterpillar at 1999, 2000, 2001, 2002: the capacity the code preallocates for its lists); valid sizes must succeed and give a structurally well-formed binary tree (root degree 2 or 3 as requested) with exactly n uniquely named tips, all lengths present and >= 0, TipIndex/bitsets/TopoDepth, split hashes (each branch found in a split index built from the tree's own text) and (unrooted trees) node depths correct without further calls, caterpillar (inner nodes form a path) / perfectly balanced / single-inner-node shape; sizes below the documented minimum must be refused with an error; 2 tips unrooted (no binary unrooted tree exists) may be refused or not but must not crash; 5% of the cases through `gotree generate ... --seed -n -l/-d [-r]`, half of them with -o file (exit status, number of trees, shape, no Go panic trace); non-trivial = valid size with >= 5 tips",
		Gen: genCase, Check: check, Anchors: anchors,
		Classify: func(c Case) (bool, []string) {
			e := expectation(c)
			l := []string{"gen:" + c.Gen, "expect:" + e, fmt.Sprintf("rooted=%v", c.Rooted)}
			if c.CLI {
				l = append(l, "cli")
			}
			n := c.N
			if c.Gen == "balanced" && c.N > 0 {
				n = 1 << uint(c.N)
			}
			return e == "ok" && n >= 5, l
		},
	})
}

// ---------------------------------------------------------------------------------------
// the enumerator

func dfact(k int) int { // k!! for odd k, 1 for k <= 1
	r := 1
	for ; k > 1; k -= 2 {
		r *= k
	}
	return r
}

type EnumCase struct {
	N      int      `json:"n"`
	Rooted bool     `json:"rooted"`
	Names  []string `json:"names,omitempty"`
}

func checkEnum(c EnumCase) (int, error) {
	trees, err := tree.AllTopologies(c.N, c.Rooted, c.Names...)
	min := 3
	if c.Rooted {
		min = 2
	}
	if c.N < min {
		if err == nil {
			return 0, fmt.Errorf("AllTopologies(%d, rooted=%v) below the minimum accepted", c.N, c.Rooted)
		}
		return 0, nil
	}
	mismatch := len(c.Names) > 0 && len(c.Names) != c.N
	if mismatch && err != nil {
		return 0, nil // a name list of another length than the requested size: refused
	}
	if err != nil {
		return 0, fmt.Errorf("AllTopologies(%d, rooted=%v) failed: %v", c.N, c.Rooted, err)
	}
	want := dfact(2*c.N - 5)
	if c.Rooted {
		want = dfact(2*c.N - 3)
	}
	if len(trees) != want {
		return len(trees), fmt.Errorf("AllTopologies(%d, rooted=%v) returned %d trees, expected %d", c.N, c.Rooted, len(trees), want)
	}
	var wantNames []string
	for i := 1; i <= c.N; i++ {
		wantNames = append(wantNames, fmt.Sprintf("Tip%d", i))
	}
	if len(c.Names) > 0 {
		wantNames = append([]string(nil), c.Names...)
	}
	sort.Strings(wantNames)
	seen := map[string]int{}
	for i, t := range trees {
		text := t.Newick()
		m, err := ref.Parse(text)
		if err != nil {
			return len(trees), fmt.Errorf("topology %d not readable: %v (%s)", i, err, text)
		}
		names := m.Tips()
		sort.Strings(names)
		if mismatch {
			// not refused: then it must still be the complete enumeration on c.N tips
			if len(names) != c.N {
				return len(trees), fmt.Errorf("AllTopologies(%d, rooted=%v, %d names) is not refused and topology %d has %d tips (%s)", c.N, c.Rooted, len(c.Names), i, len(names), text)
			}
		} else if strings.Join(names, ",") != strings.Join(wantNames, ",") {
			return len(trees), fmt.Errorf("topology %d has tips %v, requested %v", i, names, wantNames)
		}
		var canon string
		if c.Rooted {
			if len(m.Ch) != 2 {
				return len(trees), fmt.Errorf("rooted topology %d has a root with %d children (%s)", i, len(m.Ch), text)
			}
			canon = ref.CanonRooted(m)
		} else {
			if len(m.Ch) != 3 {
				return len(trees), fmt.Errorf("unrooted topology %d has a root with %d children (%s)", i, len(m.Ch), text)
			}
			canon, err = ref.CanonUnrooted(m)
			if err != nil {
				return len(trees), err
			}
		}
		bin := true
		m.Walk(func(x, p *ref.Node) {
			if p != nil && !x.IsTip() && len(x.Ch) != 2 {
				bin = false
			}
		})
		if !bin {
			return len(trees), fmt.Errorf("topology %d is not binary (%s)", i, text)
		}
		if j, dup := seen[canon]; dup {
			return len(trees), fmt.Errorf("topologies %d and %d are the same labelled topology (%s)", j, i, text)
		}
		seen[canon] = i
	}
	return len(trees), nil
}

func TestC16Enumerator(t *testing.T) {
	r := h.NewRecorder(t, "C16", "enumerator", "AllTopologies(n, rooted) for every n from 0 up to the largest n with <= 10395 (quick) / 135135 (thorough) topologies, default and caller-given tip names (plain ones, and distinct names that differ by case only, hold a blank, look like equal numbers or carry quotes): count = (2n-5)!! unrooted / (2n-3)!! rooted, every tree binary on the requested names, canonical forms (split sets / nested clades of the reference reading) pairwise distinct; sizes below the minimum refused; name lists of another length than n (1, n-1, n+1, 2n names) refused or else the complete enumeration on n tips, never a crash; plus `gotree generate topologies -l n [-r]` for n <= 6; non-trivial = enumeration with >= 15 topologies")
	var c EnumCase
	if replaying, mine := r.ReplayCase(&c); replaying {
		if mine {
			_, err := checkEnum(c)
			r.Replayed(err)
		}
		return
	}
	if h.Shard() != 0 {
		return // a finite enumeration: done once, by shard 0
	}
	limit := 10395
	if h.Thorough() {
		limit = 135135
	}
	for _, rooted := range []bool{false, true} {
		for n := 0; ; n++ {
			want := dfact(2*n - 5)
			if rooted {
				want = dfact(2*n - 3)
			}
			if want > limit {
				break
			}
			for _, style := range []int{0, 1, 2} {
				named := style > 0
				c := EnumCase{N: n, Rooted: rooted}
				if named {
					if n > 7 {
						continue
					}
					for i := 0; i < n; i++ {
						if style == 2 {
							// distinct names that loose comparisons confuse: same letters in another case, a
							// blank inside, labels that look like (equal) numbers, quotes, one name prefix of another
							c.Names = append(c.Names, []string{"abc1", "ABC1", "a b", "1", "01", "'q r'", "Abc1", "1.0", "abc", "a  b"}[(i*3+n)%10])
						} else {
							c.Names = append(c.Names, fmt.Sprintf("n%d", (i*5+3)%n*10+i))
						}
					}
					if n == 0 {
						continue
					}
				}
				err := r.Guard(c, 120e9, func() error {
					k, err := checkEnum(c)
					r.Eval(c, k >= 15, fmt.Sprintf("rooted=%v", rooted))
					return err
				})
				if err != nil {
					r.Fail(c, "%v", err)
					return
				}
				if style == 1 && n <= 6 {
					// name lists of another length than the requested size: refused, or ignored - never a
					// crash or a partial enumeration
					for _, k := range []int{1, n - 1, n + 1, 2 * n} {
						if k < 1 || k == n {
							continue
						}
						mc := EnumCase{N: n, Rooted: rooted}
						for i := 0; i < k; i++ {
							mc.Names = append(mc.Names, fmt.Sprintf("m%d", i))
						}
						err := r.Guard(mc, 120e9, func() error {
							_, err := checkEnum(mc)
							r.Eval(mc, false, "name-count-mismatch")
							return err
						})
						if err != nil {
							r.Fail(mc, "%v", err)
							return
						}
					}
				}
			}
		}
	}
	if cli.Available() {
		for _, rooted := range []bool{false, true} {
			for n := 1; n <= 6; n++ {
				args := []string{"generate", "topologies", "-l", strconv.Itoa(n)}
				if rooted {
					args = append(args, "-r")
				}
				// every other enumeration is written with -o to a file (an older, longer file is in its way)
				dir := cli.Scratch()
				toFile := (n+map[bool]int{false: 0, true: 1}[rooted])%2 == 0
				if toFile {
					args = append(args, "-o", "topologies.nw")
				}
				res := cli.Run(dir, "", args...)
				if toFile {
					if strings.TrimSpace(res.Stdout) != "" && res.Code == 0 {
						r.Fail(EnumCase{N: n, Rooted: rooted}, "gotree %v: told to write to a file and prints %q", args, firstLines(res.Stdout))
						return
					}
					if res.Code == 0 {
						res.Stdout = cli.Read(dir, "topologies.nw")
					}
				}
				c := EnumCase{N: n, Rooted: rooted}
				want := dfact(2*n - 5)
				min := 3
				if rooted {
					want, min = dfact(2*n-3), 2
				}
				r.Eval(map[string]any{"cli": args}, want >= 15, "cli")
				if res.Panicked() || res.TimedOut {
					r.Fail(c, "gotree %v crashed or hung: %s", args, firstLines(res.Stderr))
					return
				}
				if n < min {
					if res.Code == 0 && !(strings.Contains(res.Stderr, "[Error]") && strings.TrimSpace(res.Stdout) == "") {
						r.Fail(c, "gotree %v: size below the minimum neither refused nor reported", args)
						return
					}
					continue
				}
				lines := strings.Split(strings.TrimRight(res.Stdout, "\n"), "\n")
				if res.Code != 0 || len(lines) != want {
					r.Fail(c, "gotree %v: exit %d, %d topologies printed, expected %d", args, res.Code, len(lines), want)
					return
				}
				seen := map[string]bool{}
				for _, l := range lines {
					m, err := ref.Parse(l)
					if err != nil {
						r.Fail(c, "gotree %v: unreadable output %q", args, l)
						return
					}
					canon := ref.CanonRooted(m)
					if !rooted {
						canon, _ = ref.CanonUnrooted(m)
					}
					if seen[canon] {
						r.Fail(c, "gotree %v prints the same topology twice: %s", args, l)
						return
					}
					seen[canon] = true
				}
			}
		}
	}
	r.Exhaustive()
}
