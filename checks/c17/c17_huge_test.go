package c17

import (
	"crypto/sha1"
	"fmt"
	"testing"

	"github.com/evolbioinfo/gotree/tree"

	"verif/internal/gt"
	"verif/internal/h"
	"verif/internal/ref"
)

// ---------------------------------------------------------------------------------------
// huge: trees beyond the 2000-element capacities that the tree code preallocates for its node
// and edge lists (a binary tree on 1002 tips has 2001 branches when unrooted).
//
// The per-proposal oracles of the main check are too slow here; what is judged: the number of
// proposals (two per inner branch, from the reference model), every Apply / Undo succeeds, the
// texts of the neighbours are pairwise different and different from the original, every 40th
// neighbour differs from the original by exactly one split (reference reading), and the text of
// the tree after the whole enumeration is the text before.

type HugeCase struct {
	Shape  string `json:"shape"` // caterpillar | ladder-of-cherries
	N      int    `json:"n"`
	Rooted bool   `json:"rooted"`
}

func hugeModel(c HugeCase) *ref.Node {
	tip := func(i int) *ref.Node {
		return &ref.Node{Name: fmt.Sprintf("t%d", i), Len: ref.F(float64(i%7) + 0.5)}
	}
	inner := func(i int, ch ...*ref.Node) *ref.Node {
		return &ref.Node{Ch: ch, Len: ref.F(0.25 * float64(1+i%3)), Sup: ref.F(float64(i%11) / 10)}
	}
	var cur *ref.Node
	switch c.Shape {
	case "caterpillar":
		cur = inner(0, tip(0), tip(1))
		for i := 2; i < c.N-1; i++ {
			cur = inner(i, cur, tip(i))
		}
	default:
		// a backbone carrying cherries: inner branches on both sides of every backbone node
		cur = inner(0, tip(0), tip(1))
		for i := 2; i+1 < c.N-1; i += 2 {
			cur = inner(i, cur, inner(i+1, tip(i), tip(i+1)))
		}
		for len(cur.Tips()) < c.N-1 {
			cur = inner(len(cur.Tips()), cur, tip(len(cur.Tips())))
		}
	}
	last := tip(c.N - 1)
	if c.Rooted {
		return &ref.Node{Ch: []*ref.Node{cur, last}}
	}
	// unrooted: root of degree three
	a, b := cur.Ch[0], cur.Ch[1]
	return &ref.Node{Ch: []*ref.Node{a, b, last}}
}

func checkHuge(c HugeCase) error {
	m := hugeModel(c)
	if len(m.Tips()) != c.N {
		return fmt.Errorf("harness: model has %d tips, wanted %d", len(m.Tips()), c.N)
	}
	t, err := gt.FromModel(m)
	if err != nil {
		return err
	}
	before := t.Newick()
	u0, err := ref.Unrooted(m)
	if err != nil {
		return err
	}
	want := expectedCount(m)
	key := func(text string) [20]byte { return sha1.Sum([]byte(text)) }
	seen := map[[20]byte]int{key(before): -1}
	i := 0
	var ferr error
	(&tree.NNIRearranger{}).Rearrange(t, func(r tree.Rearrangement) bool {
		if err := r.Apply(); err != nil {
			ferr = fmt.Errorf("proposal %d: Apply failed: %v", i, err)
			return false
		}
		text := t.Newick()
		if j, dup := seen[key(text)]; dup {
			ferr = fmt.Errorf("proposal %d gives the same text as proposal %d (-1: the original)", i, j)
			return false
		}
		seen[key(text)] = i
		if i%40 == 0 {
			m1, err := ref.Parse(text)
			if err != nil {
				ferr = fmt.Errorf("proposal %d: neighbour not readable: %v", i, err)
				return false
			}
			u1, err := ref.UnrootedOn(m1, u0.Taxa)
			if err != nil {
				ferr = fmt.Errorf("proposal %d: %v", i, err)
				return false
			}
			only0, only1 := 0, 0
			for k := range u0.Splits {
				if _, ok := u1.Splits[k]; !ok {
					only0++
				}
			}
			for k := range u1.Splits {
				if _, ok := u0.Splits[k]; !ok {
					only1++
				}
			}
			if only0 != 1 || only1 != 1 {
				ferr = fmt.Errorf("proposal %d differs from the original by %d / %d splits, expected 1 / 1", i, only0, only1)
				return false
			}
		}
		if err := r.Undo(); err != nil {
			ferr = fmt.Errorf("proposal %d: Undo failed: %v", i, err)
			return false
		}
		if i%200 == 0 {
			if after := t.Newick(); after != before {
				ferr = fmt.Errorf("proposal %d: Undo did not restore the text of the tree", i)
				return false
			}
		}
		i++
		return true
	})
	if ferr != nil {
		return ferr
	}
	if i != want {
		return fmt.Errorf("%d rearrangements proposed for a binary tree with %d tips (%d branches), expected %d (two per inner branch)", i, c.N, len(t.Edges()), want)
	}
	if after := t.Newick(); after != before {
		return fmt.Errorf("the tree is not the same text after the enumeration")
	}
	return nil
}

func TestC17Huge(t *testing.T) {
	r := h.NewRecorder(t, "C17", "huge", "constructed binary trees (caterpillar; backbone carrying cherries) on 1001, 1002, 1003, 1100 and 2100 tips, rooted and unrooted, with lengths and supports - around and beyond the 2000 branches the tree code preallocates room for: number of proposals = two per inner branch (reference model), every Apply / Undo succeeds, neighbour texts pairwise different and different from the original, every 40th neighbour differs from the original by exactly one split in each direction (reference reading), text restored after every 200th Undo and after the whole enumeration; every case is non-trivial")
	var rc HugeCase
	if replaying, mine := r.ReplayCase(&rc); replaying {
		if mine {
			r.Replayed(checkHuge(rc))
		}
		return
	}
	sizes := []int{1001, 1002, 1003, 1100}
	if h.Thorough() {
		sizes = append(sizes, 2100, 4100)
	}
	k := 0
	for _, shape := range []string{"caterpillar", "cherries"} {
		for _, n := range sizes {
			for _, rooted := range []bool{false, true} {
				k++
				if k%h.NShards() != h.Shard() {
					continue
				}
				c := HugeCase{Shape: shape, N: n, Rooted: rooted}
				var err error
				if gerr := r.Guard(c, 300e9, func() error { err = checkHuge(c); return nil }); gerr != nil {
					err = gerr
				}
				r.Eval(c, true, "shape:"+shape, fmt.Sprintf("rooted=%v", rooted))
				if err != nil {
					r.Fail(c, "%v", err)
				}
			}
		}
	}
	if h.NShards() == 1 {
		r.Exhaustive()
	}
}
