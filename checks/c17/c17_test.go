package c17

import (
	"fmt"
	"sort"
	"strings"
	"testing"

	"pgregory.net/rapid"

	"github.com/evolbioinfo/gotree/tree"

	"verif/internal/cli"
	"verif/internal/gen"
	"verif/internal/gt"
	"verif/internal/h"
	"verif/internal/ops"
	"verif/internal/ref"
)

func TestMain(m *testing.M) { h.Main(m) }

type Case struct {
	Tree   *ref.Node `json:"tree"`
	Reroot int       `json:"reroot"` // -1 or selector of the inner node the (unrooted) tree is re-rooted at first
	CLI    bool      `json:"cli,omitempty"`
	Listed bool      `json:"listed,omitempty"` // also: collect every proposal first, apply / undo them after the enumeration has returned
	Hist   []ops.Op  `json:"history,omitempty"` // the tree was indexed and then edited in memory by these operations (it stays binary)
	PreUse bool      `json:"pre_use,omitempty"` // the rearranger object has enumerated a larger tree before
}

func genCase(t *rapid.T, thorough bool) Case {
	o := gen.Opts{MinTips: 4, MaxTips: 12, BigTips: 30, NoOver64: true, Rooted: -1, MaxDeg: 2, Lens: gen.AnyPresence, LenVals: gen.Dyadic, Sups: gen.AnyPresence, Pvals: true, InnerNames: gen.AnyPresence, Comments: rapid.Bool().Draw(t, "comments")}
	if thorough {
		o.BigTips = 100
	}
	c := Case{Tree: gen.Tree(t, o), Reroot: -1}
	if len(c.Tree.Ch) == 3 && rapid.Bool().Draw(t, "rr") {
		c.Reroot = rapid.IntRange(0, 1000).Draw(t, "rrat")
	}
	if c.Reroot < 0 && rapid.IntRange(0, 3).Draw(t, "hashist") == 0 {
		c.Hist = ops.GenHistoryOf(t, []string{"reroot", "rotate", "sort", "rotate_node", "nni", "nni_undo", "nni_double", "shuffle_tips", "clone", "reinit", "scale_lengths", "reroot_first", "unroot", "rename_swap", "setname_swap"}, 3)
	}
	c.CLI = cli.Available() && c.Reroot < 0 && len(c.Hist) == 0 && rapid.IntRange(0, 19).Draw(t, "cli") == 0
	c.Listed = rapid.Bool().Draw(t, "listed")
	c.PreUse = rapid.IntRange(0, 2).Draw(t, "preuse") == 0
	return c
}

// expected number of proposals: two per branch whose two ends both have three neighbours
func expectedCount(m *ref.Node) int {
	g := ref.NewGraph(m)
	k := 0
	for v := range g.Nodes {
		for _, e := range g.Adj[v] {
			if e.To() > v && len(g.Adj[v]) == 3 && len(g.Adj[e.To()]) == 3 {
				k++
			}
		}
	}
	return 2 * k
}

func splitLens(m *ref.Node) (map[string]float64, *ref.UView, error) {
	u, err := ref.Unrooted(m)
	if err != nil {
		return nil, nil, err
	}
	out := map[string]float64{}
	for k, s := range u.Splits {
		out[k] = s.Len
	}
	return out, u, nil
}

func canon(m *ref.Node) string {
	if len(m.Ch) == 2 {
		return "R" + ref.CanonRooted(m)
	}
	s, _ := ref.CanonUnrooted(m)
	return "U" + s
}

func check(c Case) error {
	_, err := run(c)
	return err
}

type info struct {
	proposals    int
	rootInSwapped bool
}

func run(c Case) (info, error) {
	var inf info
	t, err := gt.FromModel(c.Tree)
	if err != nil {
		return inf, err
	}
	if c.Reroot >= 0 {
		var inner []*tree.Node
		for _, n := range t.Nodes() {
			if n.Nneigh() == 3 {
				inner = append(inner, n)
			}
		}
		if len(inner) > 0 {
			if err := t.Reroot(inner[c.Reroot%len(inner)]); err != nil {
				return inf, fmt.Errorf("Reroot failed: %v", err)
			}
		}
	}
	if len(c.Hist) > 0 {
		// the tree was used before: indexed, then edited in memory by operations that keep it binary
		if err := t.ReinitIndexes(); err != nil {
			return inf, err
		}
		if t2, _, ok, herr := ops.Replay(t, c.Hist); herr != nil {
			return inf, herr
		} else if ok {
			t = t2
		} else if t, err = gt.FromModel(c.Tree); err != nil {
			return inf, err
		}
	}
	before := t.Newick()
	m0, err := gt.Read(t)
	if err != nil {
		return inf, err
	}
	s0, _, err := splitLens(m0)
	if err != nil {
		return inf, err
	}
	tips0 := m0.Tips()
	sort.Strings(tips0)
	want := expectedCount(m0)
	seen := map[string]int{canon(m0): -1}
	var texts []string
	var ferr error
	i := 0
	// one rearranger object serves several trees, as in `gotree nni` on a multi-tree input: in a
	// third of the cases it has enumerated a larger tree (16 tips) before
	rr := &tree.NNIRearranger{}
	if c.PreUse {
		if big, perr := gt.Parse("((((pa:1,pb:1):1,(pc:1,pd:1):1):1,((pe:1,pf:1):1,(pg:1,ph:1):1):1):1,(((pi:1,pj:1):1,(pk:1,pl:1):1):1,((pm:1,pn:1):1,(po:1,pp:1):1):1):1,pq:1);"); perr == nil {
			rr.Rearrange(big, func(r tree.Rearrangement) bool { return true })
		}
	}
	rr.Rearrange(t, func(r tree.Rearrangement) bool {
		fail := func(format string, a ...any) bool {
			ferr = fmt.Errorf("proposal %d: %s\n original %s", i, fmt.Sprintf(format, a...), before)
			return false
		}
		if err := r.Apply(); err != nil {
			return fail("Apply failed: %v", err)
		}
		if err := gt.Structural(t); err != nil {
			return fail("after Apply: %v", err)
		}
		applied := t.Newick()
		m1, err := gt.Read(t)
		if err != nil {
			return fail("%v", err)
		}
		tips1 := m1.Tips()
		sort.Strings(tips1)
		if strings.Join(tips0, ",") != strings.Join(tips1, ",") {
			return fail("tips changed: %v", tips1)
		}
		s1, u1, err := splitLens(m1)
		if err != nil {
			return fail("%v", err)
		}
		out, in := 0, 0
		for k, l := range s0 {
			l1, ok := s1[k]
			if !ok {
				out++
				continue
			}
			if l1 != l {
				return fail("length of split %s changed from %v to %v (%s)", u1.Describe(k), l, l1, applied)
			}
		}
		for k := range s1 {
			if _, ok := s0[k]; !ok {
				in++
			}
		}
		if out != 1 || in != 1 {
			return fail("neighbour differs by %d splits out and %d in, expected exactly one each (%s)", out, in, applied)
		}
		cf := canon(m1)
		if j, dup := seen[cf]; dup {
			return fail("same topology as proposal %d (%s)", j, applied)
		}
		seen[cf] = i
		texts = append(texts, applied)
		if len(m1.Ch) != len(m0.Ch) {
			inf.rootInSwapped = true
		}
		// applying twice = once
		if err := r.Apply(); err != nil || t.Newick() != applied {
			return fail("second Apply changed the tree or failed (%v)", err)
		}
		if err := r.Undo(); err != nil {
			return fail("Undo failed: %v", err)
		}
		if got := t.Newick(); got != before {
			return fail("Undo did not restore the tree:\n after undo %s", got)
		}
		if err := gt.Structural(t); err != nil {
			return fail("after Undo: %v", err)
		}
		if err := r.Undo(); err != nil || t.Newick() != before {
			return fail("Undo without Apply changed the tree or failed (%v)", err)
		}
		// a rearrangement that was undone can be applied again (a search re-applies its best move)
		if err := r.Apply(); err != nil || t.Newick() != applied {
			return fail("Apply after Undo does not give the neighbour again (%v): %s", err, t.Newick())
		}
		if err := r.Undo(); err != nil || t.Newick() != before {
			return fail("second Undo does not restore the tree (%v): %s", err, t.Newick())
		}
		i++
		return true
	})
	inf.proposals = i
	if ferr != nil {
		return inf, ferr
	}
	if i != want {
		return inf, fmt.Errorf("%d rearrangements proposed, expected %d (two per branch whose ends both have three neighbours)\n tree %s", i, want, before)
	}
	if got := t.Newick(); got != before {
		return inf, fmt.Errorf("tree changed after the full enumeration:\n before %s\n after  %s", before, got)
	}
	if c.Listed {
		// a search lists the moves first and tries them afterwards: every proposal handed to the
		// callback must stay the move it was
		var kept []tree.Rearrangement
		rr.Rearrange(t, func(r tree.Rearrangement) bool { // the same object a second time
			kept = append(kept, r)
			return true
		})
		if len(kept) != len(texts) {
			return inf, fmt.Errorf("second enumeration proposes %d rearrangements, the first one %d\n tree %s", len(kept), len(texts), before)
		}
		for k, r := range kept {
			if err := r.Apply(); err != nil {
				return inf, fmt.Errorf("proposal %d kept after the enumeration: Apply failed: %v", k, err)
			}
			if got := t.Newick(); got != texts[k] {
				return inf, fmt.Errorf("proposal %d kept after the enumeration gives %s, inside the enumeration it gave %s\n original %s", k, got, texts[k], before)
			}
			if err := r.Undo(); err != nil || t.Newick() != before {
				return inf, fmt.Errorf("proposal %d kept after the enumeration: Undo does not restore the tree (%v): %s", k, err, t.Newick())
			}
		}
	}
	if c.CLI && !strings.ContainsAny(before, "\r\n") { // the command reads its input line by line
		// the command handles a stream of trees: the same tree twice must give the list twice
		dir := cli.Scratch()
		r := cli.Run(dir, before+"\n"+before+"\n", "nni")
		texts = append(append([]string{}, texts...), texts...)
		if c.Reroot == -1 && len(c.Tree.Tips())%2 == 0 {
			// the same list written with -o file
			r2 := cli.Run(dir, before+"\n"+before+"\n", "nni", "-o", "nni.out")
			if r2.Code != 0 || cli.Read(dir, "nni.out") != r.Stdout {
				return inf, fmt.Errorf("gotree nni -o file writes %d bytes (status %d), stdout gives %d bytes", len(cli.Read(dir, "nni.out")), r2.Code, len(r.Stdout))
			}
		}
		if r.Code != 0 || r.TimedOut {
			return inf, fmt.Errorf("gotree nni exited with %d: %s", r.Code, r.Stderr)
		}
		got := strings.Split(strings.TrimRight(r.Stdout, "\n"), "\n")
		if len(texts) == 0 && strings.TrimSpace(r.Stdout) == "" {
			return inf, nil
		}
		if strings.Join(got, "\n") != strings.Join(texts, "\n") {
			return inf, fmt.Errorf("gotree nni prints %d trees that differ from the library's %d neighbours\n cli %v\n lib %v", len(got), len(texts), got, texts)
		}
	}
	return inf, nil
}

func TestC17NNI(t *testing.T) {
	h.Run(t, h.Spec[Case]{
		Property: "C17", Name: "nni", Quick: 6000, Thorough: 320000,
		Rule: "binary trees (4..12 tips, 5% up to 30/100; rooted with a root of degree 2 or unrooted; lengths, supports with p-values, inner names, comments), in a quarter of the cases indexed and then edited in memory by 1-3 operations that keep the tree binary (re-root, rotate, NNI, names exchanged, copy ...) before the enumeration, unrooted ones optionally re-rooted at another inner node first; full enumeration of NNIRearranger: count = 2 x branches whose ends both have three neighbours (= 2(n-3) unrooted), after Apply: structural invariant, same tips, exactly one split out and one in, lengths of all other splits unchanged, canonical topology different from the original and from every other neighbour, second Apply is a no-op; Undo restores byte-identical text, Undo without Apply is a no-op; text unchanged after the enumeration; in half of the cases all proposals of a second enumeration are kept and applied / undone after it has returned (same neighbours in the same order); 5% of the cases compare `gotree nni` with the library's list; non-trivial = >= 6 tips",
		Gen: genCase, Check: check,
		Classify: func(c Case) (bool, []string) {
			var l []string
			if len(c.Tree.Ch) == 2 {
				l = append(l, "rooted")
			} else {
				l = append(l, "unrooted")
			}
			if c.Reroot >= 0 {
				l = append(l, "rerooted-first")
			}
			if c.CLI {
				l = append(l, "cli")
			}
			return len(c.Tree.Tips()) >= 6, l
		},
	})
}

// ---------------------------------------------------------------------------------------
// command level, large trees: the neighbour list of a tree with 70-140 tips is 140-270 trees of
// several kB each (more than 256 kB of output)

type LargeCase struct {
	Tree   *ref.Node `json:"tree"`
	Twice  bool      `json:"twice"`
	ToFile bool      `json:"to_file"`
}

func checkLarge(c LargeCase) error {
	if !cli.Available() {
		return fmt.Errorf("harness: gotree binary not built")
	}
	t, err := gt.FromModel(c.Tree)
	if err != nil {
		return err
	}
	before := t.Newick()
	var texts []string
	var ferr error
	(&tree.NNIRearranger{}).Rearrange(t, func(r tree.Rearrangement) bool {
		if err := r.Apply(); err != nil {
			ferr = err
			return false
		}
		texts = append(texts, t.Newick())
		if err := r.Undo(); err != nil {
			ferr = err
			return false
		}
		return true
	})
	if ferr != nil {
		return ferr
	}
	if want := expectedCount(c.Tree); len(texts) != want {
		return fmt.Errorf("%d rearrangements proposed, expected %d", len(texts), want)
	}
	in := before + "\n"
	if c.Twice {
		in += before + "\n"
		texts = append(append([]string{}, texts...), texts...)
	}
	dir := cli.Scratch()
	args := []string{"nni"}
	if c.ToFile {
		args = append(args, "-o", "nni.out")
	}
	extra, stdin, infiles, _ := cli.Present(cli.InModes[len(c.Tree.Tips())%len(cli.InModes)], in, "-i")
	for name, content := range infiles {
		cli.WriteIn(dir, name, content)
	}
	args = append(args, extra...)
	r := cli.Run(dir, stdin, args...)
	if r.Code != 0 || r.TimedOut {
		return fmt.Errorf("gotree %v exited with %d: %s", args, r.Code, r.Stderr)
	}
	out := r.Stdout
	if c.ToFile {
		out = cli.Read(dir, "nni.out")
	}
	got := strings.Split(strings.TrimRight(out, "\n"), "\n")
	if len(got) != len(texts) {
		return fmt.Errorf("gotree nni writes %d lines (%d bytes) for a tree with %d tips, expected %d neighbours", len(got), len(out), len(c.Tree.Tips()), len(texts))
	}
	for i := range got {
		if got[i] != texts[i] {
			return fmt.Errorf("gotree nni: line %d of %d (output of %d bytes) is not neighbour %d of the library:\n cli %s\n lib %s", i, len(got), len(out), i, clip(got[i]), clip(texts[i]))
		}
	}
	return nil
}

func clip(s string) string {
	if len(s) > 400 {
		return s[:400] + "..."
	}
	return s
}

func TestC17CliLarge(t *testing.T) {
	h.Run(t, h.Spec[LargeCase]{
		Property: "C17", Name: "cli-large", Quick: 24, Thorough: 480,
		Rule: "`gotree nni` (stdout or -o file, the tree once or twice in the stream, handed over on stdin, in a file, in a gzip file or as a Nexus document) on binary trees with 70-140 tips, lengths and supports: the output (0.3-2 MB) must be exactly the library's neighbour list, line by line; every case is non-trivial",
		Gen: func(t *rapid.T, thorough bool) LargeCase {
			n := rapid.IntRange(70, 140).Draw(t, "ntips")
			o := gen.Opts{MinTips: n, MaxTips: n, NoOver64: true, Rooted: -1, MaxDeg: 2, Lens: gen.All, LenVals: gen.Arbitrary, Sups: gen.AnyPresence}
			return LargeCase{Tree: gen.Tree(t, o), Twice: rapid.Bool().Draw(t, "twice"), ToFile: rapid.Bool().Draw(t, "tofile")}
		},
		Check:    checkLarge,
		Classify: func(c LargeCase) (bool, []string) { return true, []string{fmt.Sprintf("twice=%v", c.Twice), fmt.Sprintf("tofile=%v", c.ToFile)} },
	})
}
