package c19

import (
	"fmt"
	"regexp"
	"sort"
	"strconv"
	"strings"
	"testing"

	"github.com/spf13/cobra"
	"github.com/spf13/pflag"
	"pgregory.net/rapid"

	"github.com/evolbioinfo/gotree/cmd"

	"verif/internal/cli"
	"verif/internal/clit"
	"verif/internal/h"
)

func TestMain(m *testing.M) { h.Main(m) }

// ---------------------------------------------------------------------------------------
// (a) exhaustive: after every command has registered its options, the value an invocation
// without the option will use (the flag's current value) is the default the help text prints.

type FlagCase struct {
	Command string `json:"command"`
	Flag    string `json:"flag"`
}

type flagInfo struct {
	cmd  *cobra.Command
	path string
	f    *pflag.Flag
}

func allFlags() []flagInfo {
	var out []flagInfo
	var walk func(c *cobra.Command, path string)
	walk = func(c *cobra.Command, path string) {
		visit := func(f *pflag.Flag) { out = append(out, flagInfo{c, path, f}) }
		c.LocalNonPersistentFlags().VisitAll(visit)
		c.PersistentFlags().VisitAll(visit)
		for _, s := range c.Commands() {
			walk(s, path+" "+s.Name())
		}
	}
	walk(cmd.RootCmd, "gotree")
	sort.Slice(out, func(i, j int) bool {
		if out[i].path != out[j].path {
			return out[i].path < out[j].path
		}
		return out[i].f.Name < out[j].f.Name
	})
	return out
}

func checkFlag(fi flagInfo) error {
	if fi.f.DefValue != fi.f.Value.String() {
		return fmt.Errorf("%s --%s: the help text documents the default %q, an invocation without the option uses %q", fi.path, fi.f.Name, fi.f.DefValue, fi.f.Value.String())
	}
	return nil
}

func TestC19Registered(t *testing.T) {
	r := h.NewRecorder(t, "C19", "registered", "exhaustive enumeration of every option (local and persistent) of every command and sub-command reachable from the root command after all init() functions ran: (i) pflag's DefValue must equal the current value of the option's storage (what an invocation without the option uses), and (ii) the line for the option in the Flags / Global Flags section of the text printed by `gotree <path> --help` (the real binary) must exist and its '(default x)' suffix (absent = zero value) must denote that same value, compared by type; non-trivial = the option's storage variable is registered by >= 2 commands (the class in which a foreign default can win)")
	flags := allFlags()
	var rc FlagCase
	if replaying, mine := r.ReplayCase(&rc); replaying {
		if mine {
			for _, fi := range flags {
				if fi.path == rc.Command && fi.f.Name == rc.Flag {
					r.Replayed(checkFlag(fi))
					return
				}
			}
			r.Replayed(fmt.Errorf("option %s --%s no longer exists", rc.Command, rc.Flag))
		}
		return
	}
	if h.Shard() != 0 {
		return
	}
	// (c) diagnosis: storage shared between commands
	byVar := map[pflag.Value][]flagInfo{}
	for _, fi := range flags {
		byVar[fi.f.Value] = append(byVar[fi.f.Value], fi)
	}
	shared, conflicting := 0, []string{}
	for _, l := range byVar {
		if len(l) < 2 {
			continue
		}
		shared++
		defs := map[string]bool{}
		var regs []string
		for _, fi := range l {
			defs[fi.f.DefValue] = true
			regs = append(regs, fmt.Sprintf("%s --%s=%q", fi.path, fi.f.Name, fi.f.DefValue))
		}
		if len(defs) > 1 {
			sort.Strings(regs)
			conflicting = append(conflicting, strings.Join(regs, "; "))
		}
	}
	sort.Strings(conflicting)
	r.Extra("flags", len(flags))
	r.Extra("storage_variables_shared_by_several_commands", shared)
	r.Extra("shared_variables_with_different_documented_defaults", conflicting)
	// the help text itself: what `gotree <command> --help` prints as default must be the value used
	if cli.Available() {
		helps := map[*cobra.Command]string{}
		nhelp := 0
		for _, fi := range flags {
			if fi.f.Name == "help" || fi.f.Hidden {
				continue
			}
			txt, ok := helps[fi.cmd]
			if !ok {
				args := append(strings.Fields(strings.TrimPrefix(fi.path, "gotree")), "--help")
				res := cli.Run(cli.Scratch(), "", args...)
				txt = res.Stdout + res.Stderr
				helps[fi.cmd] = txt
			}
			line, found := helpLine(txt, fi.f.Name)
			if !found {
				continue // the option is not listed in this command's help
			}
			nhelp++
			used := fi.f.Value.String()
			msg := helpDisagrees(line, fi.f.Value.Type(), used)
			if kf := r.Known(knownItolFormat); kf != nil && fi.path == "gotree download itol" && fi.f.Name == "format" {
				// known finding (see known_findings.json): excluded by its trigger, reported while it still fails
				r.Excluded(knownItolFormat)
				if msg != "" {
					r.KnownLine(kf)
				} else {
					fmt.Fprintf(h.Stdout, "VERIF-NOTE known finding %s no longer reproduces\n", knownItolFormat)
				}
				continue
			}
			if msg != "" {
				r.Fail(FlagCase{fi.path, fi.f.Name}, "%s --help: %s (line %q)", fi.path, msg, strings.TrimSpace(line))
			}
		}
		r.Extra("options_compared_with_the_printed_help_text", nhelp)
	}
	failed := 0
	for _, fi := range flags {
		c := FlagCase{fi.path, fi.f.Name}
		r.Eval(c, len(byVar[fi.f.Value]) >= 2, "type:"+fi.f.Value.Type())
		if err := checkFlag(fi); err != nil {
			failed++
			if failed <= 5 {
				r.Fail(c, "%v", err)
			}
		}
	}
	r.Exhaustive()
}

// ---------------------------------------------------------------------------------------
// (b) end to end: for a command template and an option it does not pass, running the command
// and running it with --option=<documented default> must give the same result.

type OmitCase struct {
	Template string       `json:"template"`
	Flag     string       `json:"flag"`
	Extra    []string     `json:"extra,omitempty"` // other options of the command passed with non-default values in both runs
	Data     clit.Dataset `json:"data"`
	Seed     int64        `json:"seed"`
	// Spaced: the documented default is typed as two arguments (--option value) instead of
	// --option=value (options that take a value only)
	Spaced bool `json:"spaced,omitempty"`
}

// extraValue draws a non-default value for another option of the command (the meaning of an
// omitted option must not depend on which other options are typed).
func extraValue(t *rapid.T, f *pflag.Flag) string {
	switch f.Value.Type() {
	case "bool":
		if f.DefValue == "true" {
			return "--" + f.Name + "=false"
		}
		return "--" + f.Name
	case "int", "int64":
		return "--" + f.Name + "=" + rapid.SampledFrom([]string{"0", "1", "2", "3", "5", "10", "300", "400"}).Draw(t, "xint")
	case "float64":
		return "--" + f.Name + "=" + rapid.SampledFrom([]string{"0", "0.01", "0.1", "0.5", "1", "2", "100"}).Draw(t, "xfloat")
	case "string":
		switch f.Name {
		case "metric":
			return "--metric=" + rapid.SampledFrom([]string{"boot", "none"}).Draw(t, "xmetric")
		case "algo":
			return "--algo=" + rapid.SampledFrom([]string{"deltran", "downpass"}).Draw(t, "xalgo")
		}
	}
	return ""
}

func templateByName(n string) (clit.Template, bool) {
	for _, t := range clit.Templates() {
		if t.Name == n {
			return t, true
		}
	}
	return clit.Template{}, false
}

// omittable lists the scalar options of the template's command that the template does not pass.
func omittable(tp clit.Template) []*pflag.Flag {
	c, _, err := cmd.RootCmd.Find(tp.Args)
	if err != nil || c == nil {
		return nil
	}
	passed := func(f *pflag.Flag) bool {
		for _, a := range tp.Args {
			if a == "--"+f.Name || strings.HasPrefix(a, "--"+f.Name+"=") || (f.Shorthand != "" && a == "-"+f.Shorthand) {
				return true
			}
		}
		if f.Name == "seed" {
			return true // every run of part (b) passes --seed
		}
		return false
	}
	// two names bound to the same storage are aliases of one option (e.g. `reformat
	// --input-format` is documented as "alias to --format"): when the template passes one of
	// them the option is not omitted
	passedStorage := map[pflag.Value]bool{}
	mark := func(f *pflag.Flag) {
		if passed(f) {
			passedStorage[f.Value] = true
		}
	}
	c.LocalFlags().VisitAll(mark)
	c.InheritedFlags().VisitAll(mark)
	var out []*pflag.Flag
	seen := map[string]bool{}
	visit := func(f *pflag.Flag) {
		if seen[f.Name] || f.Name == "help" || passed(f) || passedStorage[f.Value] {
			return
		}
		// every option whose default is one printable value, whatever the Go type behind it (an
		// option with a hand-written value type documents and takes its default like any other);
		// list-valued options print their default as [a,b], which is not what one types
		if ty := f.Value.Type(); !strings.HasSuffix(ty, "Slice") && !strings.HasSuffix(ty, "Array") && ty != "count" && !strings.HasPrefix(ty, "stringTo") {
			seen[f.Name] = true
			out = append(out, f)
		}
	}
	c.LocalFlags().VisitAll(visit)
	c.InheritedFlags().VisitAll(visit)
	sort.Slice(out, func(i, j int) bool { return out[i].Name < out[j].Name })
	return out
}

func checkOmit(c OmitCase) error {
	tp, ok := templateByName(c.Template)
	if !ok {
		return fmt.Errorf("harness: unknown template %q", c.Template)
	}
	if !cli.Available() {
		return fmt.Errorf("harness: gotree binary not built")
	}
	var fl *pflag.Flag
	for _, f := range omittable(tp) {
		if f.Name == c.Flag {
			fl = f
		}
	}
	if fl == nil {
		return nil // the option is not (or no longer) omittable for this template
	}
	seed := c.Seed // always seeded: an extra option may make the command draw random numbers
	for _, x := range c.Extra {
		if strings.HasPrefix(x, "--"+fl.Name+"=") || x == "--"+fl.Name {
			return nil
		}
	}
	// dates and times written to log files are masked: two runs can straddle a minute
	base := clit.Run(tp, c.Data, seed, 0, c.Extra...).Masked()
	again := clit.Run(tp, c.Data, seed, 0, c.Extra...).Masked()
	if base.Diff(again) != "" {
		return nil // not reproducible: a matter for C18, nothing can be concluded here
	}
	typed, shown := []string{"--" + fl.Name + "=" + fl.DefValue}, "--"+fl.Name+"="+fl.DefValue
	if c.Spaced && fl.Value.Type() != "bool" {
		typed, shown = []string{"--" + fl.Name, fl.DefValue}, "--"+fl.Name+" "+fl.DefValue+" (two arguments)"
	}
	with := clit.Run(tp, c.Data, seed, 0, append(append([]string{}, c.Extra...), typed...)...).Masked()
	if d := base.Diff(with); d != "" {
		return fmt.Errorf("%s %v: leaving out --%s differs from passing its documented default %s: %s", tp.Name, c.Extra, fl.Name, shown, d)
	}
	return nil
}

func TestC19Omitted(t *testing.T) {
	type pair struct{ tpl, flag string }
	var pairs []pair
	for _, tp := range clit.Templates() {
		for _, f := range omittable(tp) {
			pairs = append(pairs, pair{tp.Name, f.Name})
		}
	}
	h.Run(t, h.Spec[OmitCase]{
		Property: "C19", Name: "omitted", Quick: 800, Thorough: 32000, Timeout: 300e9,
		Rule: fmt.Sprintf("%d (command template, omitted scalar option) pairs over %d templates x generated data sets x seed: the command is run without the option and with --option=<default printed by the help text> in new processes (same seed, same stdin), in half of the cases together with 1-2 other options of the command set to non-default values in both runs; exit status, stdout and all written files must be identical; templates whose baseline is not reproducible are skipped; non-trivial = the baseline run exits with status 0 and produces output", len(pairs), len(clit.Templates())),
		Gen: func(t *rapid.T, thorough bool) OmitCase {
			p := pairs[rapid.IntRange(0, len(pairs)-1).Draw(t, "pair")]
			c := OmitCase{Template: p.tpl, Flag: p.flag, Data: clit.GenDataset(t), Seed: rapid.Int64Range(0, 1<<31).Draw(t, "seed"), Spaced: rapid.Bool().Draw(t, "spaced")}
			tp, _ := templateByName(p.tpl)
			others := omittable(tp)
			for i, n := 0, rapid.SampledFrom([]int{0, 0, 1, 1, 2}).Draw(t, "nextra"); i < n && len(others) > 1; i++ {
				f := others[rapid.IntRange(0, len(others)-1).Draw(t, "xflag")]
				if f.Name == p.flag || f.Name == "seed" || f.Name == "threads" || f.Name == "help" {
					continue
				}
				if x := extraValue(t, f); x != "" {
					c.Extra = append(c.Extra, x)
				}
			}
			return c
		},
		Check: checkOmit,
		Classify: func(c OmitCase) (bool, []string) {
			tp, _ := templateByName(c.Template)
			o := clit.Run(tp, c.Data, c.Seed, 0, c.Extra...)
			size := len(o.Stdout)
			for _, v := range o.Files {
				size += len(v)
			}
			return o.Code == 0 && size > 0, []string{"flag:" + c.Flag, fmt.Sprintf("extra-options:%d", len(c.Extra))}
		},
	})
}

// ---------------------------------------------------------------------------------------
// (b') the same relation for EVERY (template, omitted option) pair, once per run (no extra options),
// on data sets derived from VERIF_SEED: the random exploration above cannot be relied upon to
// visit each of the ~1500 pairs.

func TestC19OmittedAll(t *testing.T) {
	r := h.NewRecorder(t, "C19", "omitted-all", "every (command template, omitted scalar option) pair of the template table, twice per run, on a data set with 12-16 tips and on one with 67-130 tips, both generated from VERIF_SEED: the command without the option and with the documented default typed (--option=value on the small data set, --option value as two arguments on the large one) must give identical exit status, stdout and files; the templates that type no option at all are also run with standard input on the null device (not a pipe), bare and with each option at its default; non-trivial = the baseline run exits with status 0 and produces output")
	var rc OmitCase
	if replaying, mine := r.ReplayCase(&rc); replaying {
		if mine {
			r.Replayed(checkOmit(rc))
		}
		return
	}
	if !cli.Available() {
		t.Fatalf("gotree binary not built")
	}
	dsgen := rapid.Custom(func(t *rapid.T) clit.Dataset { return clit.GenDatasetSized(t, false) })
	lggen := rapid.Custom(func(t *rapid.T) clit.Dataset { return clit.GenDatasetSized(t, true) })
	var sets []clit.Dataset
	for i := 0; i < 3; i++ {
		sets = append(sets, dsgen.Example(int(h.Seed())*100+i))
	}
	large := lggen.Example(int(h.Seed())*100 + 7)
	k := 0
	for _, tp := range clit.Templates() {
		for _, f := range omittable(tp) {
			for _, big := range []bool{false, true} {
				k++
				if k%h.NShards() != h.Shard() {
					continue
				}
				c := OmitCase{Template: tp.Name, Flag: f.Name, Data: sets[k%len(sets)], Seed: h.Seed() + int64(k)}
				if big {
					// the second run of the pair: the large data set, and the default typed as two arguments
					c.Data, c.Spaced = large, true
				}
				var err error
				gerr := r.Guard(map[string]any{"template": c.Template, "flag": c.Flag}, 300e9, func() error {
					err = checkOmit(c)
					return nil
				})
				if gerr != nil {
					err = gerr
				}
				o := clit.Run(tp, c.Data, c.Seed, 0)
				size := len(o.Stdout)
				for _, v := range o.Files {
					size += len(v)
				}
				r.Eval(map[string]any{"template": c.Template, "flag": c.Flag}, o.Code == 0 && size > 0, "flag:"+c.Flag)
				if err != nil {
					r.Fail(c, "%v", err)
				}
			}
		}
	}
	// nothing typed at all, standard input not redirected (null device): every command that takes
	// its input from stdin by default must then behave as with any one option typed with its
	// documented default (both read an empty input)
	for _, tp := range clit.Templates() {
		bare := !tp.Seeded
		for _, a := range tp.Args {
			if strings.HasPrefix(a, "-") || strings.HasPrefix(a, "@") {
				bare = false
			}
		}
		if !bare {
			continue
		}
		for _, f := range omittable(tp) {
			k++
			if k%h.NShards() != h.Shard() {
				continue
			}
			id := map[string]any{"template": tp.Name, "flag": f.Name, "stdin": "null device"}
			dir := cli.Scratch()
			base := cli.RunNoStdin(dir, tp.Args...)
			with := cli.RunNoStdin(dir, append(append([]string{}, tp.Args...), "--"+f.Name+"="+f.DefValue)...)
			r.Eval(id, true, "no-stdin")
			if base.TimedOut || with.TimedOut {
				continue // a command waiting for input is not this check's subject
			}
			if base.Code != with.Code || base.Stdout != with.Stdout {
				r.Fail(id, "gotree %s with nothing typed and no redirected input: exit status %d, %d bytes printed; with --%s=%s: exit status %d, %d bytes printed", strings.Join(tp.Args, " "), base.Code, len(base.Stdout), f.Name, f.DefValue, with.Code, len(with.Stdout))
			}
		}
	}
	if h.NShards() == 1 {
		r.Exhaustive()
	}
}

const knownItolFormat = "K01-download-itol-format-help"

// helpLine returns the line of the options section of a help text that documents --name.
func helpLine(help, name string) (string, bool) {
	re := regexp.MustCompile(`^\s+(-\w, )?--` + regexp.QuoteMeta(name) + `(\s|$)`)
	inFlags := false
	for _, l := range strings.Split(help, "\n") {
		if l == "Flags:" || l == "Global Flags:" {
			inFlags = true
			continue
		}
		if inFlags && re.MatchString(l) {
			return l, true
		}
	}
	return "", false
}

// helpDisagrees tells how the default printed at the end of a help line (pflag appends
// ` (default X)`, strings quoted, nothing for zero values) differs from the value used.
func helpDisagrees(line, typ, used string) string {
	t := strings.TrimRight(line, " ")
	shown, has := "", false
	if i := strings.LastIndex(t, " (default "); i >= 0 && strings.HasSuffix(t, ")") {
		lit := t[i+len(" (default ") : len(t)-1]
		switch typ {
		case "string":
			if len(lit) >= 2 && lit[0] == '"' && lit[len(lit)-1] == '"' {
				shown, has = lit[1:len(lit)-1], true
			}
		case "bool":
			if lit == "true" || lit == "false" {
				shown, has = lit, true
			}
		default:
			if _, err := strconv.ParseFloat(lit, 64); err == nil {
				shown, has = lit, true
			}
		}
	}
	zero := used == "" || used == "0" || used == "false"
	switch {
	case has && shown != used:
		return fmt.Sprintf("the help text shows the default %q, an invocation without the option uses %q", shown, used)
	case !has && !zero:
		return fmt.Sprintf("the help text shows no default, an invocation without the option uses %q", used)
	}
	return ""
}
