package c20

import (
	"fmt"
	"math"
	"math/rand"
	"sort"
	"strconv"
	"strings"
	"testing"

	"github.com/evolbioinfo/gotree/tree"

	"verif/internal/cli"
	"verif/internal/gt"
	"verif/internal/h"
	"verif/internal/ref"
)

func TestMain(m *testing.M) { h.Main(m) }

// A scenario draws one outcome per seed; the outcomes with positive probability and their
// probabilities are known in advance.
type scenario struct {
	name   string
	cli    bool
	cells  map[string]float64 // outcome -> probability
	run    func(seed int64) (string, error)
	margin func(outcome string) []string // optional marginal events (e.g. "element i selected")
	mcells map[string]float64
}

type Case struct {
	Scenario string `json:"scenario"`
	Base     int64  `json:"first_seed"`
	N        int    `json:"seeds"`
}

// seedAt gives the i-th seed of a sweep that starts at base. The seeds are spread over the 31-bit
// range that math/rand reduces a seed to (a bijective mix of the counter), not consecutive integers:
// generators seeded with s, s+1, s+2 ... are related - their k-th outputs form a near-arithmetic
// progression for some k - so that "the distribution over the seed" taken over a run of consecutive
// seeds is not the distribution over seeds (met once: the 200th draw of `sample --replace -n 30`
// over 600 consecutive seeds, p = 1e-15 on the unchanged code).
func seedAt(base int64, i int) int64 {
	z := uint64(base+int64(i)) + 0x9E3779B97F4A7C15
	z = (z ^ (z >> 30)) * 0xBF58476D1CE4E5B9
	z = (z ^ (z >> 27)) * 0x94D049BB133111EB
	z ^= z >> 31
	return int64(z%2147483646) + 1
}

// ---------------------------------------------------------------------------------------
// exact binomial tails (log-gamma, no normal approximation)

func logChoose(n, k int) float64 {
	a, _ := math.Lgamma(float64(n + 1))
	b, _ := math.Lgamma(float64(k + 1))
	c, _ := math.Lgamma(float64(n - k + 1))
	return a - b - c
}

func binomPMF(n, k int, p float64) float64 {
	if p <= 0 {
		if k == 0 {
			return 1
		}
		return 0
	}
	if p >= 1 {
		if k == n {
			return 1
		}
		return 0
	}
	return math.Exp(logChoose(n, k) + float64(k)*math.Log(p) + float64(n-k)*math.Log1p(-p))
}

// tail returns min(P(X <= k), P(X >= k)) for X ~ Bin(n, p).
func tail(n, k int, p float64) float64 {
	lo, hi := 0.0, 0.0
	for i := 0; i <= k; i++ {
		lo += binomPMF(n, i, p)
	}
	for i := k; i <= n; i++ {
		hi += binomPMF(n, i, p)
	}
	return math.Min(lo, hi)
}

// run-level false alarm probability bounded by 1e-9: Bonferroni over at most 1e4 tested cells
const cellAlpha = 1e-13

func evaluate(sc scenario, c Case) (map[string]int, error) {
	counts := map[string]int{}
	mcounts := map[string]int{}
	for i := 0; i < c.N; i++ {
		o, err := sc.run(seedAt(c.Base, i))
		if err != nil {
			return counts, fmt.Errorf("%s, seed %d: %v", sc.name, seedAt(c.Base, i), err)
		}
		if sc.cells != nil {
			if _, ok := sc.cells[o]; !ok {
				return counts, fmt.Errorf("%s, seed %d: outcome %q is not one of the %d possible outcomes", sc.name, seedAt(c.Base, i), o, len(sc.cells))
			}
			counts[o]++
		}
		if sc.margin != nil {
			for _, m := range sc.margin(o) {
				mcounts[m]++
			}
		}
	}
	keys := make([]string, 0, len(sc.cells))
	for k := range sc.cells {
		keys = append(keys, k)
	}
	sort.Strings(keys)
	for _, k := range keys {
		p := sc.cells[k]
		// support: every outcome with positive probability must occur when a miss is practically impossible
		if counts[k] == 0 && float64(c.N)*math.Log1p(-p) < math.Log(1e-12) {
			return counts, fmt.Errorf("%s: outcome %q (probability %.4g) never occurred in %d seeds: it cannot be selected", sc.name, k, p, c.N)
		}
		if t := tail(c.N, counts[k], p); t < cellAlpha {
			return counts, fmt.Errorf("%s: outcome %q occurred %d times in %d seeds, expected %.1f (probability %.4g); exact binomial tail %.3g", sc.name, k, counts[k], c.N, p*float64(c.N), p, t)
		}
	}
	mkeys := make([]string, 0, len(sc.mcells))
	for k := range sc.mcells {
		mkeys = append(mkeys, k)
	}
	sort.Strings(mkeys)
	for _, k := range mkeys {
		p := sc.mcells[k]
		if mcounts[k] == 0 && p > 0 && float64(c.N)*math.Log1p(-p) < math.Log(1e-12) {
			return counts, fmt.Errorf("%s: event %q (probability %.4g) never occurred in %d seeds", sc.name, k, p, c.N)
		}
		if t := tail(c.N, mcounts[k], p); t < cellAlpha {
			return counts, fmt.Errorf("%s: event %q occurred %d times in %d seeds, expected %.1f; exact binomial tail %.3g", sc.name, k, mcounts[k], c.N, p*float64(c.N), t)
		}
	}
	return counts, nil
}

// ---------------------------------------------------------------------------------------
// helpers to enumerate outcome spaces

func uniform(keys []string) map[string]float64 {
	m := map[string]float64{}
	for _, k := range keys {
		m[k] = 1 / float64(len(keys))
	}
	return m
}

func subsets(n, k int) []string {
	var out []string
	var rec func(start int, cur []string)
	rec = func(start int, cur []string) {
		if len(cur) == k {
			out = append(out, strings.Join(cur, ","))
			return
		}
		for i := start; i < n; i++ {
			rec(i+1, append(append([]string{}, cur...), strconv.Itoa(i)))
		}
	}
	rec(0, nil)
	return out
}

func tuples(n, k int) []string {
	out := []string{""}
	for j := 0; j < k; j++ {
		var next []string
		for _, p := range out {
			for i := 0; i < n; i++ {
				if p == "" {
					next = append(next, strconv.Itoa(i))
				} else {
					next = append(next, p+","+strconv.Itoa(i))
				}
			}
		}
		out = next
	}
	return out
}

func perms(items []string) []string {
	var out []string
	var rec func(cur []string, rest []string)
	rec = func(cur, rest []string) {
		if len(rest) == 0 {
			out = append(out, strings.Join(cur, ","))
			return
		}
		for i := range rest {
			r := append(append([]string{}, rest[:i]...), rest[i+1:]...)
			rec(append(append([]string{}, cur...), rest[i]), r)
		}
	}
	rec(nil, items)
	return out
}

// allTopologies enumerates the canonical forms of all labelled binary topologies on Tip0..Tip(n-1)
// by inserting tips on every branch (independent of gotree's enumerator).
func allTopologies(n int, rooted bool) []string {
	names := make([]string, n)
	for i := range names {
		names[i] = "Tip" + strconv.Itoa(i)
	}
	var start *ref.Node
	k := 0
	if rooted {
		start = &ref.Node{Ch: []*ref.Node{{Name: names[0]}, {Name: names[1]}}}
		k = 2
	} else {
		start = &ref.Node{Ch: []*ref.Node{{Name: names[0]}, {Name: names[1]}, {Name: names[2]}}}
		k = 3
	}
	cur := []*ref.Node{start}
	for ; k < n; k++ {
		var next []*ref.Node
		for _, t := range cur {
			nodes := t.All()
			for idx := range nodes {
				if idx == 0 && !rooted {
					continue
				}
				c := t.Clone()
				cn := c.All()
				if idx == 0 {
					// above the root (rooted trees only)
					next = append(next, &ref.Node{Ch: []*ref.Node{c, {Name: names[k]}}})
					continue
				}
				x := cn[idx]
				p := c.Parents()[x]
				nn := &ref.Node{Ch: []*ref.Node{x, {Name: names[k]}}}
				for i, ch := range p.Ch {
					if ch == x {
						p.Ch[i] = nn
					}
				}
				next = append(next, c)
			}
		}
		cur = next
	}
	seen := map[string]bool{}
	var out []string
	for _, t := range cur {
		c := canon(t, rooted)
		if !seen[c] {
			seen[c] = true
			out = append(out, c)
		}
	}
	return out
}

// unrootedCherryForm re-hangs an unrooted tree (root of degree 3) on an inner node that is not
// part of a cherry when the root itself has two tip children (then those two tips are a cherry of
// the unrooted tree only if the root has degree 3, which the re-hanging makes explicit).
func unrootedCherryForm(m *ref.Node) *ref.Node {
	tipch := 0
	for _, c := range m.Ch {
		if c.IsTip() {
			tipch++
		}
	}
	if tipch < 2 || len(m.Ch) != 3 {
		return m
	}
	for _, c := range m.Ch {
		if !c.IsTip() {
			return ref.RerootAt(m, c)
		}
	}
	return m
}

func canon(m *ref.Node, rooted bool) string {
	if rooted {
		return ref.CanonRooted(m)
	}
	s, _ := ref.CanonUnrooted(m)
	return s
}

// ---------------------------------------------------------------------------------------
// scenarios

func numberedTrees(n int) string {
	var b strings.Builder
	for i := 0; i < n; i++ {
		fmt.Fprintf(&b, "(a,b,t%d);\n", i)
	}
	return b.String()
}

func treeIDs(out string) ([]string, error) {
	var ids []string
	for _, l := range strings.Split(strings.TrimSpace(out), "\n") {
		if l == "" {
			continue
		}
		i := strings.Index(l, ",t")
		j := strings.Index(l, ");")
		if i < 0 || j < i {
			return nil, fmt.Errorf("unexpected output line %q", l)
		}
		ids = append(ids, l[i+2:j])
	}
	return ids, nil
}

func inclusion(n, k int) (func(string) []string, map[string]float64) {
	mc := map[string]float64{}
	for i := 0; i < n; i++ {
		mc["element "+strconv.Itoa(i)+" selected"] = float64(k) / float64(n)
	}
	return func(o string) []string {
		var ev []string
		for _, id := range strings.Split(o, ",") {
			ev = append(ev, "element "+id+" selected")
		}
		return ev
	}, mc
}

func scenarios() []scenario {
	var out []scenario
	// library level
	for _, n := range []int{3, 4} {
		n := n
		names := []string{"a", "b", "c", "d"}[:n]
		text := "(" + strings.Join(names, ",") + ");"
		out = append(out, scenario{name: fmt.Sprintf("ShuffleTips n=%d", n), cells: uniform(perms(names)), run: func(seed int64) (string, error) {
			t, err := gt.Parse(text)
			if err != nil {
				return "", err
			}
			rand.Seed(seed)
			t.ShuffleTips()
			var got []string
			for _, tip := range t.Tips() {
				got = append(got, tip.Name())
			}
			return strings.Join(got, ","), nil
		}})
		out = append(out, scenario{name: fmt.Sprintf("RotateNeighbors degree=%d", n), cells: uniform(perms(names)), run: func(seed int64) (string, error) {
			t, err := gt.Parse(text)
			if err != nil {
				return "", err
			}
			rand.Seed(seed)
			t.Root().RotateNeighbors()
			var got []string
			for _, nb := range t.Root().Neigh() {
				got = append(got, nb.Name())
			}
			return strings.Join(got, ","), nil
		}})
	}
	// the same draws on tree objects that were indexed and then changed in memory (a tip grafted
	// on a branch, a tip pruned): every tip of the tree as it is now takes part
	{
		four := []string{"a", "b", "c", "d"}
		out = append(out, scenario{name: "ShuffleTips on (a,b,c) indexed, then tip d grafted on a branch", cells: uniform(perms(four)), run: func(seed int64) (string, error) {
			t, err := gt.Parse("(a,b,c);")
			if err != nil {
				return "", err
			}
			if err := t.ReinitIndexes(); err != nil {
				return "", err
			}
			nd := t.NewNode()
			nd.SetName("d")
			if _, _, _, err := t.GraftTipOnEdge(nd, t.Edges()[int(seed)%3]); err != nil {
				return "", err
			}
			rand.Seed(seed)
			t.ShuffleTips()
			var got []string
			for _, tip := range t.Tips() {
				got = append(got, tip.Name())
			}
			return strings.Join(got, ","), nil
		}})
		three := []string{"a", "b", "c"}
		out = append(out, scenario{name: "ShuffleTips on (a,b,c,d) indexed, then tip d pruned", cells: uniform(perms(three)), run: func(seed int64) (string, error) {
			t, err := gt.Parse("(a,b,(c,d));")
			if err != nil {
				return "", err
			}
			if err := t.ReinitIndexes(); err != nil {
				return "", err
			}
			if err := t.RemoveTips(false, "d"); err != nil {
				return "", err
			}
			rand.Seed(seed)
			t.ShuffleTips()
			var got []string
			for _, tip := range t.Tips() {
				got = append(got, tip.Name())
			}
			return strings.Join(got, ","), nil
		}})
	}
	for _, rooted := range []bool{false, true} {
		for _, n := range []int{3, 4, 5, 6} {
			if (n == 3 && !rooted) || (n == 6 && rooted) {
				continue
			}
			n, rooted := n, rooted
			out = append(out, scenario{name: fmt.Sprintf("RandomUniformBinaryTree n=%d rooted=%v", n, rooted), cells: uniform(allTopologies(n, rooted)), run: func(seed int64) (string, error) {
				rand.Seed(seed)
				t, err := tree.RandomUniformBinaryTree(n, rooted)
				if err != nil {
					return "", err
				}
				m, err := ref.Parse(t.Newick())
				if err != nil {
					return "", err
				}
				m.Walk(func(x, p *ref.Node) { x.Len = nil })
				return canon(m, rooted), nil
			}})
		}
	}
	// larger sizes: the outcome space is too large to test cell by cell; marginal events with known
	// probabilities are tested instead
	for _, n := range []int{8, 20} {
		n := n
		var names []string
		for i := 0; i < n; i++ {
			names = append(names, fmt.Sprintf("t%02d", i))
		}
		text := "(" + strings.Join(names, ",") + ");"
		mc := map[string]float64{}
		for i := 0; i < n; i++ {
			for j := 0; j < n; j++ {
				mc[fmt.Sprintf("position %d gets %s", i, names[j])] = 1 / float64(n)
			}
		}
		pos := func(o string) []string {
			var ev []string
			for i, nm := range strings.Split(o, ",") {
				ev = append(ev, fmt.Sprintf("position %d gets %s", i, nm))
			}
			return ev
		}
		out = append(out, scenario{name: fmt.Sprintf("ShuffleTips n=%d (position x name marginals)", n), margin: pos, mcells: mc, run: func(seed int64) (string, error) {
			t, err := gt.Parse(text)
			if err != nil {
				return "", err
			}
			rand.Seed(seed)
			t.ShuffleTips()
			var got []string
			for _, tip := range t.Tips() {
				got = append(got, tip.Name())
			}
			return strings.Join(got, ","), nil
		}})
		out = append(out, scenario{name: fmt.Sprintf("RotateNeighbors degree=%d (position x neighbour marginals)", n), margin: pos, mcells: mc, run: func(seed int64) (string, error) {
			t, err := gt.Parse(text)
			if err != nil {
				return "", err
			}
			rand.Seed(seed)
			t.Root().RotateNeighbors()
			var got []string
			for _, nb := range t.Root().Neigh() {
				got = append(got, nb.Name())
			}
			return strings.Join(got, ","), nil
		}})
	}
	for _, rooted := range []bool{false, true} {
		for _, n := range []int{9, 14} {
			n, rooted := n, rooted
			// P(tips i and j form a cherry) = 1/(2n-5) for unrooted, 1/(2n-3) for rooted labelled binary trees
			p := 1 / float64(2*n-5)
			if rooted {
				p = 1 / float64(2*n-3)
			}
			mc := map[string]float64{}
			for i := 0; i < n; i++ {
				for j := i + 1; j < n; j++ {
					mc[fmt.Sprintf("cherry Tip%d Tip%d", i, j)] = p
				}
			}
			out = append(out, scenario{name: fmt.Sprintf("RandomUniformBinaryTree n=%d rooted=%v (cherry marginals)", n, rooted), mcells: mc,
				margin: func(o string) []string {
					if o == "" {
						return nil
					}
					return strings.Split(o, ";")
				},
				run: func(seed int64) (string, error) {
					rand.Seed(seed)
					t, err := tree.RandomUniformBinaryTree(n, rooted)
					if err != nil {
						return "", err
					}
					m, err := ref.Parse(t.Newick())
					if err != nil {
						return "", err
					}
					if !rooted {
						// a cherry of the unrooted tree may straddle the pseudo-root: re-hang the tree so that
						// every cherry is a node with exactly two tip children
						m = unrootedCherryForm(m)
					}
					var ev []string
					m.Walk(func(x, p *ref.Node) {
						if len(x.Ch) == 2 && x.Ch[0].IsTip() && x.Ch[1].IsTip() {
							a, _ := strconv.Atoi(strings.TrimPrefix(x.Ch[0].Name, "Tip"))
							b, _ := strconv.Atoi(strings.TrimPrefix(x.Ch[1].Name, "Tip"))
							if a > b {
								a, b = b, a
							}
							ev = append(ev, fmt.Sprintf("cherry Tip%d Tip%d", a, b))
						}
					})
					return strings.Join(ev, ";"), nil
				}})
		}
	}
	if !cli.Available() {
		return out
	}
	// command level (the reservoir code lives in the commands)
	for _, nk := range [][2]int{{2, 1}, {3, 1}, {4, 2}, {5, 2}, {6, 3}, {5, 5}, {4, 6}} {
		n, k := nk[0], nk[1]
		kk := k
		if kk > n {
			kk = n
		}
		input := numberedTrees(n)
		mf, mc := inclusion(n, kk)
		out = append(out, scenario{name: fmt.Sprintf("gotree sample -n %d on %d trees", k, n), cli: true, cells: uniform(subsets(n, kk)), margin: mf, mcells: mc, run: func(seed int64) (string, error) {
			r := cli.Run(cli.Scratch(), input, "sample", "-n", strconv.Itoa(k), "--seed", strconv.FormatInt(seed, 10))
			if r.Code != 0 {
				return "", fmt.Errorf("exit %d: %s", r.Code, r.Stderr)
			}
			ids, err := treeIDs(r.Stdout)
			if err != nil {
				return "", err
			}
			sort.Slice(ids, func(i, j int) bool { a, _ := strconv.Atoi(ids[i]); b, _ := strconv.Atoi(ids[j]); return a < b })
			return strings.Join(ids, ","), nil
		}})
	}
	for _, nk := range [][2]int{{2, 3}, {3, 2}, {4, 1}, {11, 1}, {15, 1}} {
		n, k := nk[0], nk[1]
		input := numberedTrees(n)
		out = append(out, scenario{name: fmt.Sprintf("gotree sample --replace -n %d on %d trees", k, n), cli: true, cells: uniform(tuples(n, k)), run: func(seed int64) (string, error) {
			r := cli.Run(cli.Scratch(), input, "sample", "--replace", "-n", strconv.Itoa(k), "--seed", strconv.FormatInt(seed, 10))
			if r.Code != 0 {
				return "", fmt.Errorf("exit %d: %s", r.Code, r.Stderr)
			}
			ids, err := treeIDs(r.Stdout)
			return strings.Join(ids, ","), err
		}})
	}
	// many draws with replacement (n^k far beyond 2^63): every slot, the late ones included, holds
	// each tree with probability 1/n
	for _, nk := range [][2]int{{10, 30}, {4, 40}} {
		n, k := nk[0], nk[1]
		input := numberedTrees(n)
		mc := map[string]float64{}
		slots := []int{0, k / 3, k/2 + 4, k - 2, k - 1}
		for _, j := range slots {
			for i := 0; i < n; i++ {
				mc[fmt.Sprintf("slot %d holds tree %d", j, i)] = 1 / float64(n)
			}
		}
		out = append(out, scenario{name: fmt.Sprintf("gotree sample --replace -n %d on %d trees (slot marginals)", k, n), cli: true, mcells: mc, margin: func(o string) []string {
			ids := strings.Split(o, ",")
			var ev []string
			for _, j := range slots {
				if j < len(ids) {
					ev = append(ev, fmt.Sprintf("slot %d holds tree %s", j, ids[j]))
				}
			}
			return ev
		}, run: func(seed int64) (string, error) {
			r := cli.Run(cli.Scratch(), input, "sample", "--replace", "-n", strconv.Itoa(k), "--seed", strconv.FormatInt(seed, 10))
			if r.Code != 0 {
				return "", fmt.Errorf("exit %d: %s", r.Code, r.Stderr)
			}
			ids, err := treeIDs(r.Stdout)
			if err == nil && len(ids) != k {
				err = fmt.Errorf("%d trees sampled, %d requested", len(ids), k)
			}
			return strings.Join(ids, ","), err
		}})
	}
	for _, nk := range [][3]int{{4, 1, 0}, {5, 2, 0}, {6, 3, 0}, {5, 3, 1}, {6, 4, 1}} {
		n, k, rev := nk[0], nk[1], nk[2] == 1
		var names []string
		for i := 0; i < n; i++ {
			names = append(names, "t"+strconv.Itoa(i))
		}
		// a caterpillar so that >= 3 tips always remain meaningful for the command
		input := "(" + strings.Join(names, ",") + ");\n"
		args := []string{"prune", "--random", strconv.Itoa(k)}
		label := fmt.Sprintf("gotree prune --random %d on %d tips", k, n)
		if rev {
			args = append(args, "-r")
			label += " (-r: keep)"
		}
		mf, mc := inclusion(n, k)
		out = append(out, scenario{name: label, cli: true, cells: uniform(subsets(n, k)), margin: mf, mcells: mc, run: func(seed int64) (string, error) {
			r := cli.Run(cli.Scratch(), input, append(append([]string{}, args...), "--seed", strconv.FormatInt(seed, 10))...)
			if r.Code != 0 {
				return "", fmt.Errorf("exit %d: %s", r.Code, r.Stderr)
			}
			m, err := ref.Parse(strings.TrimSpace(r.Stdout))
			if err != nil {
				return "", err
			}
			left := map[string]bool{}
			for _, tip := range m.Tips() {
				left[tip] = true
			}
			var sel []string
			for i, nm := range names {
				if left[nm] == rev {
					sel = append(sel, strconv.Itoa(i))
				}
			}
			return strings.Join(sel, ","), nil
		}})
	}
	for _, nk := range [][2]int{{20, 5}, {12, 11}} {
		n, k := nk[0], nk[1]
		input := numberedTrees(n)
		mf, mc := inclusion(n, k)
		out = append(out, scenario{name: fmt.Sprintf("gotree sample -n %d on %d trees (inclusion marginals)", k, n), cli: true, margin: mf, mcells: mc, run: func(seed int64) (string, error) {
			r := cli.Run(cli.Scratch(), input, "sample", "-n", strconv.Itoa(k), "--seed", strconv.FormatInt(seed, 10))
			if r.Code != 0 {
				return "", fmt.Errorf("exit %d: %s", r.Code, r.Stderr)
			}
			ids, err := treeIDs(r.Stdout)
			if err == nil && len(ids) != k {
				err = fmt.Errorf("%d trees sampled, %d requested", len(ids), k)
			}
			return strings.Join(ids, ","), err
		}})
		var tn []string
		for i := 0; i < n; i++ {
			tn = append(tn, "t"+strconv.Itoa(i))
		}
		tinput := "(" + strings.Join(tn, ",") + ");\n"
		kk := k
		if n-kk < 3 {
			kk = n - 3
		}
		mf2, mc2 := inclusion(n, kk)
		out = append(out, scenario{name: fmt.Sprintf("gotree prune --random %d on %d tips (inclusion marginals)", kk, n), cli: true, margin: mf2, mcells: mc2, run: func(seed int64) (string, error) {
			r := cli.Run(cli.Scratch(), tinput, "prune", "--random", strconv.Itoa(kk), "--seed", strconv.FormatInt(seed, 10))
			if r.Code != 0 {
				return "", fmt.Errorf("exit %d: %s", r.Code, r.Stderr)
			}
			m, err := ref.Parse(strings.TrimSpace(r.Stdout))
			if err != nil {
				return "", err
			}
			left := map[string]bool{}
			for _, tip := range m.Tips() {
				left[tip] = true
			}
			var sel []string
			for i, nm := range tn {
				if !left[nm] {
					sel = append(sel, strconv.Itoa(i))
				}
			}
			if len(sel) != kk {
				return "", fmt.Errorf("%d tips removed, %d requested", len(sel), kk)
			}
			return strings.Join(sel, ","), nil
		}})
	}
	// the trees come from a gzip file made of two members (cat a.gz b.gz): all of them can be drawn
	{
		input := numberedTrees(6)
		out = append(out, scenario{name: "gotree sample -n 1 -i on a two-member gzip file of 6 trees", cli: true, cells: uniform(tuples(6, 1)), run: func(seed int64) (string, error) {
			dir := cli.Scratch()
			args, _, files, _ := cli.Present("gz", input, "-i")
			for n, c := range files {
				cli.WriteIn(dir, n, c)
			}
			r := cli.Run(dir, "", append([]string{"sample", "-n", "1", "--seed", strconv.FormatInt(seed, 10)}, args...)...)
			if r.Code != 0 {
				return "", fmt.Errorf("exit %d: %s", r.Code, r.Stderr)
			}
			ids, err := treeIDs(r.Stdout)
			return strings.Join(ids, ","), err
		}})
	}
	// a file in which two trees fill the reader's 4096-byte buffer exactly (blanks after a comma bring
	// the text up to its ';' to 4096 and 8192 bytes, the second one followed by a blank): every tree
	// of the file can be drawn
	{
		lines := strings.Split(strings.TrimSuffix(numberedTrees(5), "\n"), "\n")
		padTo := func(l string, n int) string { return "(a," + strings.Repeat(" ", n-len(l)) + l[3:] }
		lines[1] = padTo(lines[1], 4096)
		lines[3] = padTo(lines[3], 8192) + " "
		input := strings.Join(lines, "\n") + "\n"
		for _, mode := range []string{"stdin", "file"} {
			mode := mode
			out = append(out, scenario{name: "gotree sample -n 1 on 5 trees, two of them filling the 4096-byte read buffer exactly (" + mode + ")", cli: true, cells: uniform(tuples(5, 1)), run: func(seed int64) (string, error) {
				dir := cli.Scratch()
				args := []string{"sample", "-n", "1", "--seed", strconv.FormatInt(seed, 10)}
				stdin := input
				if mode == "file" {
					cli.Write(dir, "padded.nw", input)
					args, stdin = append(args, "-i", "padded.nw"), ""
				}
				r := cli.Run(dir, stdin, args...)
				if r.Code != 0 {
					return "", fmt.Errorf("exit %d: %s", r.Code, r.Stderr)
				}
				ids, err := treeIDs(strings.ReplaceAll(r.Stdout, " ", ""))
				return strings.Join(ids, ","), err
			}})
		}
	}
	// tip labels written between quotes, some with a blank inside, next to plain ones: the quotes are
	// part of the name and every tip can be drawn
	{
		qn := []string{"'t0 sp'", "'t1'", "t2", "'t3 x'", "t4", "t5"}
		input := "((" + qn[0] + "," + qn[1] + ")," + qn[2] + ",(" + qn[3] + "," + qn[4] + ")," + qn[5] + ");\n"
		for _, rev := range []bool{false, true} {
			rev := rev
			args := []string{"prune", "--random", "3"}
			label := "gotree prune --random 3 on 6 tips, three of them with quoted labels"
			if rev {
				args = append(args, "-r")
				label += " (-r: keep)"
			}
			out = append(out, scenario{name: label, cli: true, cells: uniform(subsets(6, 3)), run: func(seed int64) (string, error) {
				r := cli.Run(cli.Scratch(), input, append(append([]string{}, args...), "--seed", strconv.FormatInt(seed, 10))...)
				if r.Code != 0 {
					return "", fmt.Errorf("exit %d: %s", r.Code, r.Stderr)
				}
				m, err := ref.Parse(strings.TrimSpace(r.Stdout))
				if err != nil {
					return "", err
				}
				left := map[string]bool{}
				for _, tip := range m.Tips() {
					left[tip] = true
				}
				var sel []string
				for i, nm := range qn {
					if left[nm] == rev {
						sel = append(sel, strconv.Itoa(i))
					}
				}
				if len(sel) != 3 {
					return "", fmt.Errorf("%d tips selected, 3 requested (output %s)", len(sel), strings.TrimSpace(r.Stdout))
				}
				return strings.Join(sel, ","), nil
			}})
		}
	}
	// streams: a tree with fewer tips than requested must not change what later trees get
	{
		six := []string{"t0", "t1", "t2", "t3", "t4", "t5"}
		big := "(" + strings.Join(six, ",") + ");\n"
		input := big + "(t0,t1,t2);\n" + big
		out = append(out, scenario{name: "gotree prune -r --random 4 on a file of trees with 6, 3 and 6 tips (tips kept in the third tree)", cli: true, cells: uniform(subsets(6, 4)), run: func(seed int64) (string, error) {
			r := cli.Run(cli.Scratch(), input, "prune", "-r", "--random", "4", "--seed", strconv.FormatInt(seed, 10))
			if r.Code != 0 {
				return "", fmt.Errorf("exit %d: %s", r.Code, r.Stderr)
			}
			lines := strings.Split(strings.TrimSpace(r.Stdout), "\n")
			if len(lines) != 3 {
				return "", fmt.Errorf("%d trees printed for 3", len(lines))
			}
			m, err := ref.Parse(lines[2])
			if err != nil {
				return "", err
			}
			left := map[string]bool{}
			for _, tip := range m.Tips() {
				left[tip] = true
			}
			var sel []string
			for i, nm := range six {
				if left[nm] {
					sel = append(sel, strconv.Itoa(i))
				}
			}
			return strings.Join(sel, ","), nil
		}})
	}
	// streams: every tree of the input file gets its own, independent draw
	{
		n, k := 4, 1
		var tn []string
		for i := 0; i < n; i++ {
			tn = append(tn, "t"+strconv.Itoa(i))
		}
		line := "(" + strings.Join(tn, ",") + ");\n"
		var cells []string
		for _, a := range subsets(n, k) {
			for _, b := range subsets(n, k) {
				cells = append(cells, a+"|"+b)
			}
		}
		out = append(out, scenario{name: "gotree prune --random 1 on a file of two 4-tip trees (pairs of removed tips)", cli: true, cells: uniform(cells), run: func(seed int64) (string, error) {
			r := cli.Run(cli.Scratch(), line+line, "prune", "--random", strconv.Itoa(k), "--seed", strconv.FormatInt(seed, 10))
			if r.Code != 0 {
				return "", fmt.Errorf("exit %d: %s", r.Code, r.Stderr)
			}
			var parts []string
			for _, l := range strings.Split(strings.TrimSpace(r.Stdout), "\n") {
				m, err := ref.Parse(l)
				if err != nil {
					return "", err
				}
				left := map[string]bool{}
				for _, tip := range m.Tips() {
					left[tip] = true
				}
				var sel []string
				for i, nm := range tn {
					if !left[nm] {
						sel = append(sel, strconv.Itoa(i))
					}
				}
				parts = append(parts, strings.Join(sel, ","))
			}
			return strings.Join(parts, "|"), nil
		}})
		three := []string{"a", "b", "c"}
		var pcells []string
		for _, a := range perms(three) {
			for _, b := range perms(three) {
				pcells = append(pcells, a+"|"+b)
			}
		}
		out = append(out, scenario{name: "gotree shuffletips on a file of two 3-tip trees (pairs of permutations)", cli: true, cells: uniform(pcells), run: func(seed int64) (string, error) {
			r := cli.Run(cli.Scratch(), "(a,b,c);\n(a,b,c);\n", "shuffletips", "--seed", strconv.FormatInt(seed, 10))
			if r.Code != 0 {
				return "", fmt.Errorf("exit %d: %s", r.Code, r.Stderr)
			}
			var parts []string
			for _, l := range strings.Split(strings.TrimSpace(r.Stdout), "\n") {
				m, err := ref.Parse(l)
				if err != nil {
					return "", err
				}
				parts = append(parts, strings.Join(m.Tips(), ","))
			}
			return strings.Join(parts, "|"), nil
		}})
	}
	names := []string{"a", "b", "c", "d"}
	out = append(out, scenario{name: "gotree shuffletips n=4", cli: true, cells: uniform(perms(names)), run: func(seed int64) (string, error) {
		r := cli.Run(cli.Scratch(), "(a,b,c,d);\n", "shuffletips", "--seed", strconv.FormatInt(seed, 10))
		if r.Code != 0 {
			return "", fmt.Errorf("exit %d: %s", r.Code, r.Stderr)
		}
		m, err := ref.Parse(strings.TrimSpace(r.Stdout))
		if err != nil {
			return "", err
		}
		return strings.Join(m.Tips(), ","), nil
	}})
	out = append(out, scenario{name: "gotree generate uniformtree -l 5", cli: true, cells: uniform(allTopologies(5, false)), run: func(seed int64) (string, error) {
		r := cli.Run(cli.Scratch(), "", "generate", "uniformtree", "-l", "5", "--seed", strconv.FormatInt(seed, 10))
		if r.Code != 0 {
			return "", fmt.Errorf("exit %d: %s", r.Code, r.Stderr)
		}
		m, err := ref.Parse(strings.TrimSpace(r.Stdout))
		if err != nil {
			return "", err
		}
		return canon(m, false), nil
	}})
	return out
}

func TestC20Sweeps(t *testing.T) {
	r := h.NewRecorder(t, "C20", "sweeps", "seed sweeps: for each scenario (ShuffleTips n=3,4, also on trees indexed and then grafted / pruned in memory; RotateNeighbors degree 3,4; RandomUniformBinaryTree unrooted n=4,5,6 and rooted n=3,4,5; `gotree sample -n k` for (n,k) in {(2,1),(3,1),(4,2),(5,2),(6,3),(5,5),(4,6)}; `sample --replace` (2,3),(3,2),(4,1),(11,1),(15,1), and per-slot marginals for 30 draws from 10 trees and 40 draws from 4; `sample -n 1` from a two-member gzip file; `prune -r --random 4` on a stream of trees with 6, 3 and 6 tips; `prune --random k` remove/keep; `shuffletips`; `generate uniformtree`) the outcome is recorded for N consecutive seeds (library: rand.Seed(s); commands: --seed s; N = 40000/600 quick, 400000/6000 thorough) and every outcome cell and every 'element i selected' event is tested against its exact probability with an exact two-sided binomial test (per-cell level 1e-13, run-level false alarm probability < 1e-9), plus the support check (every possible outcome occurs; unexpected outcomes are violations). Evaluations = seeds drawn; non-trivial = seeds of scenarios with n > k >= 1 and >= 3 outcome cells")
	scs := scenarios()
	var rc Case
	if replaying, mine := r.ReplayCase(&rc); replaying {
		if mine {
			for _, sc := range scs {
				if sc.name == rc.Scenario {
					_, err := evaluate(sc, rc)
					r.Replayed(err)
					return
				}
			}
			r.Replayed(fmt.Errorf("scenario %q no longer exists", rc.Scenario))
		}
		return
	}
	nlib, ncli := 40000, 600
	if h.Thorough() {
		nlib, ncli = 400000, 6000
	}
	base := h.Seed() * 1000003
	for i, sc := range scs {
		if i%h.NShards() != h.Shard() {
			continue
		}
		c := Case{Scenario: sc.name, Base: base, N: nlib}
		if sc.cli {
			c.N = ncli
		}
		var counts map[string]int
		err := r.Guard(c, 3600e9, func() error {
			var e error
			counts, e = evaluate(sc, c)
			return e
		})
		nontrivial := len(sc.cells) >= 3 || len(sc.mcells) >= 3
		// one evaluation per seed; the distinct non-trivial cases are the distinct (scenario, seed) pairs
		for j := 0; j < c.N; j++ {
			r.Eval(map[string]any{"scenario": sc.name, "seed": seedAt(c.Base, j)}, nontrivial, "scenario:"+sc.name)
		}
		if nontrivial {
			r.Extra("nontrivial_seeds:"+sc.name, c.N)
		}
		r.Extra("cells:"+sc.name, len(sc.cells))
		_ = counts
		if err != nil {
			r.Fail(c, "%v", err)
		}
	}
}
