package c01

import (
	"fmt"
	"strings"
	"testing"

	"pgregory.net/rapid"

	"verif/internal/cli"
	"verif/internal/gen"
	"verif/internal/h"
	"verif/internal/ref"
)

// Command level: `gotree reformat newick` is the round trip of the property seen from the shell -
// the text is parsed and written again. On the canonical text of a tree of the domain (the
// reference writer's, which the `roundtrip` check proves equal to gotree's) the command must
// print that very text, whatever the labels and comments contain (blanks, quotes, '%' ...).

type CliCase struct {
	// Boundary > 0: the first tip of the first tree gets a long name with a blank in it, placed so
	// that the blank is byte Boundary-1 of the line (the stream reader works in 4096-byte chunks)
	Boundary int         `json:"boundary,omitempty"`
	Trees    []*ref.Node `json:"trees"`
	InMode string      `json:"in_mode"`
	ToFile bool        `json:"to_file"`
}

func checkCli(c CliCase) error {
	if !cli.Available() {
		return fmt.Errorf("harness: gotree binary not built")
	}
	var in strings.Builder
	for i, m := range c.Trees {
		if i == 0 && c.Boundary > 0 {
			m = m.Clone()
			tip := m.TipNodes()[0]
			if off := strings.Index(ref.Write(m), tip.Name); off >= 0 && off < c.Boundary-2 {
				tip.Name = strings.Repeat("x", c.Boundary-1-off) + " " + tip.Name
			}
		}
		in.WriteString(ref.Write(m) + "\n")
	}
	text := in.String()
	dir := cli.Scratch()
	mode := c.InMode
	if cli.IsNexus(mode) {
		mode = "file" // Nexus cannot carry these labels and comments
	}
	extra, stdin, files, _ := cli.Present(mode, text, "-i")
	for n, content := range files {
		cli.WriteIn(dir, n, content)
	}
	args := append([]string{"reformat", "newick"}, extra...)
	if c.ToFile {
		cli.Write(dir, "out.nw", strings.Repeat("(stale,content);\n", 40)) // an older, longer result is in the way
		args = append(args, "-o", "out.nw")
	}
	r := cli.Run(dir, stdin, args...)
	if r.Code != 0 || r.TimedOut {
		return fmt.Errorf("gotree %v exited with %d: %s\n input %s", args, r.Code, r.Stderr, text)
	}
	out := r.Stdout
	if c.ToFile {
		out = cli.Read(dir, "out.nw")
	}
	if out != text {
		return fmt.Errorf("gotree %v does not print the text it was given:\n input  %s output %s", args, text, out)
	}
	return nil
}

func TestC01Cli(t *testing.T) {
	h.Run(t, h.Spec[CliCase]{
		Property: "C01", Name: "cli", Quick: 1600, Thorough: 32000,
		Rule: "`gotree reformat newick` (input on stdin, in a file or in a gzip file; output on stdout or with -o over an older, longer file) on the canonical text of 1-3 generated trees of the domain whose text holds no line break, one case in six with a tip name long enough to put one of its blanks at byte 4095 / 8191 / 12287 of the line: the output must be byte-identical to the input; non-trivial = a comment, an inner name or a support with p-value",
		Gen: func(t *rapid.T, thorough bool) CliCase {
			c := CliCase{InMode: rapid.SampledFrom(cli.InModes).Draw(t, "inmode"), ToFile: rapid.IntRange(0, 2).Draw(t, "tofile") == 0}
			if rapid.IntRange(0, 5).Draw(t, "longline") == 3 {
				c.Boundary = rapid.SampledFrom([]int{4096, 4096, 8192, 12288}).Draw(t, "boundary")
			}
			o := opts(false)
			for i, n := 0, rapid.IntRange(1, 3).Draw(t, "ntrees"); i < n; i++ {
				m := rapid.Custom(func(t *rapid.T) *ref.Node { return gen.Tree(t, o) }).Filter(func(m *ref.Node) bool {
					return !strings.ContainsAny(ref.Write(m), "\r\n\x0b\x0c\u0085  ")
				}).Draw(t, "tree")
				c.Trees = append(c.Trees, m)
			}
			return c
		},
		Check: checkCli,
		Classify: func(c CliCase) (bool, []string) {
			nt := false
			for _, m := range c.Trees {
				m.Walk(func(x, p *ref.Node) {
					if len(x.Com) > 0 || len(x.BCom) > 0 || (x.Name != "" && !x.IsTip()) || x.Pv != nil {
						nt = true
					}
				})
			}
			return nt, []string{"in:" + c.InMode, fmt.Sprintf("tofile=%v", c.ToFile)}
		},
	})
}
