package c01

import (
	"bytes"
	"fmt"
	"math"
	"os"
	"strconv"
	"strings"
	"testing"
	"time"
	"unicode/utf8"

	"pgregory.net/rapid"

	"verif/internal/docs"
	"verif/internal/gen"
	"verif/internal/gt"
	"verif/internal/h"
	"verif/internal/ref"
)

func TestMain(m *testing.M) { h.Main(m) }

type Case struct {
	Model *ref.Node `json:"model"`
}

func opts(thorough bool) gen.Opts {
	o := gen.Opts{MinTips: 2, MaxTips: 12, BigTips: 40, Rooted: -1, MaxDeg: 6,
		Lens: gen.AnyPresence, LenVals: gen.Wild, Sups: gen.AnyPresence, Pvals: true,
		InnerNames: gen.AnyPresence, Comments: true, Hostile: true}
	if thorough {
		o.BigTips = 300
		o.MaxDeg = 12
	}
	return o
}

func kinds(m *ref.Node) (int, []string) {
	has := map[string]bool{}
	m.Walk(func(x, p *ref.Node) {
		if p == nil {
			if x.Name != "" {
				has["rootname"] = true
			}
			if len(x.Com) > 0 {
				has["rootcomment"] = true
			}
			return
		}
		if x.Len != nil {
			has["len"] = true
			if *x.Len != 0 && (math.Abs(*x.Len) < 1e-300 || math.Abs(*x.Len) > 1e21) {
				has["extreme-len"] = true
			}
		}
		if x.Sup != nil {
			has["sup"] = true
		}
		if x.Pv != nil {
			has["pval"] = true
		}
		if !x.IsTip() && x.Name != "" {
			has["innername"] = true
		}
		if len(x.Com) > 0 {
			has["comment"] = true
		}
		if len(x.BCom) > 0 {
			has["brcomment"] = true
		}
		if strings.Contains(x.Name, "/") {
			has["slash-name"] = true
		}
	})
	var l []string
	for k := range has {
		l = append(l, k)
	}
	n := 0
	for _, k := range []string{"len", "sup", "innername", "comment", "brcomment", "pval"} {
		if has[k] {
			n++
		}
	}
	return n, l
}

func classify(m *ref.Node) (bool, []string) {
	nk, labels := kinds(m)
	nt := len(m.Tips())
	inner := len(m.Inner()) - 1
	if len(m.Ch) == 2 {
		labels = append(labels, "rooted")
	} else {
		labels = append(labels, "unrooted")
	}
	if m.MaxDegree() > 3 {
		labels = append(labels, "multifurcating")
	}
	switch {
	case nt <= 3:
		labels = append(labels, "tips<=3")
	case nt <= 12:
		labels = append(labels, "tips4-12")
	case nt <= 40:
		labels = append(labels, "tips13-40")
	default:
		labels = append(labels, "tips>40")
	}
	return nt >= 4 && inner >= 1 && nk >= 2, labels
}

// checkRoundTrip: model -> gotree (API) -> text -> reference reader; text -> gotree parser ->
// extracted model; second write is byte identical.
func checkRoundTrip(c Case) error {
	m := c.Model
	t := gt.Build(m)
	text := t.Newick()
	if again := t.Newick(); again != text {
		return fmt.Errorf("writing the same tree twice gives different texts\n first  %s\n second %s", clip(text), clip(again))
	}
	want := ref.Write(m)
	if text != want {
		return fmt.Errorf("writer: text differs from the reference writer's\n got  %s\n want %s", clip(text), clip(want))
	}
	back, err := ref.Parse(text)
	if err != nil {
		return fmt.Errorf("writer: reference reader rejects gotree's text: %v", err)
	}
	if d := ref.Diff(m, back); d != "" {
		return fmt.Errorf("writer: text read by the reference reader differs from the tree: %s\n text %s", d, clip(text))
	}
	t2, err := gt.Parse(text)
	if err != nil {
		return fmt.Errorf("parser rejects the text written by gotree: %v\n text %s", err, clip(text))
	}
	x, err := gt.Extract(t2)
	if err != nil {
		return fmt.Errorf("parsed tree not traversable: %v", err)
	}
	if d := ref.Diff(m, x); d != "" {
		return fmt.Errorf("parser: parsed tree differs from the written tree: %s\n text %s", d, clip(text))
	}
	text2 := t2.Newick()
	if text2 != text {
		return fmt.Errorf("second write is not byte-identical\n first  %s\n second %s", clip(text), clip(text2))
	}
	return nil
}

func clip(s string) string {
	if len(s) > 400 {
		return s[:400] + "..."
	}
	return s
}

func TestC01RoundTrip(t *testing.T) {
	h.Run(t, h.Spec[Case]{
		Property: "C01", Name: "roundtrip", Quick: 30000, Thorough: 1600000,
		Rule: "model trees drawn by random agglomeration (2..12 tips, 5% up to 40 quick / 300 thorough; root degree 2..5; inner degree up to 6/12), hostile UTF-8 labels, wild finite floats, supports/p-values on unnamed inner nodes, inner names, node/root/branch comments; non-trivial = >=4 tips, >=1 inner non-root node and >=2 decoration kinds; distinct = distinct case JSON",
		Gen: func(t *rapid.T, thorough bool) Case { return Case{gen.Tree(t, opts(thorough))} },
		Check: checkRoundTrip,
		Classify: func(c Case) (bool, []string) { return classify(c.Model) },
		Anchors: anchors(),
	})
}

func anchors() []Case {
	f := ref.F
	return []Case{
		// multifurcation with comments, name next to a sibling's support, p-value, extreme lengths, slash name
		{&ref.Node{Name: "R", Com: []string{"rc1", "rc2"}, Ch: []*ref.Node{
			{Name: "a/1", Len: f(5e-324), Com: []string{"c"}, BCom: []string{"b"}},
			{Name: "1e5", Len: f(1e22)},
			{Name: "inf", Len: f(math.Copysign(0, -1))},
			{Sup: f(0.5), Pv: f(0.01), Len: f(0.1), Ch: []*ref.Node{{Name: "x y"}, {Name: "NaN"}, {Name: "0x1p-2", Len: f(-3)}}},
			{Name: "inner", Len: f(2), Ch: []*ref.Node{{Name: "é"}, {Name: "日本", Com: []string{"x[y"}}}},
		}}},
		{&ref.Node{Ch: []*ref.Node{{Name: "a"}, {Name: "b"}}}},
		{&ref.Node{Ch: []*ref.Node{{Name: "a", Len: f(1)}, {Sup: f(100), Len: f(1.7976931348623157e308), Ch: []*ref.Node{{Name: "b"}, {Name: "c"}}}}}},
	}
}

// ---------------------------------------------------------------------------------------
// Second direction: free number formatting and blanks in the input text.

type FreeCase struct {
	Model  *ref.Node `json:"model"`
	Styles []int     `json:"styles"`
	Blanks []int     `json:"blanks"`
}

type freeWriter struct {
	b      strings.Builder
	styles []int
	blanks []int
	si, bi int
}

func (w *freeWriter) num(v float64) {
	st := 0
	if len(w.styles) > 0 {
		st = w.styles[w.si%len(w.styles)]
		w.si++
	}
	var s string
	switch st {
	case 1:
		s = strconv.FormatFloat(v, 'e', -1, 64)
	case 2:
		s = strconv.FormatFloat(v, 'E', -1, 64)
	case 3:
		s = strconv.FormatFloat(v, 'g', -1, 64)
	case 4:
		s = strconv.FormatFloat(v, 'x', -1, 64)
	case 5:
		s = strconv.FormatFloat(v, 'f', -1, 64)
		if !strings.Contains(s, ".") {
			s += "."
		}
		s += "000"
	case 6:
		s = strconv.FormatFloat(v, 'f', -1, 64)
		if !strings.HasPrefix(s, "-") {
			s = "+" + s
		}
	case 7:
		s = strconv.FormatFloat(v, 'f', -1, 64)
		if strings.HasPrefix(s, "-") {
			s = "-00" + s[1:]
		} else {
			s = "00" + s
		}
	case 8:
		s = strconv.FormatFloat(v, 'f', -1, 64)
		if strings.HasPrefix(s, "0.") {
			s = s[1:]
		}
	default:
		s = strconv.FormatFloat(v, 'f', -1, 64)
	}
	w.b.WriteString(s)
}

func (w *freeWriter) blank() {
	if len(w.blanks) == 0 {
		return
	}
	k := w.blanks[w.bi%len(w.blanks)]
	w.bi++
	w.b.WriteString([]string{"", "", " ", "\n", "\t", "  \r\n "}[k%6])
}

func (w *freeWriter) rec(n *ref.Node, root bool) {
	if len(n.Ch) > 0 {
		w.b.WriteByte('(')
		w.blank()
		for i, c := range n.Ch {
			if i > 0 {
				w.b.WriteByte(',')
				w.blank()
			}
			w.rec(c, false)
		}
		w.b.WriteByte(')')
		w.blank()
	}
	w.b.WriteString(n.Name)
	if !root && n.Sup != nil && n.Name == "" {
		w.num(*n.Sup)
		if n.Pv != nil {
			w.b.WriteByte('/')
			w.num(*n.Pv)
		}
	}
	for _, c := range n.Com {
		w.b.WriteString("[" + c + "]")
		w.blank()
	}
	if !root {
		if n.Len != nil {
			w.b.WriteByte(':')
			w.blank()
			w.num(*n.Len)
		}
		for _, c := range n.BCom {
			w.b.WriteString("[" + c + "]")
			w.blank()
		}
	}
}

func checkFree(c FreeCase) error {
	w := &freeWriter{styles: c.Styles, blanks: c.Blanks}
	w.rec(c.Model, true)
	w.b.WriteByte(';')
	text := w.b.String()
	t, err := gt.Parse(text)
	if err != nil {
		return fmt.Errorf("parser rejects free-format text: %v\n text %q", err, clip(text))
	}
	x, err := gt.Extract(t)
	if err != nil {
		return err
	}
	if d := ref.Diff(c.Model, x); d != "" {
		return fmt.Errorf("free-format text parsed to a different tree: %s\n text %q", d, clip(text))
	}
	canon := t.Newick()
	if want := ref.Write(c.Model); canon != want {
		return fmt.Errorf("text written after parsing free-format input differs from canonical text\n got  %s\n want %s", clip(canon), clip(want))
	}
	t2, err := gt.Parse(canon)
	if err != nil {
		return fmt.Errorf("parser rejects own text: %v", err)
	}
	if t2.Newick() != canon {
		return fmt.Errorf("write/parse/write is not a fixed point")
	}
	return nil
}

func TestC01FreeFormat(t *testing.T) {
	h.Run(t, h.Spec[FreeCase]{
		Property: "C01", Name: "freeformat", Quick: 10000, Thorough: 400000,
		Rule: "same models, written by the harness with free number formatting (e/E/g/hex/trailing zeros/+/leading zeros/.5) and blanks after ( , ) : ]; non-trivial = >=4 tips, >=1 inner non-root node, >=2 decoration kinds, and at least one non-default number style",
		Gen: func(t *rapid.T, thorough bool) FreeCase {
			o := opts(thorough)
			// the p-value of "a/b" must not itself contain a sign that makes the label ambiguous: any float is fine
			m := gen.Tree(t, o)
			return FreeCase{m, rapid.SliceOfN(rapid.IntRange(0, 8), 0, 6).Draw(t, "styles"), rapid.SliceOfN(rapid.IntRange(0, 5), 0, 6).Draw(t, "blanks")}
		},
		Check: checkFree,
		Classify: func(c FreeCase) (bool, []string) {
			nt, l := classify(c.Model)
			styled := false
			for _, s := range c.Styles {
				if s != 0 {
					styled = true
				}
			}
			if styled {
				l = append(l, "styled")
			}
			if len(c.Blanks) > 0 {
				l = append(l, "blanks")
			}
			return nt && styled, l
		},
	})
}

// ---------------------------------------------------------------------------------------
// Text-first direction: any text the parser accepts yields a tree whose written form is a
// fixed point of parse/write and is read identically by the reference reader.

type TextCase struct {
	Text []byte `json:"text"`
	Show string `json:"show,omitempty"`
}

func checkText(c TextCase) error {
	if !utf8.Valid(c.Text) || bytes.IndexByte(c.Text, 0) >= 0 || bytes.ContainsRune(c.Text, utf8.RuneError) {
		return nil // outside the text domain (see DESIGN.md, C01)
	}
	t, err := gt.Parse(string(c.Text))
	if err != nil || t == nil || t.Root() == nil {
		return nil // rejected input is not this property's subject
	}
	if len(t.Root().Neigh()) < 2 {
		return nil // the property is about trees whose root has >= 2 children ("(A);" is accepted by the parser but out of domain)
	}
	w1 := t.Newick()
	x1, err := gt.Extract(t)
	if err != nil {
		return fmt.Errorf("parsed tree not traversable: %v", err)
	}
	if why := outOfDomain(x1); why != "" {
		return nil // lax parsing of malformed text gave a tree outside the property's domain
	}
	t2, err := gt.Parse(w1)
	if err != nil {
		return fmt.Errorf("parser rejects the text written for a tree it parsed: %v\n input %q\n written %q", err, clip(string(c.Text)), clip(w1))
	}
	x2, err := gt.Extract(t2)
	if err != nil {
		return err
	}
	// what the text can show of the first tree must come back unchanged
	if d := ref.Diff(gt.Printable(x1), gt.Printable(x2)); d != "" {
		return fmt.Errorf("write/parse changed the tree: %s\n input %q\n written %q", d, clip(string(c.Text)), clip(w1))
	}
	if w2 := t2.Newick(); w2 != w1 {
		return fmt.Errorf("second write is not byte-identical\n first  %q\n second %q", clip(w1), clip(w2))
	}
	return nil
}

// outOfDomain tells why a parsed tree is outside the domain of C01 ("" if inside): see the
// quantifier of the property (root and inner nodes with >= 2 children, non-empty tip names
// without surrounding blanks, inner names not numeric-looking, values other than the -1
// sentinel, p-value only with a support, at most one branch comment and only with a length).
func outOfDomain(m *ref.Node) string {
	why := ""
	m.Walk(func(x, p *ref.Node) {
		switch {
		case !x.IsTip() && len(x.Ch) < 2:
			why = "single-child node"
		case x.IsTip() && (x.Name == "" || strings.TrimSpace(x.Name) != x.Name):
			why = "empty or blank-padded tip name"
		case x.IsTip() && (x.Sup != nil || x.Pv != nil):
			why = "support on a tip"
		case !x.IsTip() && x.Name != "" && (strings.TrimSpace(x.Name) != x.Name || numericLooking(x.Name)):
			why = "numeric-looking or blank-padded inner name"
		case !x.IsTip() && x.Name != "" && x.Sup != nil:
			why = "name and support"
		case x.Pv != nil && x.Sup == nil:
			why = "p-value without support"
		case len(x.BCom) > 1 || (len(x.BCom) == 1 && x.Len == nil):
			why = "branch comments"
		}
		for _, v := range []*float64{x.Len, x.Sup, x.Pv} {
			if v != nil && (*v == -1 || math.IsNaN(*v) || math.IsInf(*v, 0)) {
				why = "sentinel or non-finite value"
			}
		}
		for _, c := range append(append([]string{}, x.Com...), x.BCom...) {
			if strings.Contains(c, "]") {
				why = "comment with ]"
			}
		}
	})
	return why
}

func numericLooking(s string) bool {
	if _, err := strconv.ParseFloat(s, 64); err == nil {
		return true
	}
	if p := strings.Split(s, "/"); len(p) == 2 {
		_, e1 := strconv.ParseFloat(p[0], 64)
		_, e2 := strconv.ParseFloat(p[1], 64)
		return e1 == nil && e2 == nil
	}
	return false
}

func textSeeds() []string {
	s := []string{"(a,b);", "((a:1,b:2)0.9/0.01:3[&x],c:4)r[c];", "(a,(b,c)N:1e-5,d:+.5);", "[pre](a,b,c,d);", "( a , b\n) ;", "((a,b)-1:1,c)NaN;", "(a:1,b:0x1p-2);", "((a,b)1/2,c);", "((a,b)x/1,c);", "(a,b)[c]:1;", "((a,b)[c1][c2]:1[bc],c);"}
	for _, a := range anchors() {
		s = append(s, ref.Write(a.Model))
	}
	return s
}

func TestC01Text(t *testing.T) {
	h.Run(t, h.Spec[TextCase]{
		Property: "C01", Name: "text", Quick: 20000, Thorough: 400000,
		Rule: "texts: seed Newick strings and reference-written generated trees, with 0-3 byte-level mutations (insert/delete/duplicate/replace of Newick tokens and bytes); whenever gotree's parser accepts the text, write->parse must give back the same tree (as far as text can show it) and write->parse->write must be byte-identical; non-trivial = the (mutated) text was accepted and has >= 3 tips",
		Gen: func(t *rapid.T, thorough bool) TextCase {
			var base string
			if rapid.Bool().Draw(t, "seed") {
				base = rapid.SampledFrom(textSeeds()).Draw(t, "seedtext")
			} else {
				base = ref.Write(gen.Tree(t, opts(false)))
			}
			d := []byte(base)
			for i, n := 0, rapid.IntRange(0, 3).Draw(t, "nmut"); i < n; i++ {
				d = docs.GenMutation(t).Apply(d, []byte("((x:1,y:2)0.5:1[&k=v],z)r;"))
			}
			return TextCase{Text: d, Show: strings.ToValidUTF8(string(d), "?")}
		},
		Check: checkText,
		Classify: func(c TextCase) (bool, []string) {
			if !utf8.Valid(c.Text) {
				return false, []string{"invalid-utf8"}
			}
			t, err := gt.Parse(string(c.Text))
			if err != nil || t == nil || t.Root() == nil {
				return false, []string{"rejected"}
			}
			if len(t.Root().Neigh()) < 2 {
				return false, []string{"accepted-single-child-root(out of domain)"}
			}
			if x, err := gt.Extract(t); err != nil || outOfDomain(x) != "" {
				return false, []string{"accepted-out-of-domain"}
			}
			return len(t.Tips()) >= 3, []string{"accepted"}
		},
	})
}

func roundTripProp(rt *rapid.T) {
	c := Case{gen.Tree(rt, opts(true))}
	err, ok := h.Guarded(func() error { return checkRoundTrip(c) }, 20*time.Second)
	if !ok {
		err = fmt.Errorf("did not return within 20s")
	}
	if err != nil {
		h.SaveFuzzFailure("C01", "roundtrip", c, err)
		rt.Fatalf("%v", err)
	}
}

func FuzzRoundTrip(f *testing.F) { f.Fuzz(rapid.MakeFuzz(roundTripProp)) }

func FuzzText(f *testing.F) {
	for _, s := range textSeeds() {
		f.Add([]byte(s))
	}
	f.Fuzz(func(t *testing.T, data []byte) {
		if len(data) > 1<<14 {
			return
		}
		h.FuzzCheck(t, 15*time.Second, func() error { return checkText(TextCase{Text: data}) })
	})
}

func TestCorpusToReplay(t *testing.T) {
	if os.Getenv("VERIF_CORPUS_TARGET") == "FuzzRoundTrip" {
		// re-run the rapid property on the saved bit stream; the failing case is saved by roundTripProp
		b, err := h.CorpusArgs(os.Getenv("VERIF_CORPUS_FILE"))
		if err != nil {
			t.Fatal(err)
		}
		rapid.MakeFuzz(roundTripProp)(t, []byte(b[0]))
		return
	}
	h.CorpusToReplay(t, "C01", map[string]struct {
		Check string
		Make  func(args []string) any
	}{
		"FuzzText": {"text", func(args []string) any {
			return TextCase{Text: []byte(args[0]), Show: strings.ToValidUTF8(args[0], "?")}
		}},
	})
}
