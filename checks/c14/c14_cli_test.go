package c14

import (
	"fmt"
	"math"
	"sort"
	"strconv"
	"strings"
	"testing"

	"pgregory.net/rapid"

	"verif/internal/cli"
	"verif/internal/gen"
	"verif/internal/h"
	"verif/internal/ref"
)

// ---------------------------------------------------------------------------------------
// command level: `gotree matrix` and `gotree brlen cut` on streams of trees
//
// Without --avg the matrix command prints one matrix per input tree, in input order; the cut
// command prints the groups of every tree with the tree's rank in front. Trees of a stream
// have different sizes and tip sets. A stream may hold one record that is not a tree: the output
// is then cut short, and the exit status is the only way the caller can tell - a status of 0
// would present a truncated result as the complete one.

type StreamCase struct {
	Cmd    string      `json:"cmd"` // matrix | cut
	Trees  []*ref.Node `json:"trees"`
	Metric string      `json:"metric"`
	Thr    float64     `json:"thr"`
	Broken int         `json:"broken"` // < 0: none; otherwise a broken record is inserted before tree Broken%(n+1)
	ToFile bool        `json:"to_file"`
}

func parseMatrices(out string, failed bool) ([][]string, [][][]float64, error) {
	var names [][]string
	var mats [][][]float64
	lines := strings.Split(strings.TrimRight(out, "\n"), "\n")
	if out == "" {
		return nil, nil, nil
	}
	for i := 0; i < len(lines); {
		n, err := strconv.Atoi(strings.TrimSpace(lines[i]))
		if err != nil && failed {
			// a failing command prints its error message on stdout after the results
			return names, mats, nil
		}
		if err != nil || n < 0 || i+n > len(lines)-1 {
			return nil, nil, fmt.Errorf("bad matrix header %q at line %d", lines[i], i)
		}
		var nm []string
		var m [][]float64
		for _, l := range lines[i+1 : i+1+n] {
			f := strings.Split(l, "\t")
			if len(f) != n+1 {
				return nil, nil, fmt.Errorf("matrix row %q has %d fields, expected %d", l, len(f), n+1)
			}
			nm = append(nm, f[0])
			row := make([]float64, 0, n)
			for _, x := range f[1:] {
				v, err := strconv.ParseFloat(x, 64)
				if err != nil {
					return nil, nil, err
				}
				row = append(row, v)
			}
			m = append(m, row)
		}
		names = append(names, nm)
		mats = append(mats, m)
		i += n + 1
	}
	return names, mats, nil
}

func checkStream(c StreamCase) error {
	if !cli.Available() {
		return fmt.Errorf("harness: gotree binary not built")
	}
	dir := cli.Scratch()
	n := len(c.Trees)
	brokenAt := -1
	if c.Broken >= 0 {
		brokenAt = c.Broken % (n + 1)
	}
	var in strings.Builder
	for i, m := range c.Trees {
		if i == brokenAt {
			in.WriteString("((a,b),c;\n")
		}
		in.WriteString(ref.Write(m) + "\n")
	}
	if brokenAt == n {
		in.WriteString("((a,b),c;\n")
	}
	var args []string
	if c.Cmd == "matrix" {
		args = []string{"matrix", "-m", c.Metric}
	} else {
		args = []string{"brlen", "cut", "-l", strconv.FormatFloat(c.Thr, 'g', -1, 64)}
	}
	if c.ToFile {
		args = append(args, "-o", "out.txt")
	}
	// the input stream on stdin, in a file, in a gzip file or as a Nexus document (a stream with a
	// record that is not a tree stays a Newick file)
	modes := cli.InModes
	if in.Len() > 2000000 {
		// the Nexus reader checks every tip against the taxon list: minutes for a 30000-tip tree, which
		// the 60 s limit of a command run would report as a hang (cost, not a defect)
		modes = []string{"stdin", "file", "gz", "crlf"}
	}
	extra, stdin, infiles, _ := cli.Present(modes[(in.Len()+n)%len(modes)], in.String(), "-i")
	for name, content := range infiles {
		cli.WriteIn(dir, name, content)
	}
	args = append(args, extra...)
	r := cli.Run(dir, stdin, args...)
	if r.TimedOut {
		return fmt.Errorf("gotree %v did not end", args)
	}
	if r.Panicked() {
		return fmt.Errorf("gotree %v crashed: %s", args, r.Stderr)
	}
	out := r.Stdout
	if c.ToFile {
		out = cli.Read(dir, "out.txt")
	}
	ctx := fmt.Sprintf("\n gotree %v on\n%s", args, in.String())
	good := n // number of trees whose result must be there
	if brokenAt >= 0 {
		good = brokenAt
		if r.Code == 0 {
			return fmt.Errorf("the stream holds a record that is not a tree (position %d of %d), the output stops there, and the command exits with status 0%s", brokenAt, n+1, ctx)
		}
	} else if r.Code != 0 {
		return fmt.Errorf("command failed with status %d: %s%s", r.Code, r.Stderr, ctx)
	}
	if c.Cmd == "matrix" {
		names, mats, err := parseMatrices(out, r.Code != 0)
		if err != nil {
			return fmt.Errorf("%v%s", err, ctx)
		}
		if len(mats) != good {
			return fmt.Errorf("%d matrices printed, expected %d%s", len(mats), good, ctx)
		}
		for k := 0; k < good; k++ {
			wn, want, err := ref.DistMatrix(c.Trees[k], metricOf[c.Metric][1])
			if err != nil {
				return err
			}
			if strings.Join(names[k], ",") != strings.Join(wn, ",") {
				return fmt.Errorf("matrix %d: rows are %v, tip-name order is %v%s", k, names[k], wn, ctx)
			}
			for i := range wn {
				for j := range wn {
					if math.Abs(mats[k][i][j]-want[i][j]) > 1e-9*math.Max(1, math.Abs(want[i][j]))+1e-12 {
						return fmt.Errorf("matrix %d: %s-%s printed %v, expected %v%s", k, wn[i], wn[j], mats[k][i][j], want[i][j], ctx)
					}
				}
			}
		}
		return nil
	}
	got := map[int][]string{}
	if strings.TrimRight(out, "\n") != "" {
		for _, l := range strings.Split(strings.TrimRight(out, "\n"), "\n") {
			f := strings.Split(l, "\t")
			if len(f) != 3 && r.Code != 0 {
				break // a failing command prints its error message on stdout after the results
			}
			if len(f) != 3 {
				return fmt.Errorf("bad line %q%s", l, ctx)
			}
			id, err := strconv.Atoi(f[0])
			if err != nil {
				return fmt.Errorf("bad line %q%s", l, ctx)
			}
			if k, _ := strconv.Atoi(f[1]); k != len(strings.Split(f[2], ",")) {
				return fmt.Errorf("line %q announces %s tips%s", l, f[1], ctx)
			}
			got[id] = append(got[id], f[2])
		}
	}
	for k := 0; k < good; k++ {
		want := components(c.Trees[k], c.Thr)
		g := got[k]
		sort.Strings(g)
		if strings.Join(g, " | ") != strings.Join(want, " | ") {
			return fmt.Errorf("tree %d: groups {%s}, expected {%s}%s", k, strings.Join(g, " | "), strings.Join(want, " | "), ctx)
		}
		delete(got, k)
	}
	if len(got) != 0 {
		return fmt.Errorf("groups printed for trees that are not in the stream (or come after the broken record): %v%s", got, ctx)
	}
	return nil
}

func TestC14Cli(t *testing.T) {
	h.Run(t, h.Spec[StreamCase]{
		Property: "C14", Name: "cli", Quick: 1200, Thorough: 24000,
		Rule: "`gotree matrix -m brlen|boot|none` (one matrix per tree) and `gotree brlen cut -l` on streams of 1-5 trees of different sizes and tip sets, a quarter of them with one record that is not a tree at a drawn position, a third written with -o, the input on stdin, in a file, in a gzip file or as a Nexus document: every tree before the broken record gets its matrix / groups (same oracles as the library checks, 12 printed decimals), nothing is printed for later ones, and the exit status is non-zero exactly when a record was broken; non-trivial = >= 2 trees",
		Gen: func(t *rapid.T, thorough bool) StreamCase {
			o := gen.Opts{MinTips: 2, MaxTips: 10, BigTips: 40, Rooted: -1, MaxDeg: 5, Lens: gen.AnyPresence, LenVals: gen.AnyValue, Sups: gen.AnyPresence}
			c := StreamCase{Cmd: rapid.SampledFrom([]string{"matrix", "cut"}).Draw(t, "cmd"), Metric: rapid.SampledFrom([]string{"brlen", "boot", "none"}).Draw(t, "metric"),
				Broken: -1, ToFile: rapid.IntRange(0, 2).Draw(t, "tofile") == 0}
			for i, n := 0, rapid.IntRange(1, 5).Draw(t, "ntrees"); i < n; i++ {
				c.Trees = append(c.Trees, gen.Tree(t, o))
			}
			if rapid.IntRange(0, 3).Draw(t, "broken") == 0 {
				c.Broken = rapid.IntRange(0, 5).Draw(t, "brokenat")
			}
			var lens []float64
			absent := false
			for _, m := range c.Trees {
				m.Walk(func(x, p *ref.Node) {
					if p == nil {
						return
					}
					if x.Len != nil {
						lens = append(lens, *x.Len)
					} else {
						absent = true
					}
				})
			}
			c.Thr = 0.5
			if len(lens) > 0 && rapid.Bool().Draw(t, "thrlen") {
				c.Thr = lens[rapid.IntRange(0, len(lens)-1).Draw(t, "thri")]
			}
			if absent && c.Thr <= 0 {
				c.Thr = 0.5
			}
			return c
		},
		Check: checkStream,
		Classify: func(c StreamCase) (bool, []string) {
			l := []string{"cmd:" + c.Cmd}
			if c.Broken >= 0 {
				switch b := c.Broken % (len(c.Trees) + 1); {
				case b == 0:
					l = append(l, "broken:first")
				case b == len(c.Trees):
					l = append(l, "broken:last")
				default:
					l = append(l, "broken:middle")
				}
			}
			return len(c.Trees) >= 2, l
		},
	})
}

// ---------------------------------------------------------------------------------------
// long records: a tree whose text is longer than 64 KiB / 1 MiB / 4 MiB (the usual sizes of line
// and token buffers) in the middle of a stream; `gotree brlen cut` must print the groups of every
// tree of the stream, the long one and those after it included.

type LongCase struct {
	Tips    int `json:"tips"`
	NameLen int `json:"name_len"`
}

func longTree(c LongCase) *ref.Node {
	nodes := []*ref.Node{}
	for i := 0; i < c.Tips; i++ {
		name := fmt.Sprintf("taxon_%d_", i)
		name += strings.Repeat("ACCESSION", c.NameLen/9+1)[:c.NameLen]
		l := 0.01 * float64(1+i%7)
		if i%5 == 0 {
			l = 1.5 // a long tip branch: the tip is alone in its group
		}
		nodes = append(nodes, &ref.Node{Name: name, Len: ref.F(l)})
	}
	for k := 0; len(nodes) > 3; k++ {
		d := 2 + k%2
		l := 0.02
		if k%4 == 0 {
			l = 0.75
		}
		in := &ref.Node{Len: ref.F(l), Ch: append([]*ref.Node(nil), nodes[:d]...)}
		nodes = append(nodes[d:], in)
	}
	return &ref.Node{Ch: nodes}
}

func checkLong(c LongCase) error {
	small1, _ := ref.Parse("((a:0.1,b:0.1):0.1,c:1,d:0.1);")
	small2, _ := ref.Parse("((e:0.1,f:2):0.1,(g:0.2,h:0.1):0.9,i:0.1);")
	big := longTree(c)
	sc := StreamCase{Cmd: "cut", Trees: []*ref.Node{small1, big, small2}, Thr: 0.5, Broken: -1, ToFile: c.Tips%2 == 0}
	err := checkStream(sc)
	if err != nil {
		msg := err.Error()
		if len(msg) > 700 {
			msg = msg[:700] + "..."
		}
		return fmt.Errorf("stream of 3 trees, the second one with %d tips and a text of %d bytes: %s", c.Tips, len(ref.Write(big)), msg)
	}
	return nil
}

func TestC14CliLongRecords(t *testing.T) {
	r := h.NewRecorder(t, "C14", "cli-long-records", "`gotree brlen cut -l 0.5` on a stream of three trees whose second one has a text of about 70 KB, 1.1 MB (quick) and 4.5 MB, 17 MB (thorough): 1500-30000 tips with names of 30-550 bytes, long and short branches mixed; the groups of all three trees must be printed and equal the union-find groups of the reference model, exit status 0; every case is non-trivial")
	var rc LongCase
	if replaying, mine := r.ReplayCase(&rc); replaying {
		if mine {
			r.Replayed(checkLong(rc))
		}
		return
	}
	cases := []LongCase{{1500, 30}, {24000, 30}, {2001, 540}}
	if h.Thorough() {
		cases = append(cases, LongCase{30000, 140}, LongCase{30001, 550})
	}
	for k, c := range cases {
		if k%h.NShards() != h.Shard() {
			continue
		}
		var err error
		if gerr := r.Guard(c, 300e9, func() error { err = checkLong(c); return nil }); gerr != nil {
			err = gerr
		}
		r.Eval(c, true, fmt.Sprintf("tips=%d", c.Tips))
		if err != nil {
			r.Fail(c, "%v", err)
		}
	}
}
