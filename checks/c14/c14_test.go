package c14

import (
	"fmt"
	"math"
	"sort"
	"strconv"
	"strings"
	"testing"

	"pgregory.net/rapid"

	"github.com/evolbioinfo/gotree/tree"

	"verif/internal/cli"
	"verif/internal/gen"
	"verif/internal/gt"
	"verif/internal/h"
	"verif/internal/ops"
	"verif/internal/ref"
)

func TestMain(m *testing.M) { h.Main(m) }

// ---------------------------------------------------------------------------------------
// distance matrices

type MatCase struct {
	Trees  []*ref.Node `json:"trees"` // one tree: ToDistanceMatrix; several: AvgDistanceMatrix too
	Metric string      `json:"metric"` // brlen | boot | none
	CLI    bool        `json:"cli,omitempty"`
	Mem    int         `json:"mem,omitempty"` // > 0: trees re-rooted in memory first (distances do not depend on the rooting)
	Ops    []ops.Op    `json:"ops,omitempty"` // edit history applied to the (indexed) first tree before the matrix is computed
}

var historyKinds = []string{"reroot", "prune", "graft", "graft_tip_on_edge", "identical_one", "rename", "rename_auto", "shuffle_tips", "collapse_len", "resolve", "unroot", "rotate", "nni", "reinit", "scale_lengths", "scale_lengths", "clear_lengths", "sort", "scale_supports", "scale_supports"}

// supportKinds: edits after which the written text still shows every support (no renaming that
// names inner nodes): histories drawn from them keep the support metric
var supportKinds = []string{"reroot", "scale_supports", "scale_supports", "rotate", "sort", "reinit", "scale_lengths", "nni", "unroot", "collapse_len"}

var metricOf = map[string][2]int{"brlen": {tree.DISTANCE_METRIC_BRLEN, ref.MetricLen}, "boot": {tree.DISTANCE_METRIC_BOOTS, ref.MetricSup}, "none": {tree.DISTANCE_METRIC_NONE, ref.MetricOne}}

func genMat(t *rapid.T, thorough bool) MatCase {
	o := gen.Opts{MinTips: 2, MaxTips: 12, BigTips: 40, Rooted: -1, MaxDeg: 6, Lens: gen.AnyPresence, LenVals: gen.AnyValue, Sups: gen.AnyPresence, InnerNames: rapid.SampledFrom([]int{gen.None, gen.None, gen.Mixed}).Draw(t, "inames")}
	if thorough {
		o.BigTips = 150
	}
	base := gen.Tree(t, o)
	c := MatCase{Trees: []*ref.Node{base}, Metric: rapid.SampledFrom([]string{"brlen", "boot", "none"}).Draw(t, "metric")}
	if rapid.IntRange(0, 2).Draw(t, "avg") == 0 {
		n := rapid.IntRange(1, 7).Draw(t, "nmore")
		for i := 0; i < n; i++ {
			p := gen.Perturb(t, base, rapid.IntRange(0, 4).Draw(t, "npert"), true, gen.Dyadic)
			c.Trees = append(c.Trees, p)
		}
	}
	c.CLI = cli.Available() && rapid.IntRange(0, 19).Draw(t, "cli") == 0
	if rapid.IntRange(0, 2).Draw(t, "mem") == 0 {
		c.Mem = rapid.IntRange(1, 50).Draw(t, "memsel")
	}
	if rapid.IntRange(0, 3).Draw(t, "history") == 0 {
		c.Trees = c.Trees[:1]
		c.CLI = false
		kinds := historyKinds
		if c.Metric == "boot" {
			// the oracle reads the edited tree's text, which cannot show a support next to an inner
			// name (renaming operations name inner nodes): with the support metric the history is drawn
			// from edits that leave inner nodes unnamed, on a tree without inner names - or the metric is changed
			named := false
			base.Walk(func(x, p *ref.Node) { named = named || (!x.IsTip() && x.Name != "") })
			if named || rapid.Bool().Draw(t, "bootbrlen") {
				c.Metric = "brlen"
			} else {
				kinds = supportKinds
			}
		}
		for i, n := 0, rapid.IntRange(1, 4).Draw(t, "nops"); i < n; i++ {
			c.Ops = append(c.Ops, ops.GenOp(t, kinds))
		}
	}
	return c
}

// exactFor tells whether every weight of the metric is a small dyadic number, so that all
// path sums are exact in float64 whatever the order of the additions.
func exactFor(ms []*ref.Node, metric string) bool {
	ok := true
	for _, m := range ms {
		m.Walk(func(x, p *ref.Node) {
			var v *float64
			switch metric {
			case "brlen":
				v = x.Len
			case "boot":
				v = x.Sup
			}
			if v != nil {
				s := *v * 1024
				if s != math.Trunc(s) || math.Abs(s) > 1<<30 {
					ok = false
				}
			}
		})
	}
	return ok
}

func checkMat(c MatCase) error {
	gm, rm := metricOf[c.Metric][0], metricOf[c.Metric][1]
	exact := exactFor(c.Trees, c.Metric)
	var wantSum [][]float64
	var names []string
	var gts []*tree.Tree
	if len(c.Ops) > 0 {
		// the matrix of a tree that was indexed and then edited: the oracle reads the edited tree's text
		t, err := gt.FromModel(c.Trees[0])
		if err != nil {
			return err
		}
		if err := t.ReinitIndexes(); err != nil {
			return err
		}
		// the matrix was already asked for before the edits (same metric): the one computed after
		// them must describe the edited tree
		t.ToDistanceMatrix(gm)
		st := ops.State{T: t}
		for _, op := range c.Ops {
			before := st.T.Newick()
			if status, _ := ops.Apply(&st, op); status == ops.Failed {
				if st.T, err = gt.Parse(before); err != nil {
					return err
				}
			}
		}
		m, err := gt.Read(st.T)
		if err != nil {
			return err
		}
		if _, err := ref.NewTaxa(m.Tips()); err != nil || len(m.Tips()) < 2 || len(m.Ch) < 2 {
			return nil // duplicate names or a degenerate tree after the history: not this check's subject
		}
		mat, tips := st.T.ToDistanceMatrix(gm)
		wn, want, err := ref.DistMatrix(m, rm)
		if err != nil {
			return err
		}
		ex := exactFor([]*ref.Node{m}, c.Metric)
		ctx := fmt.Sprintf("\n start %s\n after %d edits: %s metric %s", ref.Write(c.Trees[0]), len(c.Ops), st.T.Newick(), c.Metric)
		if len(tips) != len(wn) {
			return fmt.Errorf("matrix over %d tips, the edited tree has %d%s", len(tips), len(wn), ctx)
		}
		for i := range wn {
			if tips[i].Name() != wn[i] {
				return fmt.Errorf("row %d is tip %q, tip-name order puts %q there%s", i, tips[i].Name(), wn[i], ctx)
			}
			for j := range wn {
				if !ref.Close(mat[i][j], want[i][j], ex) {
					return fmt.Errorf("after an edit history: distance %s-%s is %v, the path sum is %v%s", wn[i], wn[j], mat[i][j], want[i][j], ctx)
				}
			}
		}
		return nil
	}
	for k, m := range c.Trees {
		t, err := gt.FromModel(m)
		if err != nil {
			return err
		}
		if err := gt.RerootInMemory(t, c.Mem); err != nil {
			return err
		}
		gts = append(gts, t)
		t.ToDistanceMatrix((gm + 1) % 3) // an earlier call with another metric must not influence the next one
		mat, tips := t.ToDistanceMatrix(gm)
		wn, want, err := ref.DistMatrix(m, rm)
		if err != nil {
			return err
		}
		ctx := fmt.Sprintf("\n tree %s metric %s", ref.Write(m), c.Metric)
		if len(tips) != len(wn) || len(mat) != len(wn) {
			return fmt.Errorf("matrix has %d rows / %d tips, the tree has %d tips%s", len(mat), len(tips), len(wn), ctx)
		}
		for i := range wn {
			if tips[i].Name() != wn[i] {
				return fmt.Errorf("row %d is tip %q, tip-name order puts %q there%s", i, tips[i].Name(), wn[i], ctx)
			}
			if len(mat[i]) != len(wn) {
				return fmt.Errorf("row %d has %d columns%s", i, len(mat[i]), ctx)
			}
			if mat[i][i] != 0 {
				return fmt.Errorf("diagonal entry %d is %v%s", i, mat[i][i], ctx)
			}
			for j := range wn {
				if !ref.Close(mat[i][j], want[i][j], exact) {
					return fmt.Errorf("distance %s-%s is %v, the path sum is %v (exact=%v)%s", wn[i], wn[j], mat[i][j], want[i][j], exact, ctx)
				}
				if !ref.Close(mat[i][j], mat[j][i], exact) {
					return fmt.Errorf("matrix not symmetric at %s,%s: %v vs %v%s", wn[i], wn[j], mat[i][j], mat[j][i], ctx)
				}
			}
		}
		if k == 0 {
			names = wn
			wantSum = make([][]float64, len(wn))
			for i := range wantSum {
				wantSum[i] = append([]float64(nil), want[i]...)
			}
		} else {
			for i := range wantSum {
				for j := range wantSum[i] {
					wantSum[i][j] += want[i][j]
				}
			}
		}
	}
	if len(c.Trees) > 1 {
		ch := make(chan tree.Trees, len(gts))
		for i, t := range gts {
			ch <- tree.Trees{Tree: t, Id: i}
		}
		close(ch)
		avg, tips, err := tree.AvgDistanceMatrix(gm, ch)
		if err != nil {
			return fmt.Errorf("AvgDistanceMatrix failed on trees with the same tips: %v", err)
		}
		if len(tips) != len(names) {
			return fmt.Errorf("average matrix has %d tips, expected %d", len(tips), len(names))
		}
		n := float64(len(c.Trees))
		for i := range names {
			if tips[i].Name() != names[i] {
				return fmt.Errorf("average matrix row %d is %q, expected %q", i, tips[i].Name(), names[i])
			}
			for j := range names {
				if want := wantSum[i][j] / n; !ref.Close(avg[i][j], want, exact) {
					return fmt.Errorf("average distance %s-%s over %d trees is %v, the entrywise mean is %v (exact=%v)", names[i], names[j], len(c.Trees), avg[i][j], want, exact)
				}
			}
		}
	}
	if c.CLI {
		return checkMatCLI(c, names, wantSum)
	}
	return nil
}

func parseMatrix(out string) ([]string, [][]float64, error) {
	lines := strings.Split(strings.TrimRight(out, "\n"), "\n")
	n, err := strconv.Atoi(strings.TrimSpace(lines[0]))
	if err != nil || len(lines) < n+1 {
		return nil, nil, fmt.Errorf("bad matrix output %q", out)
	}
	var names []string
	var m [][]float64
	for _, l := range lines[1 : n+1] {
		f := strings.Split(l, "\t")
		names = append(names, f[0])
		row := make([]float64, 0, n)
		for _, x := range f[1:] {
			v, err := strconv.ParseFloat(x, 64)
			if err != nil {
				return nil, nil, err
			}
			row = append(row, v)
		}
		m = append(m, row)
	}
	return names, m, nil
}

func checkMatCLI(c MatCase, names []string, wantSum [][]float64) error {
	dir := cli.Scratch()
	var sb strings.Builder
	for _, m := range c.Trees {
		sb.WriteString(ref.Write(m) + "\n")
	}
	args := []string{"matrix", "-m", c.Metric}
	if len(c.Trees) > 1 {
		args = append(args, "--avg")
	}
	if len(names)%2 == 0 {
		args = append(args, "-o", "m.txt")
	}
	r := cli.Run(dir, sb.String(), args...)
	if r.Code != 0 || r.TimedOut {
		return fmt.Errorf("gotree %v exited with %d: %s", args, r.Code, r.Stderr)
	}
	if len(names)%2 == 0 {
		r.Stdout = cli.Read(dir, "m.txt")
	}
	gn, gm, err := parseMatrix(r.Stdout)
	if err != nil {
		return err
	}
	n := float64(len(c.Trees))
	for i := range names {
		if gn[i] != names[i] {
			return fmt.Errorf("gotree matrix: row %d is %q, expected %q", i, gn[i], names[i])
		}
		for j := range names {
			want := wantSum[i][j] / n
			// printed with 12 decimals
			if math.Abs(gm[i][j]-want) > 1e-9*math.Max(1, math.Abs(want))+1e-12 {
				return fmt.Errorf("gotree matrix %v: %s-%s printed %v, expected %v", args, names[i], names[j], gm[i][j], want)
			}
		}
	}
	return nil
}

func TestC14Matrix(t *testing.T) {
	h.Run(t, h.Spec[MatCase]{
		Property: "C14", Name: "matrix", Quick: 16000, Thorough: 800000,
		Rule: "trees (2..12 tips, 5% up to 40/150; rooted or not; multifurcating; lengths and supports none/all/mixed incl. zeros) x {brlen, boot, none}; one third of the cases with 1..7 further related trees on the same tips for the average; one quarter of the cases compute the matrix of a tree that was indexed and then edited by 1-4 operations (rename, graft, prune, re-root ...), judged against the text of the edited tree; oracle = explicit path sums of the reference model (absent length = 0, absent support = 1): every entry (exact for dyadic weights, tolerance 1e-9 otherwise), zero diagonal, symmetry, rows in tip-name order, average = entrywise mean; 5% of the cases also through `gotree matrix [--avg]`; non-trivial = >= 5 tips and a polytomy or a zero/absent weight",
		Gen: genMat, Check: checkMat,
		Classify: func(c MatCase) (bool, []string) {
			l := []string{"metric:" + c.Metric}
			if len(c.Trees) > 1 {
				l = append(l, "average")
			}
			if len(c.Ops) > 0 {
				l = append(l, "after-edit-history")
			}
			if c.CLI {
				l = append(l, "cli")
			}
			m := c.Trees[0]
			special := m.MaxDegree() > 3
			m.Walk(func(x, p *ref.Node) {
				if p != nil && (x.Len == nil || *x.Len == 0) {
					special = true
				}
			})
			if exactFor(c.Trees, c.Metric) {
				l = append(l, "exact-comparison")
			}
			return len(m.Tips()) >= 5 && special, l
		},
	})
}

// ---------------------------------------------------------------------------------------
// cutting at a length threshold

type CutCase struct {
	Ops  []ops.Op  `json:"ops,omitempty"` // edit history applied to the indexed tree before the cut (tips grafted, pruned, copies ...): the oracle reads the edited tree back
	Tree *ref.Node `json:"tree"`
	Thr  float64   `json:"thr"`
	CLI  bool      `json:"cli,omitempty"`
	Mem  int       `json:"mem,omitempty"`
}

func genCut(t *rapid.T, thorough bool) CutCase {
	o := gen.Opts{MinTips: 2, MaxTips: 14, BigTips: 40, Rooted: -1, MaxDeg: 6, Lens: gen.AnyPresence, LenVals: gen.AnyValue}
	if thorough {
		o.BigTips = 200
	}
	m := gen.Tree(t, o)
	var lens []float64
	absent := false
	m.Walk(func(x, p *ref.Node) {
		if p == nil {
			return
		}
		if x.Len != nil {
			lens = append(lens, *x.Len)
		} else {
			absent = true
		}
	})
	sort.Float64s(lens)
	var thr float64
	if len(lens) == 0 {
		thr = rapid.SampledFrom([]float64{0.5, 1, 2}).Draw(t, "thr0")
	} else {
		switch rapid.IntRange(0, 5).Draw(t, "thrk") {
		case 0, 1, 2:
			thr = lens[rapid.IntRange(0, len(lens)-1).Draw(t, "thri")]
		case 3:
			i, j := rapid.IntRange(0, len(lens)-1).Draw(t, "ti"), rapid.IntRange(0, len(lens)-1).Draw(t, "tj")
			thr = (lens[i] + lens[j]) / 2
		case 4:
			thr = lens[len(lens)-1] + 1
		default:
			thr = lens[0] / 2
		}
	}
	if absent && thr <= 0 {
		// the documentation does not say whether a branch without length is cut for thresholds <= 0
		thr = 0.5
	}
	cc := CutCase{Tree: m, Thr: thr, CLI: cli.Available() && rapid.IntRange(0, 19).Draw(t, "cli") == 0}
	if cc.CLI && rapid.IntRange(0, 2).Draw(t, "defaultthr") == 0 {
		cc.Thr = 0.5
	}
	if rapid.IntRange(0, 2).Draw(t, "mem") == 0 {
		cc.Mem = rapid.IntRange(1, 50).Draw(t, "memsel")
	}
	if rapid.IntRange(0, 3).Draw(t, "history") == 0 {
		for i, n := 0, rapid.IntRange(1, 4).Draw(t, "nops"); i < n; i++ {
			cc.Ops = append(cc.Ops, ops.GenOp(t, historyKinds))
		}
	}
	return cc
}

// components: union-find over the branches that are shorter than the threshold
func components(m *ref.Node, thr float64) []string {
	par := map[*ref.Node]*ref.Node{}
	var find func(x *ref.Node) *ref.Node
	find = func(x *ref.Node) *ref.Node {
		if par[x] == nil || par[x] == x {
			return x
		}
		r := find(par[x])
		par[x] = r
		return r
	}
	m.Walk(func(x, p *ref.Node) {
		if p == nil {
			return
		}
		l := 0.0 // absent length counts as 0 (docs/commands/matrix.md); thresholds are > 0 then
		if x.Len != nil {
			l = *x.Len
		}
		if l < thr {
			a, b := find(x), find(p)
			if a != b {
				par[a] = b
			}
		}
	})
	groups := map[*ref.Node][]string{}
	for _, tip := range m.TipNodes() {
		r := find(tip)
		groups[r] = append(groups[r], tip.Name)
	}
	var out []string
	for _, g := range groups {
		sort.Strings(g)
		out = append(out, strings.Join(g, ","))
	}
	sort.Strings(out)
	return out
}

func checkCut(c CutCase) error {
	t, err := gt.FromModel(c.Tree)
	if err != nil {
		return err
	}
	if err := gt.RerootInMemory(t, c.Mem); err != nil {
		return err
	}
	if len(c.Ops) > 0 {
		if err := t.ReinitIndexes(); err != nil {
			return err
		}
		t2, m2, ok, herr := ops.Replay(t, c.Ops)
		if herr != nil {
			return herr
		}
		if !ok {
			return nil // the history left no tree to cut
		}
		absent := false
		m2.Walk(func(x, p *ref.Node) {
			if p != nil && x.Len == nil {
				absent = true
			}
		})
		if absent && c.Thr <= 0 {
			return nil // see genCut: undocumented combination
		}
		t, c.Tree, c.CLI = t2, m2, false
	}
	want := components(c.Tree, c.Thr)
	ctx := fmt.Sprintf("\n tree %s threshold %v", ref.Write(c.Tree), c.Thr)
	bags, err := t.CutEdgesMaxLength(c.Thr)
	if err != nil {
		return fmt.Errorf("CutEdgesMaxLength failed: %v%s", err, ctx)
	}
	var got []string
	for _, b := range bags {
		var names []string
		for _, n := range b.Tips() {
			names = append(names, n.Name())
		}
		if !sort.StringsAreSorted(names) {
			return fmt.Errorf("TipBag.Tips() not in name order: %v%s", names, ctx)
		}
		if len(names) == 0 {
			return fmt.Errorf("empty group returned%s", ctx)
		}
		if b.Size() != len(names) {
			return fmt.Errorf("TipBag.Size() = %d for %d tips%s", b.Size(), len(names), ctx)
		}
		got = append(got, strings.Join(names, ","))
	}
	sort.Strings(got)
	if strings.Join(got, " | ") != strings.Join(want, " | ") {
		return fmt.Errorf("groups are {%s}, the tips connected by branches shorter than the threshold are {%s}%s", strings.Join(got, " | "), strings.Join(want, " | "), ctx)
	}
	if c.CLI {
		dir := cli.Scratch()
		cargs := []string{"brlen", "cut", "-l", strconv.FormatFloat(c.Thr, 'g', -1, 64)}
		if c.Thr == 0.5 {
			cargs = []string{"brlen", "cut"} // the documented default of -l is 0.5
		}
		if len(c.Tree.Tips())%2 == 0 {
			cargs = append(cargs, "-o", "groups.txt")
		}
		r := cli.Run(dir, ref.Write(c.Tree)+"\n", cargs...)
		if len(c.Tree.Tips())%2 == 0 && r.Code == 0 {
			r.Stdout = cli.Read(dir, "groups.txt")
		}
		if r.Code != 0 || r.TimedOut {
			return fmt.Errorf("gotree brlen cut exited with %d: %s%s", r.Code, r.Stderr, ctx)
		}
		var cg []string
		for _, l := range strings.Split(strings.TrimRight(r.Stdout, "\n"), "\n") {
			f := strings.Split(l, "\t")
			if len(f) != 3 || f[0] != "0" {
				return fmt.Errorf("gotree brlen cut: bad line %q%s", l, ctx)
			}
			if n, _ := strconv.Atoi(f[1]); n != len(strings.Split(f[2], ",")) {
				return fmt.Errorf("gotree brlen cut: line %q announces %s tips%s", l, f[1], ctx)
			}
			cg = append(cg, f[2])
		}
		sort.Strings(cg)
		if strings.Join(cg, " | ") != strings.Join(want, " | ") {
			return fmt.Errorf("gotree brlen cut prints {%s}, expected {%s}%s", strings.Join(cg, " | "), strings.Join(want, " | "), ctx)
		}
	}
	return nil
}

func TestC14Cut(t *testing.T) {
	h.Run(t, h.Spec[CutCase]{
		Property: "C14", Name: "cut", Quick: 16000, Thorough: 800000,
		Rule: "trees (2..14 tips, 5% up to 40/200; lengths none/all/mixed, zeros and ties frequent) x thresholds drawn from {a present length (half of the cases), midpoint of two, above the maximum, half the minimum}; strictly positive when a branch has no length; one case in four cuts a tree that was indexed and then edited by 1-4 operations (graft, insertion of identical tips, prune, copy, re-root ...), judged on the edited tree read back; oracle = union-find components over branches with length < threshold (absent = 0); set of groups equal, each tip in exactly one group, no empty group, Tips() sorted; 5% of the cases through `gotree brlen cut -l`; non-trivial = >= 5 tips and between 2 and n-1 groups",
		Gen: genCut, Check: checkCut,
		Classify: func(c CutCase) (bool, []string) {
			g := components(c.Tree, c.Thr)
			n := len(c.Tree.Tips())
			var l []string
			tie := false
			c.Tree.Walk(func(x, p *ref.Node) {
				if p != nil && x.Len != nil && *x.Len == c.Thr {
					tie = true
				}
			})
			if tie {
				l = append(l, "threshold==a-branch-length")
			}
			if c.CLI {
				l = append(l, "cli")
			}
			return n >= 5 && len(g) >= 2 && len(g) < n, l
		},
	})
}
