package c08

import (
	"fmt"
	"testing"

	"verif/internal/big"
	"verif/internal/h"
	"verif/internal/ref"
)

// huge: constructed trees of 2100-2500 tips (internal/big) and variants of them that differ by
// nearest-neighbour interchanges at a few dozen branches - more branches than the 2000 the tree
// code preallocates room for - judged by the same oracle as the drawn cases.

type HugeCase struct {
	Shape string `json:"shape"`
	N     int    `json:"n"`
	K     int    `json:"k"`
}

func checkHuge(c HugeCase) error {
	m := big.Model(c.Shape, c.N)
	comps := []*ref.Node{big.Variant(m, c.K, 53), big.Represent(m), big.Variant(m, c.K+1, 211)}
	var alt []*ref.Node
	for _, x := range comps {
		alt = append(alt, big.Represent(x))
	}
	return check(Case{Ref: m, RefAlt: big.Represent(m), Comps: comps, CompAlt: alt, Classes: []string{"variant", "same", "variant"}, Tips: c.K%2 == 0})
}

func TestC08Huge(t *testing.T) {
	r := h.NewRecorder(t, "C08", "huge", "a constructed unrooted tree (binary below a root of degree three 2100, bushy 2500, caterpillar 2100 tips) compared with two variants that differ by interchanges at one branch in 53 / 211 and with itself in another presentation: counts, identity, swap, weighted terms and independence of the presentation judged by the same oracle as the drawn cases; every case is non-trivial")
	var rc HugeCase
	if replaying, mine := r.ReplayCase(&rc); replaying {
		if mine {
			r.Replayed(checkHuge(rc))
		}
		return
	}
	for k, c := range []HugeCase{{Shape: "ubinary", N: 2100}, {Shape: "bushy", N: 2500}, {Shape: "caterpillar", N: 2100}} {
		if k%h.NShards() != h.Shard() {
			continue
		}
		c.K = int(h.Seed())
		c := c
		var err error
		if gerr := r.Guard(c, 600e9, func() error { err = checkHuge(c); return nil }); gerr != nil {
			err = gerr
		}
		r.Eval(c, true, fmt.Sprintf("shape:%s", c.Shape))
		if err != nil {
			msg := err.Error()
			if len(msg) > 900 {
				msg = msg[:900] + "..."
			}
			r.Fail(c, "%s", msg)
		}
	}
}

var _ = ref.Write
