package c08

import (
	"fmt"
	"math"
	"sort"
	"strconv"
	"strings"
	"testing"

	"pgregory.net/rapid"

	"github.com/evolbioinfo/gotree/tree"

	"verif/internal/cli"
	"verif/internal/gen"
	"verif/internal/gt"
	"verif/internal/h"
	"verif/internal/ops"
	"verif/internal/ref"
)

func TestMain(m *testing.M) { h.Main(m) }

// memSel: selectors of in-memory re-rootings applied to the trees after parsing (set from the
// case at the start of each check; cases are evaluated one at a time). The oracles of this
// property do not depend on the rooting, but a tree re-rooted in memory is in a state (parent not
// first among a node's neighbours) that no freshly parsed tree has.
var memSel []int

func mem(i int) int {
	if len(memSel) == 0 {
		return 0
	}
	return memSel[i%len(memSel)]
}

// prepared: gotree trees that were indexed and then edited in memory (see applyHistories), keyed
// by the model read back from them; parseMem hands each of them out once.
var prepared = map[*ref.Node]*tree.Tree{}

func parseMem(m *ref.Node, i int) (*tree.Tree, error) {
	if t, ok := prepared[m]; ok {
		delete(prepared, m)
		return t, nil
	}
	t, err := gt.FromModel(m)
	if err != nil {
		return nil, err
	}
	if err := gt.RerootInMemory(t, mem(i)); err != nil {
		return nil, fmt.Errorf("Reroot failed: %v", err)
	}
	return t, nil
}

type Case struct {
	Ref     *ref.Node   `json:"ref"`
	RefAlt  *ref.Node   `json:"ref_alt"` // another presentation of ref
	Comps   []*ref.Node `json:"comps"`
	CompAlt []*ref.Node `json:"comps_alt"`
	Classes []string    `json:"classes"`
	Tips    bool        `json:"tips"`
	Ident   bool        `json:"identical_only"`
	Mem     []int       `json:"mem,omitempty"` // in-memory re-rootings of the parsed trees (0 = none)
	// Histories: the reference tree (index 0) and / or compared trees (index i+1) were indexed and
	// then edited in memory by these operations (tip set kept); the oracle reads the models back.
	Hist map[int][]ops.Op `json:"histories,omitempty"`
}

// applyHistories replays the histories: the models of the case are replaced by the models read
// back from the edited objects (the "other presentation" of such a tree is the same model), and
// the edited objects are what Compare / CompareWeighted see the first time the tree is needed.
func applyHistories(c Case) (Case, error) {
	if len(c.Hist) == 0 {
		return c, nil
	}
	c.Comps = append([]*ref.Node{}, c.Comps...)
	c.CompAlt = append([]*ref.Node{}, c.CompAlt...)
	for k, hist := range c.Hist {
		var m *ref.Node
		switch {
		case k == 0:
			m = c.Ref
		case k-1 < len(c.Comps):
			m = c.Comps[k-1]
		default:
			continue
		}
		t2, m2, ok, err := ops.Edited(m, hist, true)
		if err != nil {
			return c, err
		}
		if !ok {
			continue
		}
		prepared[m2] = t2
		if k == 0 {
			c.Ref, c.RefAlt = m2, m2
		} else {
			c.Comps[k-1], c.CompAlt[k-1] = m2, m2
		}
	}
	return c, nil
}

func baseOpts(thorough bool) gen.Opts {
	o := gen.Opts{MinTips: 4, MaxTips: 12, BigTips: 40, Rooted: 0, MaxDeg: 6, Lens: gen.All, LenVals: gen.AnyValue}
	if thorough {
		o.BigTips = 200
	}
	return o
}

// contraction of k random inner branches
func contract(t *rapid.T, m *ref.Node, k int) *ref.Node {
	r := m.Clone()
	for i := 0; i < k; i++ {
		gen.Contract(t, r)
	}
	return r
}

func refine(t *rapid.T, m *ref.Node, k int) *ref.Node {
	r := m.Clone()
	for i := 0; i < k; i++ {
		gen.Refine(t, r, gen.DyadicZ)
	}
	return r
}

func genComp(t *rapid.T, base *ref.Node) (*ref.Node, string) {
	class := rapid.SampledFrom([]string{"identical", "represent", "contraction", "refinement", "overlap", "disjoint"}).Draw(t, "class")
	switch class {
	case "identical":
		return base.Clone(), class
	case "represent":
		return gen.Represent(t, base), class
	case "contraction":
		return contract(t, base, rapid.IntRange(1, 3).Draw(t, "nc")), class
	case "refinement":
		return refine(t, base, rapid.IntRange(1, 3).Draw(t, "nr")), class
	case "overlap":
		return gen.Perturb(t, base, rapid.IntRange(1, 3).Draw(t, "np"), true, gen.DyadicZ), class
	}
	// unrelated topology on the same names
	o := gen.Opts{MinTips: len(base.Tips()), MaxTips: len(base.Tips()), Rooted: 0, MaxDeg: 3, Lens: gen.All, LenVals: gen.DyadicZ}
	m := gen.Tree(t, o)
	names := base.Tips()
	sort.Strings(names)
	perm := rapid.Permutation(names).Draw(t, "relabel")
	for i, tip := range m.TipNodes() {
		tip.Name = perm[i]
	}
	return m, class
}

func genCase(t *rapid.T, thorough bool) Case {
	base := gen.Tree(t, baseOpts(thorough))
	c := Case{Ref: base, RefAlt: gen.Represent(t, base), Tips: rapid.Bool().Draw(t, "tips"), Ident: rapid.IntRange(0, 3).Draw(t, "ident") == 0}
	n := rapid.IntRange(1, 5).Draw(t, "ncomp")
	if rapid.IntRange(0, 19).Draw(t, "manycomp") == 0 {
		n = rapid.IntRange(11, 30).Draw(t, "ncompmany") // longer streams (more than 10 trees)
	}
	for i := 0; i < n; i++ {
		m, class := genComp(t, base)
		c.Comps = append(c.Comps, m)
		c.CompAlt = append(c.CompAlt, gen.Represent(t, m))
		c.Classes = append(c.Classes, class)
	}
	if rapid.Bool().Draw(t, "mem") {
		c.Mem = rapid.SliceOfN(rapid.IntRange(0, 50), 1, 6).Draw(t, "memsel")
	}
	if rapid.IntRange(0, 3).Draw(t, "hashist") == 1 {
		c.Hist = map[int][]ops.Op{}
		for k := 0; k <= len(c.Comps) && k <= 5; k++ {
			if rapid.IntRange(0, 1).Draw(t, "histhere") == 0 {
				c.Hist[k] = ops.GenHistoryOf(t, ops.SameTaxa, 3)
			}
		}
	}
	return c
}

func feed(models []*ref.Node) (<-chan tree.Trees, error) {
	ch := make(chan tree.Trees, len(models))
	for i, m := range models {
		t, err := parseMem(m, i+1)
		if err != nil {
			return nil, err
		}
		ch <- tree.Trees{Tree: t, Id: i}
	}
	close(ch)
	return ch, nil
}

type expect struct {
	t1, common, t2 int
	same           bool
	w1, w2, wc     []float64
	wsame          bool
}

func expected(tx *ref.Taxa, a, b *ref.Node, tips bool) (expect, error) {
	var e expect
	ua, err := ref.UnrootedOn(a, tx)
	if err != nil {
		return e, err
	}
	ub, err := ref.UnrootedOn(b, tx)
	if err != nil {
		return e, err
	}
	e.wsame = true
	for k, sa := range ua.Splits {
		if sa.Trivial && !tips {
			continue
		}
		if sb, ok := ub.Splits[k]; ok {
			e.common++
			d := sa.Len - sb.Len
			e.wc = append(e.wc, d)
			if d != 0 {
				e.wsame = false
			}
		} else {
			e.t1++
			e.w1 = append(e.w1, sa.Len)
			e.wsame = false
		}
	}
	for k, sb := range ub.Splits {
		if sb.Trivial && !tips {
			continue
		}
		if _, ok := ua.Splits[k]; !ok {
			e.t2++
			e.w2 = append(e.w2, sb.Len)
			e.wsame = false
		}
	}
	e.same = e.t1 == 0 && e.t2 == 0
	sort.Float64s(e.w1)
	sort.Float64s(e.w2)
	sort.Float64s(e.wc)
	return e, nil
}

func sorted(x []float64) []float64 {
	y := append([]float64{}, x...)
	sort.Float64s(y)
	return y
}

func runCompare(refm *ref.Node, comps []*ref.Node, tips, ident bool) (map[int]tree.BipartitionStats, error) {
	rt, err := parseMem(refm, 0)
	if err != nil {
		return nil, err
	}
	ch, err := feed(comps)
	if err != nil {
		return nil, err
	}
	stats, err := tree.Compare(rt, ch, tips, ident, 1)
	if err != nil {
		return nil, fmt.Errorf("Compare: %v", err)
	}
	out := map[int]tree.BipartitionStats{}
	for s := range stats {
		if _, dup := out[s.Id]; dup {
			return nil, fmt.Errorf("two records for tree %d", s.Id)
		}
		out[s.Id] = s
	}
	if len(out) != len(comps) {
		return nil, fmt.Errorf("%d records for %d trees", len(out), len(comps))
	}
	return out, nil
}

func runWeighted(refm *ref.Node, comps []*ref.Node, tips, ident bool) (map[int]tree.WeightedBipartitionStats, error) {
	rt, err := parseMem(refm, 0)
	if err != nil {
		return nil, err
	}
	ch, err := feed(comps)
	if err != nil {
		return nil, err
	}
	stats, err := tree.CompareWeighted(rt, ch, tips, ident, 1)
	if err != nil {
		return nil, fmt.Errorf("CompareWeighted: %v", err)
	}
	out := map[int]tree.WeightedBipartitionStats{}
	for s := range stats {
		out[s.Id] = s
	}
	if len(out) != len(comps) {
		return nil, fmt.Errorf("%d weighted records for %d trees", len(out), len(comps))
	}
	return out, nil
}

func check(c Case) error {
	memSel = c.Mem
	defer func() { memSel = nil }()
	for k := range prepared {
		delete(prepared, k)
	}
	c, err := applyHistories(c)
	if err != nil {
		return err
	}
	tx, err := ref.NewTaxa(c.Ref.Tips())
	if err != nil {
		return err
	}
	ctx := func(i int) string {
		return fmt.Sprintf("\n ref  %s\n comp %s (%s)\n tips=%v identical-only=%v", ref.Write(c.Ref), ref.Write(c.Comps[i]), c.Classes[i], c.Tips, c.Ident)
	}
	got, err := runCompare(c.Ref, c.Comps, c.Tips, c.Ident)
	if err != nil {
		return err
	}
	alt, err := runCompare(c.RefAlt, c.CompAlt, c.Tips, c.Ident)
	if err != nil {
		return err
	}
	wgot, err := runWeighted(c.Ref, c.Comps, c.Tips, c.Ident)
	if err != nil {
		return err
	}
	for i, comp := range c.Comps {
		e, err := expected(tx, c.Ref, comp, c.Tips)
		if err != nil {
			return err
		}
		g := got[i]
		if g.Err != nil {
			return fmt.Errorf("comparison of trees on the same taxa reports an error: %v%s", g.Err, ctx(i))
		}
		if g.Sametree != e.same {
			return fmt.Errorf("Sametree = %v, expected %v (only-ref %d, only-comp %d)%s", g.Sametree, e.same, e.t1, e.t2, ctx(i))
		}
		if !c.Ident {
			if g.Tree1 != e.t1 || g.Common != e.common || g.Tree2 != e.t2 {
				return fmt.Errorf("counts (ref-only, common, comp-only) = (%d,%d,%d), expected (%d,%d,%d)%s", g.Tree1, g.Common, g.Tree2, e.t1, e.common, e.t2, ctx(i))
			}
		}
		a := alt[i]
		if a.Err != nil || a.Sametree != g.Sametree || (!c.Ident && (a.Tree1 != g.Tree1 || a.Common != g.Common || a.Tree2 != g.Tree2)) {
			return fmt.Errorf("result depends on rooting / child order: (%d,%d,%d,%v) vs (%d,%d,%d,%v) err=%v%s\n ref'  %s\n comp' %s", g.Tree1, g.Common, g.Tree2, g.Sametree, a.Tree1, a.Common, a.Tree2, a.Sametree, a.Err, ctx(i), ref.Write(c.RefAlt), ref.Write(c.CompAlt[i]))
		}
		// swapping the two trees swaps the counts
		sw, err := runCompare(comp, []*ref.Node{c.Ref}, c.Tips, c.Ident)
		if err != nil {
			return err
		}
		s := sw[0]
		if s.Err != nil || s.Sametree != g.Sametree || (!c.Ident && (s.Tree1 != g.Tree2 || s.Tree2 != g.Tree1 || s.Common != g.Common)) {
			return fmt.Errorf("swapping the trees does not swap the counts: (%d,%d,%d,%v) vs swapped (%d,%d,%d,%v)%s", g.Tree1, g.Common, g.Tree2, g.Sametree, s.Tree1, s.Common, s.Tree2, s.Sametree, ctx(i))
		}
		// pairwise variant
		rt, _ := parseMem(c.Ref, 0)
		ct, _ := parseMem(comp, i+1)
		rt.ReinitIndexes()
		ct.ReinitIndexes()
		t1, common, err := rt.CommonEdges(ct, c.Tips)
		if err != nil || t1 != e.t1 || common != e.common {
			return fmt.Errorf("CommonEdges = (%d,%d,%v), expected (%d,%d)%s", t1, common, err, e.t1, e.common, ctx(i))
		}
		// weighted
		w := wgot[i]
		if w.Err != nil {
			return fmt.Errorf("weighted comparison reports an error: %v%s", w.Err, ctx(i))
		}
		if w.Sametree != e.wsame {
			return fmt.Errorf("weighted Sametree = %v, expected %v%s", w.Sametree, e.wsame, ctx(i))
		}
		if !c.Ident {
			if fmt.Sprint(sorted(w.Tree1)) != fmt.Sprint(e.w1) || fmt.Sprint(sorted(w.Tree2)) != fmt.Sprint(e.w2) || fmt.Sprint(sorted(w.Common)) != fmt.Sprint(e.wc) {
				return fmt.Errorf("weighted terms ref-only %v comp-only %v common %v, expected %v %v %v%s", sorted(w.Tree1), sorted(w.Tree2), sorted(w.Common), e.w1, e.w2, e.wc, ctx(i))
			}
		}
	}
	return nil
}

func TestC08Compare(t *testing.T) {
	h.Run(t, h.Spec[Case]{
		Property: "C08", Name: "compare", Quick: 8000, Thorough: 400000,
		Rule: "in a quarter of the cases the reference tree and / or compared trees are objects that were indexed and then edited in memory by 1-3 operations that keep the tip set (re-root, NNI, rotate, names of two tips exchanged through Rename or SetName, ShuffleTips, collapse, resolve, copy ...), the oracle working on the models read back; reference tree (unrooted, 4..12 tips, 5% up to 40/200, multifurcating, all lengths) with 1..5 compared trees of classes {identical, other presentation, contraction, refinement, partial overlap, unrelated} x tips x identical-only; Compare, CompareWeighted and CommonEdges against split-set algebra on the reference model; metamorphic: swapped arguments, re-rooted/rotated presentations; non-trivial = some compared tree shares some but not all splits, or is a contraction/refinement",
		Gen:   genCase,
		Check: check,
		Classify: func(c Case) (bool, []string) {
			tx, _ := ref.NewTaxa(c.Ref.Tips())
			nt := false
			l := []string{fmt.Sprintf("tips=%v/ident=%v", c.Tips, c.Ident)}
			for i, comp := range c.Comps {
				e, err := expected(tx, c.Ref, comp, false)
				if err != nil {
					continue
				}
				l = append(l, "class:"+c.Classes[i])
				if (e.common > 0 && (e.t1 > 0 || e.t2 > 0)) || c.Classes[i] == "contraction" || c.Classes[i] == "refinement" {
					nt = true
				}
				if e.t1 > 0 && e.t2 == 0 {
					l = append(l, fmt.Sprintf("comp-strict-contraction/ident=%v", c.Ident))
				}
				if e.t2 > 0 && e.t1 == 0 {
					l = append(l, fmt.Sprintf("comp-strict-refinement/ident=%v", c.Ident))
				}
			}
			return nt, l
		},
	})
}

// ---------------------------------------------------------------------------------------
// rejection of differing taxa

type RejCase struct {
	Ref  *ref.Node `json:"ref"`
	Comp *ref.Node `json:"comp"`
	Kind string    `json:"kind"`
	Pos  int       `json:"pos"`
	N    int       `json:"n"`
	Tips bool      `json:"tips"`
}

func mismatch(t *rapid.T, m *ref.Node, kind string) *ref.Node {
	r := m.Clone()
	tips := r.TipNodes()
	x := tips[rapid.IntRange(0, len(tips)-1).Draw(t, "mtip")]
	switch kind {
	case "renamed":
		x.Name = "zz_other"
	case "duplicate":
		// same number of tips: one taxon is missing, another one is there twice
		y := tips[rapid.IntRange(0, len(tips)-1).Draw(t, "mtip2")]
		if y == x {
			x.Name = "zz_other"
		} else {
			x.Name = y.Name
		}
	case "added":
		x.Ch = []*ref.Node{{Name: x.Name, Len: ref.F(1)}, {Name: "zz_extra", Len: ref.F(1)}}
		x.Name = ""
	case "removed":
		keep := x.Name
		r = ref.Restrict(r, func(n string) bool { return n != keep })
	}
	return r
}

func checkRej(c RejCase) error {
	comps := make([]*ref.Node, c.N)
	for i := range comps {
		comps[i] = c.Ref
	}
	comps[c.Pos%c.N] = c.Comp
	ident := (c.Pos+c.N)%2 == 1 // with and without the identical-only shortcut
	got, err := runCompare(c.Ref, comps, c.Tips, ident)
	if err != nil {
		return err
	}
	wgot, err := runWeighted(c.Ref, comps, c.Tips, ident)
	if err != nil {
		return err
	}
	for i := range comps {
		bad := i == c.Pos%c.N
		if (got[i].Err != nil) != bad {
			return fmt.Errorf("Compare record %d: Err = %v, mismatched tree at %d (%s)\n ref %s\n bad %s", i, got[i].Err, c.Pos%c.N, c.Kind, ref.Write(c.Ref), ref.Write(c.Comp))
		}
		if (wgot[i].Err != nil) != bad {
			return fmt.Errorf("CompareWeighted record %d: Err = %v, mismatched tree at %d (%s)", i, wgot[i].Err, c.Pos%c.N, c.Kind)
		}
		if !bad && (!got[i].Sametree || got[i].Tree1 != 0 || got[i].Tree2 != 0) {
			return fmt.Errorf("Compare record %d of an identical tree is wrong next to a mismatched tree: %+v", i, got[i])
		}
	}
	rt, _ := gt.FromModel(c.Ref)
	ct, _ := gt.FromModel(c.Comp)
	rt.ReinitIndexes()
	ct.ReinitIndexes()
	if _, _, err := rt.CommonEdges(ct, c.Tips); err == nil {
		return fmt.Errorf("CommonEdges accepts trees on different taxa (%s)", c.Kind)
	}
	return nil
}

func TestC08Reject(t *testing.T) {
	h.Run(t, h.Spec[RejCase]{
		Property: "C08", Name: "reject", Quick: 3000, Thorough: 100000,
		Rule: "a compared tree with one tip renamed / one tip added / one tip removed / one tip carrying the name of another one (same number of tips) at a drawn position of a stream of 1..5 otherwise identical trees; the record of that tree must carry an error, the others must not, with and without the identical-only shortcut; every case is non-trivial",
		Gen: func(t *rapid.T, thorough bool) RejCase {
			o := baseOpts(thorough)
			o.MinTips = 5
			base := gen.Tree(t, o)
			kind := rapid.SampledFrom([]string{"renamed", "added", "removed", "duplicate"}).Draw(t, "kind")
			return RejCase{Ref: base, Comp: mismatch(t, base, kind), Kind: kind, Pos: rapid.IntRange(0, 4).Draw(t, "pos"), N: rapid.IntRange(1, 5).Draw(t, "n"), Tips: rapid.Bool().Draw(t, "tips")}
		},
		Check:    checkRej,
		Classify: func(c RejCase) (bool, []string) { return true, []string{"kind:" + c.Kind} },
	})
}

// ---------------------------------------------------------------------------------------
// command level: gotree compare trees [-l] [--binary | --rf | --weighted] [-t n]

type CliCase struct {
	Ref     *ref.Node   `json:"ref"`
	Comps   []*ref.Node `json:"comps"`
	Tips    bool        `json:"tips"`
	Mode    string      `json:"mode"` // table | binary | rf | weighted
	Threads int         `json:"threads"`
	Bad     string      `json:"bad,omitempty"` // "" | mismatch (one compared tree on other taxa) | broken (a record that is not a tree)
	BadPos  int         `json:"bad_pos,omitempty"`
}

func checkCli(c CliCase) error {
	if !cli.Available() {
		return fmt.Errorf("harness: gotree binary not built")
	}
	tx, err := ref.NewTaxa(c.Ref.Tips())
	if err != nil {
		return err
	}
	dir := cli.Scratch()
	var comps strings.Builder
	for i, m := range c.Comps {
		if c.Bad != "" && i == c.BadPos%len(c.Comps) {
			switch c.Bad {
			case "mismatch":
				mm := m.Clone()
				mm.TipNodes()[c.BadPos%len(mm.TipNodes())].Name = "zz_other"
				comps.WriteString(ref.Write(mm) + "\n")
			default:
				comps.WriteString("((a,b),c;\n")
			}
			continue
		}
		comps.WriteString(ref.Write(m) + "\n")
	}
	args := []string{"compare", "trees", "-i", cli.WriteIn(dir, "ref.nw", ref.Write(c.Ref)+"\n"), "-c", cli.WriteIn(dir, "comp.nw", comps.String()), "-t", strconv.Itoa(c.Threads)}
	if c.Tips {
		args = append(args, "-l")
	}
	switch c.Mode {
	case "binary":
		args = append(args, "--binary")
	case "rf":
		args = append(args, "--rf")
	case "weighted":
		args = append(args, "--weighted")
	}
	r := cli.Run(dir, "", args...)
	ctx := fmt.Sprintf(" (gotree %v)\n ref %s\n%s", args, ref.Write(c.Ref), comps.String())
	if c.Bad != "" {
		// a compared tree on other taxa, or a record that is not a tree: rejected with an error
		if r.TimedOut {
			return fmt.Errorf("the command does not end when a compared tree is bad (%s at position %d)%s", c.Bad, c.BadPos%len(c.Comps), ctx)
		}
		if r.Panicked() {
			return fmt.Errorf("the command crashes on a bad compared tree (%s): %s%s", c.Bad, r.Stderr, ctx)
		}
		if r.Code == 0 {
			return fmt.Errorf("a bad compared tree (%s at position %d) is not reported: exit status 0, output %q%s", c.Bad, c.BadPos%len(c.Comps), r.Stdout, ctx)
		}
		return nil
	}
	if r.Code != 0 || r.TimedOut {
		return fmt.Errorf("command failed with status %d: %s%s", r.Code, r.Stderr, ctx)
	}
	lines := strings.Split(strings.TrimRight(r.Stdout, "\n"), "\n")
	if c.Mode != "rf" {
		lines = lines[1:] // header
	}
	if len(lines) != len(c.Comps) {
		return fmt.Errorf("%d result lines for %d compared trees%s", len(lines), len(c.Comps), ctx)
	}
	seen := map[int]bool{}
	for li, l := range lines {
		f := strings.Split(l, "\t")
		id := li // --rf prints no identifier: file order
		if c.Mode != "rf" {
			id, err = strconv.Atoi(f[0])
			if err != nil || id < 0 || id >= len(c.Comps) || seen[id] {
				return fmt.Errorf("bad or repeated tree identifier in line %q%s", l, ctx)
			}
			seen[id] = true
		}
		e, err := expected(tx, c.Ref, c.Comps[id], c.Tips)
		if err != nil {
			return err
		}
		switch c.Mode {
		case "table":
			if want := fmt.Sprintf("%d\t%d\t%d\t%d", id, e.t1, e.common, e.t2); l != want {
				return fmt.Errorf("line %q, expected %q (tree, reference-only, common, compared-only)%s", l, want, ctx)
			}
		case "binary":
			if want := fmt.Sprintf("%d\t%v", id, e.same); l != want {
				return fmt.Errorf("line %q, expected %q%s", l, want, ctx)
			}
		case "rf":
			if want := strconv.Itoa(e.t1 + e.t2); l != want {
				return fmt.Errorf("line %d is %q, the Robinson-Foulds distance of compared tree %d is %s%s", li, l, li, want, ctx)
			}
		case "weighted":
			wrf, kf := 0.0, 0.0
			for _, d := range e.wc {
				wrf += math.Abs(d)
				kf += d * d
			}
			for _, x := range append(append([]float64{}, e.w1...), e.w2...) {
				wrf += x
				kf += x * x
			}
			kf = math.Sqrt(kf)
			gw, err1 := strconv.ParseFloat(f[1], 64)
			gk, err2 := strconv.ParseFloat(f[2], 64)
			// printed with %E (7 significant digits); the order of the additions is free
			if err1 != nil || err2 != nil || math.Abs(gw-wrf) > 1e-6*math.Max(1, wrf) || math.Abs(gk-kf) > 1e-6*math.Max(1, kf) {
				return fmt.Errorf("line %q, expected weighted RF %E and KF %E%s", l, wrf, kf, ctx)
			}
		}
	}
	return nil
}

func TestC08Cli(t *testing.T) {
	h.Run(t, h.Spec[CliCase]{
		Property: "C08", Name: "cli", Quick: 1600, Thorough: 32000, Timeout: 90e9,
		Rule: "the same related tree pairs (1-5 compared trees, one case in six 40-300 compared trees with 2-16 threads) through `gotree compare trees` in its four output modes (count table, --binary, --rf, --weighted), with and without -l, with 1-8 threads: every printed column is recomputed from the reference split sets (counts exactly; weighted RF and KF to the 7 printed digits); identifiers must be those of the file, --rf lines must be in file order; in one case in five one compared tree is on other taxa or is not a tree: the command must end with a non-zero status in every mode; non-trivial = >= 2 compared trees",
		Gen: func(t *rapid.T, thorough bool) CliCase {
			b := genCase(t, false)
			c := CliCase{Ref: b.Ref, Comps: b.Comps, Tips: b.Tips, Mode: rapid.SampledFrom([]string{"table", "binary", "rf", "weighted"}).Draw(t, "mode"), Threads: rapid.SampledFrom([]int{1, 1, 2, 4, 8}).Draw(t, "threads")}
			if rapid.IntRange(0, 5).Draw(t, "long") == 3 {
				// a long file of compared trees (results complete out of order with several threads)
				n := rapid.IntRange(40, 300).Draw(t, "nlong")
				base := c.Comps
				c.Comps = nil
				for i := 0; i < n; i++ {
					c.Comps = append(c.Comps, base[rapid.IntRange(0, len(base)-1).Draw(t, "pickcomp")])
				}
				c.Threads = rapid.SampledFrom([]int{2, 3, 4, 8, 16}).Draw(t, "threadslong")
			}
			if rapid.IntRange(0, 4).Draw(t, "hasbad") == 2 {
				c.Bad = rapid.SampledFrom([]string{"mismatch", "broken"}).Draw(t, "bad")
				c.BadPos = rapid.IntRange(0, 20).Draw(t, "badpos")
			}
			return c
		},
		Check: checkCli,
		Classify: func(c CliCase) (bool, []string) {
			return len(c.Comps) >= 2, []string{"mode:" + c.Mode, fmt.Sprintf("threads:%d", c.Threads), "bad:" + c.Bad, c.Mode + "/bad:" + c.Bad}
		},
	})
}
