package c08

import (
	"fmt"
	"testing"

	"pgregory.net/rapid"

	"verif/internal/gen"
	"verif/internal/h"
	"verif/internal/ref"
)

// weighted-self: a tree compared with itself - the same text, and another presentation of the same
// unrooted tree - has no split of its own on either side and no difference of length on a shared
// split, whatever its lengths are: present on every branch, on some, on none, zero, negative.
// (The full oracle of the `compare` check needs a length on every branch to state what a
// "difference of lengths" is; this relation does not.)

type SelfCase struct {
	Tree *ref.Node `json:"tree"`
	Alt  *ref.Node `json:"alt"` // another presentation of the same unrooted tree
	Tips bool      `json:"tips"`
}

func checkSelf(c SelfCase) error {
	for _, ident := range []bool{false, true} {
		for k, comp := range []*ref.Node{c.Tree, c.Alt} {
			w, err := runWeighted(c.Tree, []*ref.Node{comp}, c.Tips, ident)
			if err != nil {
				return err
			}
			g := w[0]
			what := []string{"itself", "another presentation of itself"}[k]
			ctx := fmt.Sprintf(" (tips=%v identical-only=%v)\n ref  %s\n comp %s", c.Tips, ident, ref.Write(c.Tree), ref.Write(comp))
			if g.Err != nil {
				return fmt.Errorf("weighted comparison of a tree with %s reports an error: %v%s", what, g.Err, ctx)
			}
			if !g.Sametree {
				return fmt.Errorf("weighted comparison of a tree with %s: Sametree = false%s", what, ctx)
			}
			if len(g.Tree1) != 0 || len(g.Tree2) != 0 {
				return fmt.Errorf("weighted comparison of a tree with %s: reference-only terms %v, compared-only terms %v%s", what, g.Tree1, g.Tree2, ctx)
			}
			for _, d := range g.Common {
				if d != 0 {
					return fmt.Errorf("weighted comparison of a tree with %s: a shared split has a length difference of %v (all terms %v)%s", what, d, g.Common, ctx)
				}
			}
			s, err := runCompare(c.Tree, []*ref.Node{comp}, c.Tips, ident)
			if err != nil {
				return err
			}
			if s[0].Err != nil || !s[0].Sametree || (!ident && (s[0].Tree1 != 0 || s[0].Tree2 != 0)) {
				return fmt.Errorf("comparison of a tree with %s: (%d,%d,%d,%v) err=%v%s", what, s[0].Tree1, s[0].Common, s[0].Tree2, s[0].Sametree, s[0].Err, ctx)
			}
		}
	}
	return nil
}

func TestC08WeightedSelf(t *testing.T) {
	h.Run(t, h.Spec[SelfCase]{
		Property: "C08", Name: "weighted-self", Quick: 3000, Thorough: 100000,
		Rule: "an unrooted tree (4..12 tips, 5% up to 40; multifurcating) whose lengths are present on every branch, on some or on none, with values that include zero, ties, negative and extreme ones, compared (weighted and unweighted, with and without tips, with and without the identical-only shortcut) with itself and with another presentation of itself: identical, no reference-only or compared-only term, every difference of a shared split exactly 0; non-trivial = some branch lacks a length or has a negative one",
		Gen: func(t *rapid.T, thorough bool) SelfCase {
			o := gen.Opts{MinTips: 4, MaxTips: 12, BigTips: 40, Rooted: 0, MaxDeg: 6, Lens: gen.AnyPresence, LenVals: rapid.SampledFrom([]int{gen.DyadicZ, gen.Arbitrary, gen.Wild}).Draw(t, "vals")}
			m := gen.Tree(t, o)
			return SelfCase{Tree: m, Alt: gen.Represent(t, m), Tips: rapid.Bool().Draw(t, "tips")}
		},
		Check: checkSelf,
		Classify: func(c SelfCase) (bool, []string) {
			absent, neg := false, false
			c.Tree.Walk(func(x, p *ref.Node) {
				if p != nil {
					absent = absent || x.Len == nil
					neg = neg || (x.Len != nil && *x.Len < 0)
				}
			})
			var l []string
			if absent {
				l = append(l, "absent-length")
			}
			if neg {
				l = append(l, "negative-length")
			}
			return absent || neg, l
		},
	})
}
