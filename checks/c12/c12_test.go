package c12

import (
	"fmt"
	"math/rand"
	"sort"
	"strconv"
	"strings"
	"testing"

	"pgregory.net/rapid"

	"github.com/evolbioinfo/goalign/align"
	"github.com/evolbioinfo/gotree/acr"
	"github.com/evolbioinfo/gotree/asr"
	"github.com/evolbioinfo/gotree/tree"

	"verif/internal/big"
	"verif/internal/gen"
	"verif/internal/gt"
	"verif/internal/h"
	"verif/internal/ref"
)

func TestMain(m *testing.M) { h.Main(m) }

// ---------------------------------------------------------------------------------------
// self-check of the oracle: Sankoff DP == exhaustive enumeration on tiny trees

type SelfCase struct {
	Tree   *ref.Node `json:"tree"`
	K      int       `json:"k"`
	States [][]int   `json:"states"` // allowed states per tip, in left-to-right tip order
}

func allowedFn(m *ref.Node, k int, states [][]int) func(*ref.Node) []bool {
	idx := map[*ref.Node]int{}
	for i, t := range m.TipNodes() {
		idx[t] = i
	}
	return func(t *ref.Node) []bool {
		a := make([]bool, k)
		for _, s := range states[idx[t]%len(states)] {
			a[s%k] = true
		}
		return a
	}
}

func genStates(t *rapid.T, ntips, k int, ambiguous bool) [][]int {
	out := make([][]int, ntips)
	// bias towards few distinct states so that ties and large optimal sets are common
	kk := rapid.IntRange(1, k).Draw(t, "kused")
	for i := range out {
		out[i] = []int{rapid.IntRange(0, kk-1).Draw(t, "st")}
		if ambiguous && rapid.IntRange(0, 3).Draw(t, "amb") == 0 {
			n := rapid.IntRange(1, 2).Draw(t, "namb")
			for j := 0; j < n; j++ {
				out[i] = append(out[i], rapid.IntRange(0, k-1).Draw(t, "st2"))
			}
		}
	}
	return out
}

func checkSelf(c SelfCase) error {
	al := allowedFn(c.Tree, c.K, c.States)
	a := ref.Sankoff(c.Tree, c.K, al)
	b := ref.BruteParsimony(c.Tree, c.K, al)
	if a.Min != b.Min {
		return fmt.Errorf("oracle self-check: DP minimum %d, enumeration %d on %s", a.Min, b.Min, ref.Write(c.Tree))
	}
	for n, ob := range b.Opt {
		if fmt.Sprint(a.Opt[n]) != fmt.Sprint(ob) {
			return fmt.Errorf("oracle self-check: optimal sets differ at a node of %s: DP %v enumeration %v", ref.Write(c.Tree), a.Opt[n], ob)
		}
	}
	return nil
}

func TestC12OracleSelfCheck(t *testing.T) {
	h.Run(t, h.Spec[SelfCase]{
		Property: "C12", Name: "oracle-selfcheck", Quick: 3000, Thorough: 60000,
		Rule: "trees with <= 7 tips x <= 4 states x tip state sets: the Sankoff DP used as oracle must agree (minimum and per-node optimal sets) with exhaustive enumeration of all labelings; non-trivial = minimum >= 1",
		Gen: func(t *rapid.T, thorough bool) SelfCase {
			m := gen.Tree(t, gen.Opts{MinTips: 3, MaxTips: 7, Rooted: -1, MaxDeg: 5})
			k := rapid.IntRange(1, 4).Draw(t, "k")
			return SelfCase{m, k, genStates(t, len(m.Tips()), k, true)}
		},
		Check: checkSelf,
		Classify: func(c SelfCase) (bool, []string) {
			return ref.Sankoff(c.Tree, c.K, allowedFn(c.Tree, c.K, c.States)).Min >= 1, nil
		},
	})
}

// ---------------------------------------------------------------------------------------
// ACR

type AcrCase struct {
	Tree   *ref.Node `json:"tree"`
	Names  []string  `json:"state_names"`
	States []int     `json:"states"` // state index per tip, left-to-right order
	Algo   string    `json:"algo"`   // downpass | deltran | acctran
	Random bool      `json:"random_resolve"`
	Seed   int64     `json:"seed"`
	Reroot int       `json:"reroot"` // -1: as is; otherwise index (mod) of the inner node to re-root at first
}

var algos = map[string]int{"downpass": acr.ALGO_DOWNPASS, "deltran": acr.ALGO_DELTRAN, "acctran": acr.ALGO_ACCTRAN}

var stateNamePool = []string{"A", "B", "C", "D", "E", "F", "st1", "state two", "x/y", "0", "1", "A;B", "é", "2", "10", "19A", "14"}

func genAcr(t *rapid.T, thorough bool) AcrCase {
	// input trees may already carry node comments (annotations of an earlier run): the states written
	// on the tree must replace them
	o := gen.Opts{MinTips: 3, MaxTips: 12, BigTips: 40, Rooted: -1, MaxDeg: 6, Lens: gen.AnyPresence, LenVals: gen.DyadicZ, InnerNames: gen.AnyPresence, Comments: rapid.IntRange(0, 2).Draw(t, "comments") == 0, Wide: true}
	if thorough {
		o.BigTips = 150
	}
	// one case in forty has more states than a machine word has bits (e.g. countries or hosts as
	// character states): 60..66 states that occur on one tip each, plus 2..4 states shared by the
	// other tips whose names sort last, so that the states the reconstruction works with sit around
	// and beyond position 64 of the sorted state list
	many := rapid.IntRange(0, 39).Draw(t, "manystates") == 9
	if many {
		o.MinTips, o.MaxTips, o.BigTips = 90, 130, 0
	}
	m := gen.Tree(t, o)
	k := rapid.IntRange(1, 6).Draw(t, "k")
	names := append([]string(nil), rapid.Permutation(stateNamePool).Draw(t, "names")[:k]...)
	kk := k
	if rapid.IntRange(0, 4).Draw(t, "fewer") == 0 {
		kk = rapid.IntRange(1, k).Draw(t, "kused")
	}
	st := make([]int, len(m.Tips()))
	for i := range st {
		st[i] = rapid.IntRange(0, kk-1).Draw(t, "st")
	}
	if many {
		nf := rapid.IntRange(60, 66).Draw(t, "nfillers")
		na := rapid.IntRange(2, 4).Draw(t, "nactive")
		names = nil
		for i := 0; i < nf; i++ {
			names = append(names, fmt.Sprintf("f%02d", i))
		}
		for i := 0; i < na; i++ {
			names = append(names, fmt.Sprintf("z%d", i))
		}
		pos := rapid.Permutation(func() []int {
			l := make([]int, len(st))
			for i := range l {
				l[i] = i
			}
			return l
		}()).Draw(t, "fillerpos")
		for i := range st {
			st[i] = nf + rapid.IntRange(0, na-1).Draw(t, "active")
		}
		for i := 0; i < nf; i++ {
			st[pos[i]] = i
		}
		// the order of the names in the case is unrelated to their sorted order
		perm := rapid.Permutation(func() []int {
			l := make([]int, len(names))
			for i := range l {
				l[i] = i
			}
			return l
		}()).Draw(t, "nameorder")
		nn := make([]string, len(names))
		inv := make([]int, len(names))
		for newi, oldi := range perm {
			nn[newi] = names[oldi]
			inv[oldi] = newi
		}
		names = nn
		for i := range st {
			st[i] = inv[st[i]]
		}
	}
	c := AcrCase{Tree: m, Names: names, States: st, Algo: rapid.SampledFrom([]string{"downpass", "deltran", "acctran"}).Draw(t, "algo"),
		Random: rapid.IntRange(0, 3).Draw(t, "random") == 0, Seed: rapid.Int64Range(0, 1<<40).Draw(t, "seed"), Reroot: -1}
	if rapid.Bool().Draw(t, "rr") {
		c.Reroot = rapid.IntRange(0, 1000).Draw(t, "rrat")
	}
	return c
}

// nodeMap pairs every gotree node with its model node (parallel walk).
func nodeMap(t *tree.Tree, m *ref.Node) (map[*tree.Node]*ref.Node, error) {
	pairs, err := gt.PairEdges(t, m)
	if err != nil {
		return nil, err
	}
	out := map[*tree.Node]*ref.Node{t.Root(): m}
	for _, p := range pairs {
		out[p.E.Right()] = p.M
	}
	return out, nil
}

func setOf(names []string, o []bool) string {
	var s []string
	for i, b := range o {
		if b {
			s = append(s, names[i])
		}
	}
	sort.Strings(s)
	return strings.Join(s, "|")
}

func checkAcr(c AcrCase) error {
	t, err := gt.FromModel(c.Tree)
	if err != nil {
		return err
	}
	nm, err := nodeMap(t, c.Tree)
	if err != nil {
		return err
	}
	k := len(c.Names)
	tipState := map[string]string{}
	tipIdx := map[*ref.Node]int{}
	for i, tip := range c.Tree.TipNodes() {
		tipState[tip.Name] = c.Names[c.States[i]]
		tipIdx[tip] = c.States[i]
	}
	oracle := ref.Sankoff(c.Tree, k, func(tip *ref.Node) []bool {
		a := make([]bool, k)
		a[tipIdx[tip]] = true
		return a
	})
	if c.Reroot >= 0 {
		var inner []*tree.Node
		for _, n := range t.Nodes() {
			if n.Nneigh() >= 2 && n != t.Root() {
				inner = append(inner, n)
			}
		}
		if len(inner) > 0 {
			if err := t.Reroot(inner[c.Reroot%len(inner)]); err != nil {
				return fmt.Errorf("Reroot failed: %v", err)
			}
		}
	}
	ctx := func() string {
		return fmt.Sprintf("\n tree %s\n states %v algo %s random %v rerooted %v -> %s", ref.Write(c.Tree), tipState, c.Algo, c.Random, c.Reroot >= 0, t.Newick())
	}
	rand.Seed(c.Seed)
	nodesBefore := t.Nodes()
	res, steps, err := acr.ParsimonyAcr(t, tipState, algos[c.Algo], c.Random)
	if err != nil {
		return fmt.Errorf("ParsimonyAcr failed: %v%s", err, ctx())
	}
	if steps != oracle.Min {
		return fmt.Errorf("reported %d steps, the minimum number of state changes is %d%s", steps, oracle.Min, ctx())
	}
	single := true
	got := map[*ref.Node]string{}
	for i, n := range nodesBefore {
		m := nm[n]
		if m == nil {
			return fmt.Errorf("harness: unmapped node")
		}
		if len(n.Comments()) != 1 {
			return fmt.Errorf("node %q carries %d annotations, expected one%s", n.Name(), len(n.Comments()), ctx())
		}
		parts := strings.Split(n.Comments()[0], "|")
		sort.Strings(parts)
		g := strings.Join(parts, "|")
		got[m] = g
		if m.IsTip() {
			if g != tipState[m.Name] {
				return fmt.Errorf("tip %q annotated %q, its given state is %q%s", m.Name, g, tipState[m.Name], ctx())
			}
			continue
		}
		if len(parts) != 1 {
			single = false
		}
		opt := setOf(c.Names, oracle.Opt[m])
		optSet := map[string]bool{}
		for _, s := range strings.Split(opt, "|") {
			optSet[s] = true
		}
		for _, s := range parts {
			if !optSet[s] {
				return fmt.Errorf("inner node (clade %v) reports state %q which occurs there in no most-parsimonious reconstruction (optimal set {%s})%s", m.Tips(), s, opt, ctx())
			}
		}
		if c.Algo == "downpass" && !c.Random && g != opt {
			return fmt.Errorf("down-pass reports {%s} at clade %v, the set of optimal states is {%s}%s", g, m.Tips(), opt, ctx())
		}
		if c.Random && len(parts) != 1 {
			return fmt.Errorf("random resolution left %d states at clade %v%s", len(parts), m.Tips(), ctx())
		}
		// the returned map: key = name or position in Nodes(), value = comma-joined sorted states
		key := n.Name()
		if key == "" {
			key = strconv.Itoa(i)
		}
		if v, ok := res[key]; !ok || v != strings.Join(parts, ",") {
			if n.Name() == "" || uniqueInnerName(c.Tree, n.Name()) {
				return fmt.Errorf("returned map has %q for node %q, the tree annotation is %q%s", v, key, strings.Join(parts, ","), ctx())
			}
		}
	}
	if !c.Random {
		// a second run on the same (now annotated) tree object gives the same steps and annotations
		res2, steps2, err := acr.ParsimonyAcr(t, tipState, algos[c.Algo], false)
		if err != nil || steps2 != steps || len(res2) != len(res) {
			return fmt.Errorf("second ParsimonyAcr on the same tree: %d steps (%v), first run %d%s", steps2, err, steps, ctx())
		}
		for i, n := range nodesBefore {
			_ = i
			if len(n.Comments()) != 1 {
				return fmt.Errorf("after a second run a node carries %d annotations%s", len(n.Comments()), ctx())
			}
			parts := strings.Split(n.Comments()[0], "|")
			sort.Strings(parts)
			if g := strings.Join(parts, "|"); g != got[nm[n]] {
				return fmt.Errorf("second run on the same tree annotates %q, the first run %q%s", g, got[nm[n]], ctx())
			}
		}
	}
	if !c.Random {
		// reconstructing with another algorithm on a copy leaves the annotation of the source alone
		other := map[string]string{"downpass": "deltran", "deltran": "acctran", "acctran": "downpass", "none": "downpass"}[c.Algo]
		if _, ok := algos[other]; ok {
			cl := t.Clone()
			if _, _, err := acr.ParsimonyAcr(cl, tipState, algos[other], false); err != nil {
				return fmt.Errorf("ParsimonyAcr (%s) on a clone failed: %v%s", other, err, ctx())
			}
			for _, n := range nodesBefore {
				if len(n.Comments()) != 1 {
					return fmt.Errorf("after a reconstruction on a clone a node of the source carries %d annotations%s", len(n.Comments()), ctx())
				}
				parts := strings.Split(n.Comments()[0], "|")
				sort.Strings(parts)
				if g := strings.Join(parts, "|"); g != got[nm[n]] {
					return fmt.Errorf("a reconstruction (%s) on a clone changed the source's annotation from %q to %q%s", other, got[nm[n]], g, ctx())
				}
			}
		}
	}
	if single && !c.Random {
		// unambiguous everywhere: the output itself must be most parsimonious
		changes := 0
		c.Tree.Walk(func(x, p *ref.Node) {
			if p != nil && got[x] != got[p] {
				changes++
			}
		})
		if changes != oracle.Min {
			return fmt.Errorf("unambiguous output has %d state changes, the minimum is %d%s", changes, oracle.Min, ctx())
		}
	}
	return nil
}

func uniqueInnerName(m *ref.Node, name string) bool {
	k := 0
	m.Walk(func(x, p *ref.Node) {
		if !x.IsTip() && x.Name == name {
			k++
		}
	})
	if _, err := strconv.Atoi(name); err == nil {
		return false
	}
	return k == 1
}

func classifyAcr(c AcrCase) (bool, []string) {
	k := len(c.Names)
	tipIdx := map[*ref.Node]int{}
	for i, tip := range c.Tree.TipNodes() {
		tipIdx[tip] = c.States[i]
	}
	o := ref.Sankoff(c.Tree, k, func(tip *ref.Node) []bool {
		a := make([]bool, k)
		a[tipIdx[tip]] = true
		return a
	})
	l := []string{"algo:" + c.Algo, fmt.Sprintf("random=%v", c.Random)}
	if len(c.Names) > 64 {
		l = append(l, "states>64")
	}
	poly, amb, tie3 := false, false, false
	c.Tree.Walk(func(x, p *ref.Node) {
		if x.IsTip() {
			return
		}
		d := len(x.Ch)
		if p != nil {
			d++
		}
		if d > 3 {
			poly = true
		}
		n := 0
		for _, b := range o.Opt[x] {
			if b {
				n++
			}
		}
		if n > 1 {
			amb = true
		}
		if n >= 3 && d > 3 {
			tie3 = true
		}
	})
	if poly {
		l = append(l, "polytomy")
	}
	if amb {
		l = append(l, "ambiguous-node")
	}
	if tie3 {
		l = append(l, "three-way-tie-at-polytomy")
	}
	if o.Min == 0 {
		l = append(l, "all-tips-equal")
	}
	if len(c.Tree.Ch) == 2 {
		l = append(l, "rooted")
	}
	if c.Reroot >= 0 {
		l = append(l, "rerooted")
	}
	return o.Min >= 2 && (amb || poly), l
}

func TestC12Acr(t *testing.T) {
	f := func(a ...*ref.Node) []*ref.Node { return a }
	tip := func(n string) *ref.Node { return &ref.Node{Name: n} }
	h.Run(t, h.Spec[AcrCase]{
		Property: "C12", Name: "acr", Quick: 16000, Thorough: 800000,
		Rule: "trees (3..12 tips, 5% up to 40/150; rooted or not; multifurcating; optionally re-rooted at an inner node first) x 1..6 states (multi-character names) assigned to tips with few distinct states x {downpass, deltran, acctran} x random resolution (seeded); oracle = independent Sankoff DP (minimum, per-node optimal state sets): steps == minimum, tip annotations unchanged, reported inner states within the optimal set, down-pass == optimal set, unambiguous output has exactly the minimum number of changes, returned map == tree annotations; non-trivial = minimum >= 2 and an ambiguous node or a polytomy",
		Gen: genAcr, Check: checkAcr, Classify: classifyAcr,
		Anchors: []AcrCase{
			// three-way tie at a polytomy; all tips equal
			{Tree: &ref.Node{Ch: f(tip("a"), tip("b"), tip("c"), &ref.Node{Ch: f(tip("d"), tip("e"), tip("f"))})}, Names: []string{"A", "B", "C"}, States: []int{0, 1, 2, 0, 1, 2}, Algo: "downpass", Reroot: -1},
			{Tree: &ref.Node{Ch: f(tip("a"), tip("b"), &ref.Node{Ch: f(tip("c"), tip("d"))})}, Names: []string{"A"}, States: []int{0, 0, 0, 0}, Algo: "acctran", Reroot: -1},
			{Tree: &ref.Node{Ch: f(&ref.Node{Ch: f(tip("a"), tip("b"))}, &ref.Node{Ch: f(tip("c"), tip("d"), tip("e"))})}, Names: []string{"A", "B"}, States: []int{0, 1, 0, 1, 1}, Algo: "deltran", Reroot: 0},
		},
	})
}

// ---------------------------------------------------------------------------------------
// ASR

type AsrCase struct {
	Tree   *ref.Node `json:"tree"`
	Seqs   []string  `json:"seqs"` // one sequence per tip, left-to-right order
	Algo   string    `json:"algo"`
	Random bool      `json:"random_resolve"`
	Seed   int64     `json:"seed"`
	Reroot int       `json:"reroot"`
}

var nucStates = []byte{'A', 'C', 'G', 'T', '-'}
var nucIndex = map[byte]int{'A': 0, 'C': 1, 'G': 2, 'T': 3, '-': 4}
var iupac = map[byte]string{'A': "A", 'C': "C", 'G': "G", 'T': "T", 'R': "AG", 'Y': "CT", 'S': "GC", 'W': "AT", 'K': "GT", 'M': "AC",
	'B': "CGT", 'D': "AGT", 'H': "ACT", 'V': "ACG", 'N': "ACGT", '-': "-"}

func genAsr(t *rapid.T, thorough bool) AsrCase {
	o := gen.Opts{MinTips: 3, MaxTips: 10, BigTips: 30, Rooted: -1, MaxDeg: 5, Lens: gen.AnyPresence, LenVals: gen.DyadicZ}
	if thorough {
		o.BigTips = 100
	}
	m := gen.Tree(t, o)
	n := len(m.Tips())
	L := rapid.IntRange(1, 12).Draw(t, "len")
	if thorough && rapid.IntRange(0, 9).Draw(t, "long") == 0 {
		L = rapid.IntRange(13, 30).Draw(t, "len2")
	}
	if rapid.IntRange(0, 39).Draw(t, "verylong") == 0 {
		L = rapid.IntRange(65, 90).Draw(t, "len3") // more than 64 sites
	}
	ambiguous := rapid.Bool().Draw(t, "ambiguous")
	seqs := make([][]byte, n)
	for i := range seqs {
		seqs[i] = make([]byte, L)
	}
	for j := 0; j < L; j++ {
		// per site: a small pool of characters so that columns are informative
		pool := rapid.SliceOfN(rapid.SampledFrom([]byte("ACGT-")), 1, 3).Draw(t, "pool")
		for i := 0; i < n; i++ {
			ch := pool[rapid.IntRange(0, len(pool)-1).Draw(t, "ch")]
			if ambiguous && rapid.IntRange(0, 4).Draw(t, "amb") == 0 {
				ch = rapid.SampledFrom([]byte("RYSWKMBDHVN")).Draw(t, "iupac")
			}
			seqs[i][j] = ch
		}
	}
	c := AsrCase{Tree: m, Algo: rapid.SampledFrom([]string{"downpass", "deltran", "acctran"}).Draw(t, "algo"),
		Random: rapid.IntRange(0, 3).Draw(t, "random") == 0, Seed: rapid.Int64Range(0, 1<<40).Draw(t, "seed"), Reroot: -1}
	for _, s := range seqs {
		c.Seqs = append(c.Seqs, string(s))
	}
	if rapid.Bool().Draw(t, "rr") {
		c.Reroot = rapid.IntRange(0, 1000).Draw(t, "rrat")
	}
	return c
}

// parseAncestral splits "A{CG}T" into per-site state strings.
func parseAncestral(s string) ([]string, error) {
	var out []string
	for i := 0; i < len(s); i++ {
		if s[i] == '{' {
			j := strings.IndexByte(s[i:], '}')
			if j < 0 {
				return nil, fmt.Errorf("unterminated { in %q", s)
			}
			out = append(out, s[i+1:i+j])
			i += j
		} else {
			out = append(out, s[i:i+1])
		}
	}
	return out, nil
}

func sortStr(s string) string {
	b := []byte(s)
	sort.Slice(b, func(i, j int) bool { return b[i] < b[j] })
	return string(b)
}

func checkAsr(c AsrCase) error {
	t, err := gt.FromModel(c.Tree)
	if err != nil {
		return err
	}
	nm, err := nodeMap(t, c.Tree)
	if err != nil {
		return err
	}
	tips := c.Tree.TipNodes()
	L := len(c.Seqs[0])
	al := align.NewAlign(align.NUCLEOTIDS)
	seqOf := map[*ref.Node]string{}
	unamb := true
	for i, tip := range tips {
		if err := al.AddSequence(tip.Name, c.Seqs[i], ""); err != nil {
			return fmt.Errorf("harness: %v", err)
		}
		seqOf[tip] = c.Seqs[i]
		if strings.ContainsAny(c.Seqs[i], "RYSWKMBDHVN") {
			unamb = false
		}
	}
	oracles := make([]ref.Pars, L)
	for j := 0; j < L; j++ {
		jj := j
		oracles[j] = ref.Sankoff(c.Tree, 5, func(tip *ref.Node) []bool {
			a := make([]bool, 5)
			for _, ch := range []byte(iupac[seqOf[tip][jj]]) {
				a[nucIndex[ch]] = true
			}
			return a
		})
	}
	if c.Reroot >= 0 {
		var inner []*tree.Node
		for _, n := range t.Nodes() {
			if n.Nneigh() >= 2 && n != t.Root() {
				inner = append(inner, n)
			}
		}
		if len(inner) > 0 {
			if err := t.Reroot(inner[c.Reroot%len(inner)]); err != nil {
				return fmt.Errorf("Reroot failed: %v", err)
			}
		}
	}
	ctx := func() string {
		return fmt.Sprintf("\n tree %s\n seqs %v algo %s random %v rerooted %v", ref.Write(c.Tree), c.Seqs, c.Algo, c.Random, c.Reroot >= 0)
	}
	t.ClearComments()
	nodes := t.Nodes()
	rand.Seed(c.Seed)
	steps, err := asr.ParsimonyAsr(t, al, algos[c.Algo], c.Random)
	if err != nil {
		return fmt.Errorf("ParsimonyAsr failed: %v%s", err, ctx())
	}
	if len(steps) < L {
		return fmt.Errorf("%d step counts for %d sites%s", len(steps), L, ctx())
	}
	for j := 0; j < L; j++ {
		if steps[j] != oracles[j].Min {
			return fmt.Errorf("site %d: reported %d steps, the minimum is %d%s", j, steps[j], oracles[j].Min, ctx())
		}
	}
	asrSets := map[*ref.Node][]string{}
	for _, n := range nodes {
		m := nm[n]
		if len(n.Comments()) != 1 {
			return fmt.Errorf("node carries %d annotations, expected one%s", len(n.Comments()), ctx())
		}
		sites, err := parseAncestral(n.Comments()[0])
		if err != nil || len(sites) != L {
			return fmt.Errorf("annotation %q does not hold %d sites (%v)%s", n.Comments()[0], L, err, ctx())
		}
		asrSets[m] = sites
		for j, s := range sites {
			s = sortStr(s)
			if m.IsTip() {
				// an unambiguous tip keeps its state; a tip with an ambiguity code ("any of these
				// states") may be narrowed by ACCTRAN/DELTRAN but never leaves its set
				want := sortStr(iupac[seqOf[m][j]])
				if len(want) == 1 && s != want {
					return fmt.Errorf("tip %q site %d annotated {%s}, its given state is {%s}%s", m.Name, j, s, want, ctx())
				}
				for _, ch := range []byte(s) {
					if !strings.ContainsRune(want, rune(ch)) || s == "" {
						return fmt.Errorf("tip %q site %d annotated {%s}, outside its given states {%s}%s", m.Name, j, s, want, ctx())
					}
				}
				if c.Algo == "downpass" && !c.Random && s != want {
					return fmt.Errorf("tip %q site %d: down-pass changed the tip's state set {%s} to {%s}%s", m.Name, j, want, s, ctx())
				}
				continue
			}
			opt := ""
			for k, b := range oracles[j].Opt[m] {
				if b {
					opt += string(nucStates[k])
				}
			}
			opt = sortStr(opt)
			for _, ch := range []byte(s) {
				if !strings.ContainsRune(opt, rune(ch)) {
					return fmt.Errorf("site %d, clade %v: reported state %c occurs in no most-parsimonious reconstruction (optimal {%s})%s", j, m.Tips(), ch, opt, ctx())
				}
			}
			if c.Algo == "downpass" && !c.Random && s != opt {
				return fmt.Errorf("site %d, clade %v: down-pass reports {%s}, optimal set is {%s}%s", j, m.Tips(), s, opt, ctx())
			}
			if c.Random && len(s) != 1 {
				return fmt.Errorf("site %d: random resolution left %d states%s", j, len(s), ctx())
			}
		}
	}
	// site-by-site agreement with single-character reconstruction (unambiguous alignments)
	if unamb && !c.Random {
		for j := 0; j < L; j++ {
			t2, err := gt.FromModel(c.Tree)
			if err != nil {
				return err
			}
			nm2, err := nodeMap(t2, c.Tree)
			if err != nil {
				return err
			}
			if c.Reroot >= 0 {
				var inner []*tree.Node
				for _, n := range t2.Nodes() {
					if n.Nneigh() >= 2 && n != t2.Root() {
						inner = append(inner, n)
					}
				}
				if len(inner) > 0 {
					t2.Reroot(inner[c.Reroot%len(inner)])
				}
			}
			ts := map[string]string{}
			for _, tip := range tips {
				ts[tip.Name] = seqOf[tip][j : j+1]
			}
			_, st, err := acr.ParsimonyAcr(t2, ts, algos[c.Algo], false)
			if err != nil {
				return fmt.Errorf("ParsimonyAcr on column %d failed: %v%s", j, err, ctx())
			}
			if st != steps[j] {
				return fmt.Errorf("site %d: sequence reconstruction counts %d steps, character reconstruction %d%s", j, steps[j], st, ctx())
			}
			for _, n := range t2.Nodes() {
				m := nm2[n]
				a := sortStr(strings.ReplaceAll(n.Comments()[0], "|", ""))
				if b := sortStr(asrSets[m][j]); a != b {
					return fmt.Errorf("site %d, clade %v: character reconstruction gives {%s}, sequence reconstruction {%s}%s", j, m.Tips(), a, b, ctx())
				}
			}
		}
	}
	return nil
}

// asrManyChildren: nodes with 255, 256, 257 and 300 children of which exactly 256 carry the same
// state (per-node counters that are not machine words wrap there), for the three algorithms.
func asrManyChildren() []AsrCase {
	var l []AsrCase
	k := 0
	for _, shape := range []string{"star", "wide"} {
		for _, n := range []int{257, 258, 300, 262} {
			for _, algo := range []string{"downpass", "deltran", "acctran"} {
				if k++; k%h.NShards() != h.Shard() {
					continue
				}
				m := big.Model(shape, n)
				var seqs []string
				for i := range m.Tips() {
					// site 0: 256 tips A, the others C; site 1: 255 tips G, the others T; site 2: all A but one
					s := []byte("CTA")
					if i < 256 {
						s[0] = 'A'
					}
					if i < 255 {
						s[1] = 'G'
					}
					if i == 3 {
						s[2] = 'G'
					}
					seqs = append(seqs, string(s))
				}
				l = append(l, AsrCase{Tree: m, Seqs: seqs, Algo: algo, Reroot: -1})
			}
		}
	}
	return l
}

func TestC12Asr(t *testing.T) {
	h.Run(t, h.Spec[AsrCase]{
		Property: "C12", Name: "asr", Quick: 6000, Thorough: 300000,
		Rule: "trees (3..10 tips, 5% up to 30/100; plus constructed stars and wide nodes with 257-300 children, 256 of them carrying the same state) x nucleotide alignments of 1..12 (thorough: ..30) sites over ACGT-, half of the cases with IUPAC ambiguity codes at tips x 3 algorithms x random resolution x re-rooting; oracle = Sankoff DP per site with tip state sets: per-site steps == minimum, tips keep their state sets, reported inner states within the optimal set, down-pass == optimal set; for unambiguous alignments every column must equal ParsimonyAcr on that column (steps and state sets); non-trivial = some site needs >= 2 steps and the tree has a polytomy or the alignment an ambiguity code",
		Gen: genAsr, Check: checkAsr, Anchors: asrManyChildren(),
		Classify: func(c AsrCase) (bool, []string) {
			l := []string{"algo:" + c.Algo}
			amb := false
			for _, s := range c.Seqs {
				if strings.ContainsAny(s, "RYSWKMBDHVN") {
					amb = true
				}
			}
			if amb {
				l = append(l, "ambiguity-code-at-tip")
			} else {
				l = append(l, "unambiguous(site-by-site vs acr)")
			}
			poly := c.Tree.MaxDegree() > 3
			if poly {
				l = append(l, "polytomy")
			}
			// a site with two states each present at >= 2 tips needs >= 1 step; cheap proxy for M>=2: >= 3 distinct columns states
			hard := false
			for j := 0; j < len(c.Seqs[0]); j++ {
				seen := map[byte]int{}
				for _, s := range c.Seqs {
					seen[s[j]]++
				}
				if len(seen) >= 3 {
					hard = true
				}
			}
			return hard && (poly || amb), l
		},
	})
}
