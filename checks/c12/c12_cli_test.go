package c12

import (
	"fmt"
	"math/rand"
	"strconv"
	"strings"
	"testing"

	"pgregory.net/rapid"

	"github.com/evolbioinfo/goalign/align"
	"github.com/evolbioinfo/gotree/acr"
	"github.com/evolbioinfo/gotree/asr"

	"verif/internal/cli"
	"verif/internal/gt"
	"verif/internal/h"
	"verif/internal/ref"
)

// Command level: `gotree acr` and `gotree asr` print the tree and step counts the library calls
// (judged by the other checks of this package) give on the same input.

type CliCase struct {
	Acr *AcrCase `json:"acr,omitempty"`
	Asr *AsrCase `json:"asr,omitempty"`
}

func checkCli(c CliCase) error {
	if c.Acr != nil {
		a := c.Acr
		var st strings.Builder
		tipState := map[string]string{}
		for i, tip := range a.Tree.TipNodes() {
			tipState[tip.Name] = a.Names[a.States[i]]
			st.WriteString(tip.Name + "\t" + a.Names[a.States[i]] + "\n")
		}
		args := []string{"acr", "--states", "states.txt", "--algo", a.Algo, "--seed", strconv.FormatInt(a.Seed, 10)}
		if a.Random {
			args = append(args, "--random-resolve")
		}
		return cli.Differential(args, ref.Write(a.Tree)+"\n", map[string]string{"states.txt": st.String()}, func() (string, error) {
			t, err := gt.FromModel(a.Tree)
			if err != nil {
				return "", err
			}
			rand.Seed(a.Seed)
			_, steps, err := acr.ParsimonyAcr(t, tipState, algos[a.Algo], a.Random)
			if err != nil {
				return "", err
			}
			return t.Newick() + "\n" + fmt.Sprintf("steps %d\n", steps), nil
		})
	}
	a := c.Asr
	var fa strings.Builder
	al := align.NewAlign(align.NUCLEOTIDS)
	for i, tip := range a.Tree.TipNodes() {
		fa.WriteString(">" + tip.Name + "\n" + a.Seqs[i] + "\n")
		if err := al.AddSequence(tip.Name, a.Seqs[i], ""); err != nil {
			return err
		}
	}
	args := []string{"asr", "-a", "align.fa", "--algo", a.Algo, "--seed", strconv.FormatInt(a.Seed, 10)}
	if a.Random {
		args = append(args, "--random-resolve")
	}
	return cli.Differential(args, ref.Write(a.Tree)+"\n", map[string]string{"align.fa": fa.String()}, func() (string, error) {
		t, err := gt.FromModel(a.Tree)
		if err != nil {
			return "", err
		}
		rand.Seed(a.Seed)
		steps, err := asr.ParsimonyAsr(t, al, algos[a.Algo], a.Random)
		if err != nil {
			return "", err
		}
		s := "steps"
		for _, x := range steps {
			s += " " + strconv.Itoa(x)
		}
		return s + "\n" + t.Newick() + "\n", nil
	})
}

func TestC12Cli(t *testing.T) {
	h.Run(t, h.Spec[CliCase]{
		Property: "C12", Name: "cli", Quick: 1600, Thorough: 32000,
		Rule: "`gotree acr --states f --algo a [--random-resolve] --seed s` and `gotree asr -a align.fa --algo a ...` on the generated trees, tip states and alignments of the library checks (state names without tab, comma or blank; no re-rooting): annotated tree and step counts must be byte-identical to what the library calls give; non-trivial = >= 5 tips",
		Gen: func(t *rapid.T, thorough bool) CliCase {
			if rapid.Bool().Draw(t, "acr") {
				a := genAcr(t, false)
				a.Reroot = -1
				a.Tree.Walk(func(x, p *ref.Node) { x.Com, x.BCom = nil, nil }) // the command reads lines: no comment with a line break
				// the states file is tab/comma separated, one line per tip
				for i, n := range a.Names {
					a.Names[i] = strings.NewReplacer(" ", "_", ",", "_", "\t", "_", ";", "_").Replace(n)
				}
				return CliCase{Acr: &a}
			}
			a := genAsr(t, false)
			a.Reroot = -1
			return CliCase{Asr: &a}
		},
		Check: checkCli,
		Classify: func(c CliCase) (bool, []string) {
			if c.Acr != nil {
				return len(c.Acr.Tree.Tips()) >= 5, []string{"acr", "algo:" + c.Acr.Algo}
			}
			return len(c.Asr.Tree.Tips()) >= 5, []string{"asr", "algo:" + c.Asr.Algo}
		},
	})
}
