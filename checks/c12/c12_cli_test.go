package c12

import (
	"fmt"
	"math/rand"
	"strconv"
	"strings"
	"testing"

	"pgregory.net/rapid"

	"github.com/evolbioinfo/goalign/align"
	"github.com/evolbioinfo/gotree/acr"
	"github.com/evolbioinfo/gotree/asr"

	"verif/internal/cli"
	"verif/internal/gt"
	"verif/internal/h"
	"verif/internal/ref"
)

// Command level: `gotree acr` and `gotree asr` print the tree and step counts the library calls
// (judged by the other checks of this package) give on the same input.

type CliCase struct {
	Acr    *AcrCase `json:"acr,omitempty"`
	Asr    *AsrCase `json:"asr,omitempty"`
	Copies int      `json:"copies,omitempty"` // the input stream holds the tree this many times (0 = once): every tree gets its own result
	InMode string   `json:"in_mode,omitempty"`
}

func (c CliCase) copies() int {
	if c.Copies < 1 {
		return 1
	}
	return c.Copies
}

func checkCli(c CliCase) error {
	if c.Acr != nil {
		a := c.Acr
		var st strings.Builder
		tipState := map[string]string{}
		for i, tip := range a.Tree.TipNodes() {
			tipState[tip.Name] = a.Names[a.States[i]]
			st.WriteString(tip.Name + "\t" + a.Names[a.States[i]] + "\n")
		}
		args := []string{"acr", "--states", "states.txt", "--algo", a.Algo, "--seed", strconv.FormatInt(a.Seed, 10)}
		if a.Random {
			args = append(args, "--random-resolve")
		}
		if c.copies() >= 2 && len(a.Names)%2 == 0 && !a.Random {
			// the steps go to a file of their own (--out-steps): one line per tree of the input
			dir := cli.Scratch()
			cli.WriteIn(dir, "states.txt", st.String())
			cli.WriteIn(dir, "in.nw", strings.Repeat(ref.Write(a.Tree)+"\n", c.copies()))
			r := cli.Run(dir, "", append(append([]string{}, args...), "-i", "in.nw", "--out-steps", "steps.txt", "-o", "acr.nw")...)
			if r.Code != 0 || r.TimedOut {
				return fmt.Errorf("gotree acr --out-steps failed: status %d, %s", r.Code, r.Stderr)
			}
			lines := strings.Split(strings.TrimSuffix(cli.Read(dir, "steps.txt"), "\n"), "\n")
			trees := strings.Split(strings.TrimSuffix(cli.Read(dir, "acr.nw"), "\n"), "\n")
			if len(lines) != c.copies() || len(trees) != c.copies() {
				return fmt.Errorf("gotree acr -i in.nw --out-steps steps.txt -o acr.nw on %d trees: %d lines of steps %q, %d trees written", c.copies(), len(lines), lines, len(trees))
			}
			for _, l := range lines[1:] {
				if l != lines[0] || !strings.HasPrefix(l, "steps ") {
					return fmt.Errorf("gotree acr --out-steps on %d copies of one tree: steps file holds %q", c.copies(), lines)
				}
			}
		}
		return cli.DifferentialIn(args, strings.Repeat(ref.Write(a.Tree)+"\n", c.copies()), map[string]string{"states.txt": st.String()}, "", c.InMode, func() (string, error) {
			rand.Seed(a.Seed)
			out := ""
			for k := 0; k < c.copies(); k++ {
				t, err := gt.FromModel(a.Tree)
				if err != nil {
					return "", err
				}
				_, steps, err := acr.ParsimonyAcr(t, tipState, algos[a.Algo], a.Random)
				if err != nil {
					return "", err
				}
				out += t.Newick() + "\n" + fmt.Sprintf("steps %d\n", steps)
			}
			return out, nil
		})
	}
	a := c.Asr
	var fa strings.Builder
	al := align.NewAlign(align.NUCLEOTIDS)
	for i, tip := range a.Tree.TipNodes() {
		fa.WriteString(">" + tip.Name + "\n" + a.Seqs[i] + "\n")
		if err := al.AddSequence(tip.Name, a.Seqs[i], ""); err != nil {
			return err
		}
	}
	args := []string{"asr", "-a", "align.fa", "--algo", a.Algo, "--seed", strconv.FormatInt(a.Seed, 10)}
	if a.Random {
		args = append(args, "--random-resolve")
	}
	return cli.DifferentialIn(args, strings.Repeat(ref.Write(a.Tree)+"\n", c.copies()), map[string]string{"align.fa": fa.String()}, "", c.InMode, func() (string, error) {
		rand.Seed(a.Seed)
		out := ""
		for k := 0; k < c.copies(); k++ {
			t, err := gt.FromModel(a.Tree)
			if err != nil {
				return "", err
			}
			steps, err := asr.ParsimonyAsr(t, al, algos[a.Algo], a.Random)
			if err != nil {
				return "", err
			}
			s := "steps"
			for _, x := range steps {
				s += " " + strconv.Itoa(x)
			}
			out += s + "\n" + t.Newick() + "\n"
		}
		return out, nil
	})
}

func TestC12Cli(t *testing.T) {
	h.Run(t, h.Spec[CliCase]{
		Property: "C12", Name: "cli", Quick: 1600, Thorough: 32000,
		Rule: "`gotree acr --states f --algo a [--random-resolve] --seed s` and `gotree asr -a align.fa --algo a ...` on the generated trees, tip states and alignments of the library checks (state names without tab, comma or blank; no re-rooting): the input stream holds the tree 1-3 times (stdin, file, gzip file or Nexus document); annotated trees and step counts, tree by tree, must be byte-identical to what the library calls give; non-trivial = >= 5 tips",
		Gen: func(t *rapid.T, thorough bool) CliCase {
			if rapid.Bool().Draw(t, "acr") {
				a := genAcr(t, false)
				a.Reroot = -1
				a.Tree.Walk(func(x, p *ref.Node) { x.Com, x.BCom = nil, nil }) // the command reads lines: no comment with a line break
				// the states file is tab/comma separated, one line per tip
				for i, n := range a.Names {
					a.Names[i] = strings.NewReplacer(" ", "_", ",", "_", "\t", "_", ";", "_").Replace(n)
				}
				return CliCase{Acr: &a, Copies: rapid.IntRange(1, 3).Draw(t, "copies"), InMode: rapid.SampledFrom(cli.InModes).Draw(t, "inmode")}
			}
			a := genAsr(t, false)
			a.Reroot = -1
			return CliCase{Asr: &a, Copies: rapid.IntRange(1, 3).Draw(t, "copies"), InMode: rapid.SampledFrom(cli.InModes).Draw(t, "inmode")}
		},
		Check: checkCli,
		Classify: func(c CliCase) (bool, []string) {
			if c.Acr != nil {
				return len(c.Acr.Tree.Tips()) >= 5, []string{"acr", "algo:" + c.Acr.Algo}
			}
			return len(c.Asr.Tree.Tips()) >= 5, []string{"asr", "algo:" + c.Asr.Algo}
		},
	})
}
