package c06

import (
	"fmt"
	"sort"
	"strconv"
	"strings"
	"testing"

	"pgregory.net/rapid"

	"github.com/evolbioinfo/gotree/tree"

	"verif/internal/cli"
	"verif/internal/gen"
	"verif/internal/gt"
	"verif/internal/h"
	"verif/internal/ops"
	"verif/internal/ref"
)

func TestMain(m *testing.M) { h.Main(m) }

type Case struct {
	Tree    *ref.Node `json:"tree"`
	Indexed bool      `json:"indexed"`
	Revert  bool      `json:"revert"`
	Names   []string  `json:"names"`
	Class   string    `json:"class"`
	Reroot  int       `json:"reroot,omitempty"`  // > 0: the tree is first re-rooted in memory at an inner node
	History []ops.Op  `json:"history,omitempty"` // edits applied in memory before the operation (the model is read back afterwards)
	PreUse  int       `json:"pre_use,omitempty"` // > 0: the list of names was used before on the tree without every second listed tip
}

func treeOpts(t *rapid.T, thorough bool) gen.Opts {
	o := gen.Opts{MinTips: 3, MaxTips: 12, BigTips: 40, Rooted: -1, MaxDeg: 6, Lens: gen.AnyPresence, LenVals: gen.AnyValue}
	if thorough {
		o.BigTips = 300
	}
	o.Comments, o.OneLine = rapid.IntRange(0, 2).Draw(t, "comments") == 0, true // annotations of other programs: not compared, must not disturb
	if rapid.Bool().Draw(t, "names-not-supports") {
		o.InnerNames = gen.AnyPresence
	} else {
		o.Sups = gen.AnyPresence
	}
	return o
}

func genCase(t *rapid.T, thorough bool) Case {
	m := gen.Tree(t, treeOpts(t, thorough))
	c := Case{Tree: m, Indexed: rapid.Bool().Draw(t, "indexed")}
	tips := m.Tips()
	n := len(tips)
	c.Class = rapid.SampledFrom([]string{"random", "clade", "rootchild", "cherry", "allbut3", "none"}).Draw(t, "class")
	var remove []string
	par := m.Parents()
	switch c.Class {
	case "random":
		remove = gen.Subset(t, tips, 0, n-3, "rm")
	case "clade":
		var cand []*ref.Node
		for _, x := range m.Inner() {
			if par[x] != nil && n-len(x.Tips()) >= 3 {
				cand = append(cand, x)
			}
		}
		if len(cand) > 0 {
			remove = cand[rapid.IntRange(0, len(cand)-1).Draw(t, "clade")].Tips()
		}
	case "rootchild":
		var cand []*ref.Node
		for _, x := range m.Ch {
			if n-len(x.Tips()) >= 3 {
				cand = append(cand, x)
			}
		}
		if len(cand) > 0 {
			remove = cand[rapid.IntRange(0, len(cand)-1).Draw(t, "rc")].Tips()
		}
	case "cherry":
		var cand []*ref.Node
		for _, x := range m.Inner() {
			if len(x.Ch) == 2 && x.Ch[0].IsTip() && x.Ch[1].IsTip() && n-2 >= 3 {
				cand = append(cand, x)
			}
		}
		if len(cand) > 0 {
			remove = cand[rapid.IntRange(0, len(cand)-1).Draw(t, "cherry")].Tips()
		}
	case "allbut3":
		remove = gen.Subset(t, tips, n-3, n-3, "rm")
	}
	c.Revert = rapid.Bool().Draw(t, "revert")
	rm := map[string]bool{}
	for _, x := range remove {
		rm[x] = true
	}
	if c.Revert {
		for _, x := range tips {
			if !rm[x] {
				c.Names = append(c.Names, x)
			}
		}
	} else {
		c.Names = remove
	}
	if rapid.Bool().Draw(t, "absent") {
		c.Names = append(c.Names, "zz_absent")
	}
	if len(c.Names) > 1 {
		c.Names = rapid.Permutation(c.Names).Draw(t, "order")
	}
	if rapid.IntRange(0, 2).Draw(t, "rerootfirst") == 0 {
		c.Reroot = 1 + rapid.IntRange(0, 1000).Draw(t, "rerootat")
	}
	if rapid.IntRange(0, 4).Draw(t, "hashistory") == 2 {
		c.History = ops.GenHistoryOf(t, ops.WithTipEdits, 4)
		for _, op := range c.History {
			// a tip renamed by the history ("sn1x" is the first fresh name) may be in the list
			if op.Kind == "setname_fresh" && rapid.Bool().Draw(t, "freshinlist") {
				c.Names = append(c.Names, "sn1x")
				break
			}
		}
	}
	if rapid.IntRange(0, 3).Draw(t, "preuse") == 1 {
		c.PreUse = rapid.IntRange(1, 2).Draw(t, "preusesel")
	}
	return c
}

func check(c Case) error {
	t, err := gt.FromModel(c.Tree)
	if err != nil {
		return fmt.Errorf("parser rejects the start tree: %v", err)
	}
	stale := false
	if len(c.History) > 0 {
		// 1-4 edits of the tree object in memory; the oracle works on the model read back. An indexed
		// tree is indexed before the edits; after an even number of edits it is not indexed again,
		// so that the indexes are what the edits left (names exchanged or a tip grafted without a refresh
		// of the tip index: the tips to remove are those of the tree, not those of a stale index)
		if c.Indexed {
			if err := t.ReinitIndexes(); err != nil {
				return err
			}
			stale = len(c.History)%2 == 0
		}
		if t2, m2, ok, herr := ops.Replay(t, c.History); herr != nil {
			return herr
		} else if ok {
			t, c.Tree = t2, m2
			c.Reroot = 0 // the history re-roots by itself (RerootBoth needs a freshly parsed tree)
		} else if t, err = gt.FromModel(c.Tree); err != nil {
			return err
		}
	}
	if c.Reroot > 0 {
		rm, _, err := gt.RerootBoth(t, c.Tree, c.Reroot-1)
		if err != nil {
			return err
		}
		c.Tree = rm
	}
	if c.Indexed && !stale {
		if err := t.ReinitIndexes(); err != nil {
			return err
		}
	}
	if stale {
		// the indexes are in whatever state the edits left them (a copy has none): the result is
		// judged like that of a tree that was not indexed
		c.Indexed = false
	}
	given := map[string]bool{}
	for _, n := range c.Names {
		given[n] = true
	}
	if given["sn1x"] && !c.Revert {
		// the tip renamed by the history was added to a list drawn so that three tips remain: drop it
		// again if fewer would remain with it
		left := 0
		for _, n := range c.Tree.Tips() {
			if !given[n] {
				left++
			}
		}
		if left < 3 {
			delete(given, "sn1x")
			var l []string
			for _, n := range c.Names {
				if n != "sn1x" {
					l = append(l, n)
				}
			}
			c.Names = l
		}
	}
	keep := func(n string) bool { return given[n] == c.Revert }
	if len(c.History) > 0 {
		// a history that renamed a listed tip can leave fewer than three tips to keep: outside the
		// property's quantifier ("subsets ... that leave >= 3 tips")
		left := 0
		for _, n := range c.Tree.Tips() {
			if keep(n) {
				left++
			}
		}
		if left < 3 {
			return nil
		}
	}
	arg := append([]string(nil), c.Names...)
	if c.PreUse > 0 && len(arg) > 0 {
		// the same list was first used on another tree of a stream: this tree without some of the
		// listed tips, or with further tips (whatever that call did, this one must not notice)
		drop := map[string]bool{}
		for i, n := range c.Names {
			if (i+c.PreUse)%2 == 0 {
				drop[n] = true
			}
		}
		if small := ref.Restrict(c.Tree, func(n string) bool { return !drop[n] }); small != nil && len(small.Tips()) >= 4 && len(small.Ch) >= 2 {
			if st, perr := gt.FromModel(small); perr == nil {
				st.RemoveTips(false, arg...)
			}
		}
	}
	if err := t.RemoveTips(c.Revert, arg...); err != nil {
		return fmt.Errorf("RemoveTips failed: %v", err)
	}
	if err := gt.Structural(t); err != nil {
		return fmt.Errorf("result malformed: %v", err)
	}
	after, err := gt.Read(t)
	if err != nil {
		return err
	}
	if err := compareInduced(c, keep, after); err != nil {
		return err
	}
	wt := ref.Restrict(c.Tree, keep).Tips()
	sort.Strings(wt)
	return lookups(c, t, keep, wt)
}

// compareInduced: the pruned tree (reference reading of its text) is the subtree induced on the kept tips.
func compareInduced(c Case, keep func(string) bool, after *ref.Node) error {
	want := ref.Restrict(c.Tree, keep)
	wt := want.Tips()
	at := after.Tips()
	sort.Strings(wt)
	sort.Strings(at)
	if fmt.Sprint(wt) != fmt.Sprint(at) {
		return fmt.Errorf("tip set %v, expected %v", at, wt)
	}
	if after.HasSingleChildInner() || len(after.Ch) < 2 {
		return fmt.Errorf("single-child node left behind: %s", ref.Write(after))
	}
	uw, err := ref.Unrooted(want)
	if err != nil {
		return err
	}
	ua, err := ref.Unrooted(after)
	if err != nil {
		return err
	}
	exact := gen.IsDyadicExact(c.Tree)
	if err := ref.CompareU(uw, ua, exact, true); err != nil {
		return fmt.Errorf("%v\n before %s\n names %v revert=%v\n after  %s", err, ref.Write(c.Tree), c.Names, c.Revert, ref.Write(after))
	}
	nw, dw, _ := ref.DistMatrix(want, ref.MetricLen)
	na, da, _ := ref.DistMatrix(after, ref.MetricLen)
	if err := ref.CompareDist(nw, dw, na, da, exact); err != nil {
		return fmt.Errorf("%v\n before %s\n after  %s", err, ref.Write(c.Tree), ref.Write(after))
	}
	return nil
}

func lookups(c Case, t *tree.Tree, keep func(string) bool, wt []string) error {
	if c.Indexed {
		// look-ups by name reflect the new tip set
		reach := map[string]bool{}
		for _, n := range t.Tips() {
			reach[n.Name()] = true
		}
		for _, n := range append(c.Tree.Tips(), "zz_absent") {
			ok, err := t.ExistsTip(n)
			if err != nil {
				return fmt.Errorf("ExistsTip(%q) after pruning an indexed tree: %v", n, err)
			}
			if ok != (keep(n) && n != "zz_absent") {
				return fmt.Errorf("ExistsTip(%q) = %v after pruning (kept: %v)", n, ok, keep(n) && n != "zz_absent")
			}
			node, err := t.TipNode(n)
			if ok {
				if err != nil || node == nil || node.Name() != n || !reach[n] {
					return fmt.Errorf("TipNode(%q) does not return the tip of the pruned tree", n)
				}
				found := false
				for _, x := range t.Tips() {
					if x == node {
						found = true
					}
				}
				if !found {
					return fmt.Errorf("TipNode(%q) returns a node that is not in the tree", n)
				}
			} else if err == nil {
				return fmt.Errorf("TipNode(%q) finds a removed tip", n)
			}
		}
		if len(t.Tips()) != len(wt) {
			return fmt.Errorf("%d tips, expected %d", len(t.Tips()), len(wt))
		}
		// RemoveTips refreshes the indexes of an indexed tree itself: tip ranks, bitsets, tip
		// counts and depths must describe the pruned tree without a further ReinitIndexes
		if err := gt.IndexesExact(t); err != nil {
			return fmt.Errorf("indexes right after pruning an indexed tree: %v", err)
		}
		if err := t.ReinitIndexes(); err != nil {
			return fmt.Errorf("ReinitIndexes after pruning: %v", err)
		}
		for _, e := range t.Edges() {
			if e.Bitset() == nil || int(e.Bitset().Len()) != len(wt) {
				return fmt.Errorf("bitset width %v after pruning to %d tips", e.Bitset(), len(wt))
			}
		}
	}
	return nil
}

func TestC06Prune(t *testing.T) {
	h.Run(t, h.Spec[Case]{
		Property: "C06", Name: "prune", Quick: 24000, Thorough: 1600000,
		Rule:  "trees (4..12 tips, 5% up to 40/300; rooted or not, multifurcating, lengths none/all/mixed, supports or inner names) x removal sets {random, whole clade, root child, cherry, all but three, none} x revert x absent name mixed in x indexed or not; oracle = Restrict of the reference model (tips, splits, lengths, distances, supports, no single-child node) + name look-ups vs kept set; non-trivial = a suppression is forced or the root is touched",
		Gen:   genCase,
		Check: check,
		Classify: func(c Case) (bool, []string) {
			given := map[string]bool{}
			for _, n := range c.Names {
				given[n] = true
			}
			keep := func(n string) bool { return given[n] == c.Revert }
			l := []string{"class:" + c.Class, fmt.Sprintf("revert=%v", c.Revert), fmt.Sprintf("indexed=%v", c.Indexed)}
			if c.Reroot > 0 && len(c.Tree.Ch) >= 3 && !c.Tree.HasSingleChildInner() {
				l = append(l, "rerooted-in-memory-first")
			}
			if len(c.Tree.Ch) == 2 {
				l = append(l, "rooted")
			}
			if c.Tree.MaxDegree() > 3 {
				l = append(l, "multifurcating")
			}
			// suppression forced: some inner node keeps exactly one child with kept tips
			forced, rootTouched := false, false
			c.Tree.Walk(func(x, p *ref.Node) {
				if x.IsTip() {
					return
				}
				live := 0
				for _, ch := range x.Ch {
					for _, n := range ch.Tips() {
						if keep(n) {
							live++
							break
						}
					}
				}
				if live == 1 || (p == nil && live == 2 && len(x.Ch) > 2) {
					forced = true
				}
				if p == nil && live < len(x.Ch) {
					rootTouched = true
				}
			})
			if forced {
				l = append(l, "suppression")
			}
			if rootTouched {
				l = append(l, "root-touched")
			}
			return forced || rootTouched, l
		},
	})
}

// ---------------------------------------------------------------------------------------
// command level: gotree prune with tips as arguments, -f tip file (one name per line, comma-separated on one line, one long line in which a drawn name straddles byte 4096 / 8192 / 65536, or one line of exactly 4096 / 8192 / 65536 bytes without end of line), -c compared tree, -r

type CliCase struct {
	Case
	Mode  string      `json:"mode"`           // args | file | comp
	More  []*ref.Node `json:"more,omitempty"` // further trees of the input stream: the first tree plus extra tips
	First bool        `json:"more_first,omitempty"`
	// tip file layout (mode "file"): "lines" = one name per line; "commas" = all names on one
	// line; "long" = one line in which absent names push the name Names[Straddle%len] across
	// the byte offset Boundary (a multiple of bufio's 4096-byte buffer)
	Layout   string `json:"layout,omitempty"`
	Boundary int    `json:"boundary,omitempty"`
	Straddle int    `json:"straddle,omitempty"`
}

// tipFile lays the names out as the case asks.
func (c CliCase) tipFile() string { return cli.TipFile(c.Names, c.Layout, c.Boundary, c.Straddle) }

// randomK: the number of tips `--random` samples, such that at least 3 tips remain in every tree
// of the stream (which all have at least as many tips as the first one).
func (c CliCase) randomK() int {
	n := len(c.Tree.Tips())
	k := 1 + len(c.Names)%(n-3)
	if c.Revert {
		k = 3 + len(c.Names)%(n-3)
	}
	return k
}

func (c CliCase) stream() []*ref.Node {
	if c.First {
		return append(append([]*ref.Node{}, c.More...), c.Tree)
	}
	return append([]*ref.Node{c.Tree}, c.More...)
}

// withExtraTips returns a copy of m with k new tips (names zx1, zx2, ...) hung on drawn branches.
func withExtraTips(t *rapid.T, m *ref.Node, k int) *ref.Node {
	c := m.Clone()
	for j := 1; j <= k; j++ {
		all := c.All()
		x := all[rapid.IntRange(1, len(all)-1).Draw(t, "xat")]
		p := c.Parents()[x]
		nn := &ref.Node{Ch: []*ref.Node{x, {Name: fmt.Sprintf("zx%d", j), Len: ref.F(0.5)}}}
		nn.Len, nn.Sup = x.Len, nil
		for i, ch := range p.Ch {
			if ch == x {
				p.Ch[i] = nn
			}
		}
	}
	return c
}

func checkCli(c CliCase) error {
	compText := ""
	if !cli.Available() {
		return fmt.Errorf("harness: gotree binary not built")
	}
	dir := cli.Scratch()
	given := map[string]bool{}
	for _, n := range c.Names {
		given[n] = true
	}
	args := []string{"prune"}
	for _, n := range c.Names {
		if c.Mode == "args" && strings.HasPrefix(n, "-") {
			c.Mode = "file" // a name like "-0" cannot be typed as a bare argument
		}
	}
	switch c.Mode {
	case "args":
		args = append(args, c.Names...)
	case "file":
		tf := c.tipFile()
		if c.Layout != "exact" {
			tf = cli.AuxLayout("tips.txt", tf)
		}
		args = append(args, "-f", cli.Write(dir, "tips.txt", tf))
	case "comp":
		// the compared tree holds the tips that are NOT named (plus a foreign one): the command
		// removes the tips of the input tree that are absent from the compared tree
		var other []string
		for _, n := range c.Tree.Tips() {
			if !given[n] {
				other = append(other, n)
			}
		}
		other = append(other, "zz_foreign")
		comp := "("
		for i, n := range other {
			if i > 0 {
				comp += ","
			}
			comp += n
		}
		comp += ");\n"
		if len(other) >= 4 && len(c.Names)%2 == 1 {
			// a compared tree with labelled inner nodes, as a taxonomy has: the labels are names of
			// tips of the input tree that the compared tree does NOT have as tips
			var lab []string
			for _, n := range c.Names {
				if n != "zz_absent" && !strings.HasPrefix(n, "zx") {
					lab = append(lab, n)
				}
			}
			comp = "((" + other[0] + "," + other[1] + ")"
			if len(lab) > 0 {
				comp += lab[0]
			}
			comp += ",(" + strings.Join(other[2:], ",") + ")"
			if len(lab) > 1 {
				comp += lab[1]
			}
			comp += ");\n"
		}
		if len(comp)%2 == 0 {
			// the compared-tree file holds a second tree, on other tips: the command works with the first
			// tree of the file
			comp += "(zz_far1,zz_far2,(zz_far3,zz_far4));\n"
		}
		compText = comp
		args = append(args, "-c", cli.WriteIn(dir, "comp.nw", comp))
	}
	if c.Mode == "random" {
		args = append(args, "--random", strconv.Itoa(c.randomK()), "--seed", strconv.Itoa(100+len(c.Names)))
	}
	if c.Revert {
		args = append(args, "-r")
	}
	inComp := func(n string) bool { return !given[n] && n != "zz_absent" && !strings.HasPrefix(n, "zx") }
	input := ""
	for _, m := range c.stream() {
		input += ref.Write(m) + "\n"
	}
	toFile := len(c.Names)%3 == 0 // a third of the cases: result written with -o file
	if toFile {
		args = append(args, "-o", "pruned.nw")
	}
	// the input stream on stdin, in a file, in a gzip file or as a Nexus document
	extra, stdin, infiles, used := cli.Present(cli.InModes[(len(c.Names)+len(input))%len(cli.InModes)], input, "-i")
	for n, content := range infiles {
		cli.WriteIn(dir, n, content)
	}
	if cli.IsNexus(used) && c.Mode == "comp" {
		// --format applies to the compared tree as well
		d, _ := cli.ToNexus(compText, false)
		cli.WriteIn(dir, "comp.nw", d)
	}
	args = append(args, extra...)
	r := cli.Run(dir, stdin, args...)
	ctx := fmt.Sprintf(" (gotree %v on\n%s)", args, input)
	if r.Code != 0 || r.TimedOut {
		return fmt.Errorf("command failed with status %d: %s%s", r.Code, r.Stderr, ctx)
	}
	if toFile {
		r.Stdout = cli.Read(dir, "pruned.nw")
	}
	lines := strings.Split(trim(r.Stdout), "\n")
	if len(lines) != len(c.stream()) {
		return fmt.Errorf("%d trees printed for %d input trees%s", len(lines), len(c.stream()), ctx)
	}
	for i, m := range c.stream() {
		after, err := ref.Parse(lines[i])
		if err != nil {
			return fmt.Errorf("output not readable: %v%s", err, ctx)
		}
		// every tree of the stream is pruned on its own
		keep := func(n string) bool { return given[n] == c.Revert }
		if c.Mode == "random" {
			// which tips go is the command's draw; how many, and what the rest looks like, is not
			left := map[string]bool{}
			for _, n := range after.Tips() {
				left[n] = true
			}
			nt, k := len(m.Tips()), c.randomK()
			if k > nt {
				k = nt
			}
			want := nt - k
			if c.Revert {
				want = k
			}
			if len(left) != want {
				return fmt.Errorf("tree %d of the stream: %d of %d tips remain after --random %d (revert=%v), expected %d%s", i, len(left), nt, c.randomK(), c.Revert, want, ctx)
			}
			keep = func(n string) bool { return left[n] }
		}
		if c.Mode == "comp" {
			keep = func(n string) bool { return !inComp(n) == c.Revert }
		}
		cc := c.Case
		cc.Tree = m
		if err := compareInduced(cc, keep, after); err != nil {
			return fmt.Errorf("tree %d of the stream: %v%s", i, err, ctx)
		}
	}
	return nil
}

func trim(s string) string {
	for len(s) > 0 && (s[len(s)-1] == '\n' || s[len(s)-1] == '\r') {
		s = s[:len(s)-1]
	}
	return s
}

func TestC06Cli(t *testing.T) {
	h.Run(t, h.Spec[CliCase]{
		Property: "C06", Name: "cli", Quick: 2400, Thorough: 48000,
		Rule: "the same trees and removal sets through `gotree prune`: tips as arguments, -f tip file (one name per line, comma-separated on one line, one long line in which a drawn name straddles byte 4096 / 8192 / 65536, or one line of exactly 4096 / 8192 / 65536 bytes without end of line), -c compared tree (tips absent from it are removed), --random k --seed s (the number of tips removed / kept and the induced subtree on whatever remains), each with and without -r, the input stream on stdin, in a file, in a gzip file or as a Nexus document (--format nexus, the compared tree too); half of the inputs are streams of 2-3 trees with different tip sets, each of which must be pruned on its own; every printed tree is compared with the induced subtree of the reference model; non-trivial = >= 1 tip removed and >= 1 multifurcation or rooted tree",
		Gen: func(t *rapid.T, thorough bool) CliCase {
			c := CliCase{Case: genCase(t, false), Mode: rapid.SampledFrom([]string{"args", "file", "comp", "random"}).Draw(t, "mode")}
			if c.Mode == "random" && len(c.Tree.Tips()) < 4 {
				c.Mode = "args" // nothing can be drawn from three tips if three must remain
			}
			if c.Mode == "args" && len(c.Names) == 0 {
				c.Mode = "file"
			}
			c.Reroot = 0
			if c.Mode == "file" {
				c.Layout = rapid.SampledFrom([]string{"lines", "blank", "commas", "long", "exact"}).Draw(t, "layout")
				if c.Layout == "long" || c.Layout == "exact" {
					c.Boundary = rapid.SampledFrom([]int{4096, 4096, 8192, 65536}).Draw(t, "boundary")
					c.Straddle = rapid.IntRange(0, 1000).Draw(t, "straddle")
				}
			}
			for i, n := 0, rapid.SampledFrom([]int{0, 0, 1, 2}).Draw(t, "nmore"); i < n; i++ {
				c.More = append(c.More, withExtraTips(t, c.Tree, rapid.IntRange(1, 3).Draw(t, "nextra")))
			}
			c.First = rapid.Bool().Draw(t, "morefirst")
			if len(c.More) > 0 && c.Mode != "random" && rapid.Bool().Draw(t, "listextra") {
				// the list also names tips that only some trees of the stream have
				c.Names = append(c.Names, "zx1")
				if rapid.Bool().Draw(t, "listextra2") {
					c.Names = append([]string{"zx2"}, c.Names...)
				}
			}
			return c
		},
		Check: checkCli,
		Classify: func(c CliCase) (bool, []string) {
			given := map[string]bool{}
			for _, n := range c.Names {
				given[n] = true
			}
			removed := 0
			for _, n := range c.Tree.Tips() {
				if given[n] != c.Revert {
					removed++
				}
			}
			return removed >= 1 && (c.Tree.MaxDegree() > 3 || len(c.Tree.Ch) == 2), []string{"mode:" + c.Mode, fmt.Sprintf("revert=%v", c.Revert), "layout:" + c.Layout}
		},
	})
}
