package c06

import (
	"fmt"
	"testing"

	"pgregory.net/rapid"

	"verif/internal/big"
	"verif/internal/h"
	"verif/internal/ops"
)

// huge: constructed trees of 2001-2500 tips (internal/big: star, a node with more than 2000 children,
// caterpillar, bushy, binary) - at and above the 2000-element capacities the tree code preallocates
// for its lists of branches, nodes and tips - judged by the same oracles as the drawn cases.

type HugeCase struct {
	Shape string `json:"shape"`
	N     int    `json:"n"`
	What  string `json:"what"`
	K     int    `json:"k"`
}

func hugeCases() []HugeCase {
	var l []HugeCase
	for i, s := range []struct {
		shape string
		n     int
	}{{"star", 2001}, {"wide", 2005}, {"caterpillar", 2100}, {"bushy", 2500}, {"binary", 2100}} {
		for j, w := range []string{"few", "half", "most", "keep-few"} {
			if (i+j)%2 == 0 {
				l = append(l, HugeCase{Shape: s.shape, N: s.n, What: w, K: j})
			}
		}
	}
	return l
}

func checkHuge(c HugeCase) error {
	m := big.Model(c.Shape, c.N)
	var names []string
	for i := 0; i < c.N; i++ {
		switch c.What {
		case "few", "keep-few":
			if i%97 == c.K%97 || i == 1 {
				names = append(names, fmt.Sprintf("t%d", i))
			}
		case "half":
			if (i/3+c.K)%2 == 0 {
				names = append(names, fmt.Sprintf("t%d", i))
			}
		default:
			if i%53 != 5 {
				names = append(names, fmt.Sprintf("t%d", i))
			}
		}
	}
	names = append(names, "zz_absent")
	return check(Case{Tree: m, Indexed: c.K%2 == 0, Revert: c.What == "keep-few", Names: names, Class: "huge"})
}

func TestC06Huge(t *testing.T) {
	r := h.NewRecorder(t, "C06", "huge", "constructed trees (star 2001, a 2001-child node in a small tree, caterpillar 2100, bushy 2500, binary 2100 tips): removal of a few scattered tips, of every other run of three tips, of all but one tip in 53, and keeping a few tips only (plus an absent name); same oracle as the drawn cases (induced subtree of the reference model, look-ups by name); every case is non-trivial")
	var rc HugeCase
	if replaying, mine := r.ReplayCase(&rc); replaying {
		if mine {
			r.Replayed(checkHuge(rc))
		}
		return
	}
	k := 0
	for _, c := range hugeCases() {
		k++
		if k%h.NShards() != h.Shard() {
			continue
		}
		c.K = int(h.Seed())*10 + c.K
		c := c
		var err error
		if gerr := r.Guard(c, 300e9, func() error { err = checkHuge(c); return nil }); gerr != nil {
			err = gerr
		}
		r.Eval(c, true, "what:"+c.What, fmt.Sprintf("shape:%s", c.Shape))
		if err != nil {
			msg := err.Error()
			if len(msg) > 900 {
				msg = msg[:900] + "..."
			}
			r.Fail(c, "%s", msg)
		}
	}
}

var _ = rapid.Bool
var _ = ops.Kinds
