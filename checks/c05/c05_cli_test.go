package c05

import (
	"fmt"
	"math/rand"
	"strings"
	"testing"

	"pgregory.net/rapid"

	"verif/internal/cli"
	"verif/internal/gen"
	"verif/internal/gt"
	"verif/internal/h"
	"verif/internal/ref"
)

// Command level: `gotree reroot outgroup|midpoint`, `unroot`, `rotate sort` print what the library
// calls (judged by the other checks of this package) give on the same input.

type CliCase struct {
	Tree   *ref.Node   `json:"tree"`
	More   []*ref.Node `json:"more,omitempty"` // further trees of the input stream (other sizes, other tip sets)
	First  bool        `json:"more_first,omitempty"`
	ToFile bool        `json:"to_file,omitempty"` // result written with -o file instead of stdout
	InMode string      `json:"in_mode,omitempty"` // how the input stream is handed over (cli.InModes)
	Cmd    string      `json:"cmd"`               // outgroup-args | outgroup-file | midpoint | unroot | sort
	Names  []string    `json:"names,omitempty"`
	Remove bool        `json:"remove,omitempty"`
	Strict bool        `json:"strict,omitempty"`
}

func (c CliCase) stream() []*ref.Node {
	if c.First {
		return append(append([]*ref.Node{}, c.More...), c.Tree)
	}
	return append([]*ref.Node{c.Tree}, c.More...)
}

func checkCli(c CliCase) error {
	text := ""
	for _, m := range c.stream() {
		text += ref.Write(m) + "\n"
	}
	var args []string
	files := map[string]string{}
	ogNames := c.Names // the names the command is given (the tip file may hold further, absent, names)
	for _, n := range c.Names {
		if c.Cmd == "outgroup-args" && strings.HasPrefix(n, "-") {
			c.Cmd = "outgroup-file" // a name like "-0" cannot be typed as a bare argument
		}
	}
	switch c.Cmd {
	case "outgroup-args", "outgroup-file":
		args = []string{"reroot", "outgroup"}
		if c.Remove {
			args = append(args, "-r")
		}
		if c.Strict {
			args = append(args, "--strict")
		}
		if c.Cmd == "outgroup-file" {
			// the tip file one name per line, comma-separated on one line, as one long line in which
			// names that are in no tree push a drawn name across byte 4096 / 8192 of the file, or as one
			// line of exactly that length without end of line (chosen from the names: replays identically)
			hsh := 0
			for _, n := range c.Names {
				hsh = hsh*31 + len(n) + int(n[len(n)-1])
			}
			layout := []string{"lines", "blank", "commas", "long", "exact", "long"}[hsh%6]
			og := cli.TipFile(c.Names, layout, 4096*(1+hsh/6%2), hsh/12)
			files["og.txt"] = og
			ogNames = nil
			for _, n := range strings.FieldsFunc(og, func(r rune) bool { return r == ',' || r == '\n' }) {
				ogNames = append(ogNames, n)
			}
			args = append(args, "-l", "og.txt")
		} else {
			args = append(args, c.Names...)
		}
	case "midpoint":
		args = []string{"reroot", "midpoint"}
	case "unroot":
		args = []string{"unroot"}
	case "sort":
		args = []string{"rotate", "sort"}
	case "rotate-rand":
		args = []string{"rotate", "rand", "--seed", "4711"}
	}
	return cli.DifferentialIn(args, text, files, outFlag(c.ToFile), c.InMode, func() (string, error) {
		out := ""
		first := true
		for _, m := range c.stream() {
			t, err := gt.FromModel(m)
			if err != nil {
				return "", err
			}
			switch c.Cmd {
			case "outgroup-args", "outgroup-file":
				// a fresh list per tree: the oracle must not inherit what an earlier call did to its arguments
				err = t.RerootOutGroup(c.Remove, c.Strict, append([]string(nil), ogNames...)...)
			case "midpoint":
				err = t.RerootMidPoint()
			case "unroot":
				t.UnRoot()
			case "sort":
				t.SortNeighborsByTips()
			case "rotate-rand":
				if first {
					rand.Seed(4711) // the command seeds the generator once, before the first tree
					first = false
				}
				t.RotateInternalNodes()
			}
			if err != nil {
				// the command stops at the first tree it cannot handle and reports the error
				return "", err
			}
			out += t.Newick() + "\n"
		}
		return out, nil
	})
}

func TestC05Cli(t *testing.T) {
	h.Run(t, h.Spec[CliCase]{
		Property: "C05", Name: "cli", Quick: 1600, Thorough: 32000,
		Rule: "`gotree reroot outgroup` (tips as arguments or -l file (one name per line, comma-separated, one long line in which a name straddles byte 4096 / 8192, one line of exactly that length without end of line), -r, --strict; clade, non-clade and absent names), `reroot midpoint`, `unroot`, `rotate sort`, `rotate rand --seed` on generated trees: the printed tree must be byte-identical to what the library call gives (or both report an error); the library calls themselves are judged by the other checks of C05; the input comes on stdin, as a file, as a gzip file or as a Nexus document (--format nexus, with or without translate table); half of the inputs are streams of 2-3 trees of different sizes and tip sets (every tree must be treated like a single one); non-trivial = multifurcating or rooted input",
		Gen: func(t *rapid.T, thorough bool) CliCase {
			o := gen.Opts{MinTips: 3, MaxTips: 12, Rooted: -1, MaxDeg: 5, Lens: gen.All, LenVals: gen.DyadicZ, Sups: gen.AnyPresence}
			m := gen.Tree(t, o)
			c := CliCase{Tree: m, Cmd: rapid.SampledFrom([]string{"outgroup-args", "outgroup-file", "outgroup-file", "midpoint", "unroot", "sort", "rotate-rand"}).Draw(t, "cmd")}
			if strings.HasPrefix(c.Cmd, "outgroup") {
				tips := m.Tips()
				if rapid.Bool().Draw(t, "clade") {
					in := m.Inner()
					c.Names = in[rapid.IntRange(0, len(in)-1).Draw(t, "cl")].Tips()
					if len(c.Names) == len(tips) {
						c.Names = c.Names[:1]
					}
				} else {
					c.Names = gen.Subset(t, tips, 1, len(tips)-1, "og")
				}
				if rapid.IntRange(0, 4).Draw(t, "absent") == 0 {
					c.Names = append(c.Names, "zz_absent")
				}
				c.Remove = rapid.Bool().Draw(t, "remove")
				c.Strict = rapid.Bool().Draw(t, "strict")
			}
			for i, n := 0, rapid.SampledFrom([]int{0, 0, 1, 2}).Draw(t, "nmore"); i < n; i++ {
				c.More = append(c.More, gen.Tree(t, o))
			}
			c.First = rapid.Bool().Draw(t, "morefirst")
			c.ToFile = rapid.IntRange(0, 2).Draw(t, "tofile") == 0
			c.InMode = rapid.SampledFrom(cli.InModes).Draw(t, "inmode")
			return c
		},
		Check: checkCli,
		Classify: func(c CliCase) (bool, []string) {
			return c.Tree.MaxDegree() > 3 || len(c.Tree.Ch) == 2, []string{"cmd:" + c.Cmd, fmt.Sprintf("remove=%v strict=%v", c.Remove, c.Strict)}
		},
	})
}

func outFlag(toFile bool) string {
	if toFile {
		return "-o"
	}
	return ""
}
