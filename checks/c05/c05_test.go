package c05

import (
	"fmt"
	"math/rand"
	"sort"
	"strconv"
	"strings"
	"testing"

	"pgregory.net/rapid"

	"github.com/evolbioinfo/gotree/tree"

	"verif/internal/gen"
	"verif/internal/gt"
	"verif/internal/h"
	"verif/internal/ops"
	"verif/internal/ref"
)

func TestMain(m *testing.M) { h.Main(m) }

func treeOpts(t *rapid.T, thorough bool) gen.Opts {
	o := gen.Opts{MinTips: 3, MaxTips: 12, BigTips: 40, Rooted: -1, MaxDeg: 6, Lens: gen.All, LenVals: gen.AnyValue}
	if thorough {
		o.BigTips = 300
	}
	// a third of the trees carry node, root and branch comments (annotations of other programs): they
	// are not part of what is compared, the operations must work around them
	o.Comments, o.OneLine = rapid.IntRange(0, 2).Draw(t, "comments") == 0, true
	if rapid.Bool().Draw(t, "names-not-supports") {
		o.InnerNames = gen.AnyPresence
	} else {
		o.Sups = gen.AnyPresence
	}
	return o
}

func sizeLabel(n int) string {
	switch {
	case n <= 5:
		return "tips3-5"
	case n <= 12:
		return "tips6-12"
	case n <= 40:
		return "tips13-40"
	}
	return "tips>40"
}

func baseLabels(m *ref.Node) []string {
	l := []string{sizeLabel(len(m.Tips()))}
	if len(m.Ch) == 2 {
		l = append(l, "rooted")
	} else {
		l = append(l, "unrooted")
	}
	if m.MaxDegree() > 3 {
		l = append(l, "multifurcating")
	}
	zero := false
	m.Walk(func(x, p *ref.Node) {
		if p != nil && x.Len != nil && *x.Len == 0 {
			zero = true
		}
	})
	if zero {
		l = append(l, "zero-length")
	}
	if gen.IsDyadicExact(m) {
		l = append(l, "dyadic-exact")
	}
	return l
}

func has(l []string, s string) bool {
	for _, x := range l {
		if x == s {
			return true
		}
	}
	return false
}

func prepare(m *ref.Node, indexed bool) (*tree.Tree, *ref.UView, error) {
	t, err := gt.FromModel(m)
	if err != nil {
		return nil, nil, fmt.Errorf("parser rejects the start tree: %v", err)
	}
	if indexed {
		if err := t.ReinitIndexes(); err != nil {
			return nil, nil, err
		}
	}
	u, err := ref.Unrooted(m)
	lastTree, lastIndexed = t, indexed
	return t, u, err
}

// prepareHist is prepare after an edit history (name-preserving operations of internal/ops): the
// operation under test then works on a tree object that was re-rooted, rearranged, collapsed,
// resolved, copied ... in memory, and the oracle on the model read back from that object. *m is
// replaced by this model. A history that leaves no usable tree is dropped.
func prepareHist(m **ref.Node, indexed bool, hist []ops.Op) (*tree.Tree, *ref.UView, error) {
	if len(hist) > 0 {
		t0, err := gt.FromModel(*m)
		if err != nil {
			return nil, nil, fmt.Errorf("parser rejects the start tree: %v", err)
		}
		if indexed {
			if err := t0.ReinitIndexes(); err != nil {
				return nil, nil, err
			}
		}
		t, model, ok, err := ops.Replay(t0, hist)
		if err != nil {
			return nil, nil, err
		}
		lens := true
		if ok {
			model.Walk(func(x, p *ref.Node) {
				if p != nil && x.Len == nil {
					lens = false
				}
			})
		}
		if ok && lens {
			*m = model
			// after an even number of edits the indexes stay as the edits left them (names exchanged or a
			// tip grafted without a refresh of the tip index): the operations find tips in the tree
			if indexed && len(hist)%2 == 1 {
				if err := t.ReinitIndexes(); err != nil {
					return nil, nil, err
				}
			}
			u, err := ref.Unrooted(model)
			lastTree, lastIndexed = t, indexed && len(hist)%2 == 1
			return t, u, err
		}
	}
	return prepare(*m, indexed)
}

// drawHistory: one case in five is preceded by 1-4 edits in memory.
func drawHistory(t *rapid.T) []ops.Op {
	if rapid.IntRange(0, 4).Draw(t, "hashistory") != 2 {
		return nil
	}
	return ops.GenHistoryOf(t, ops.WithTipEdits, 4)
}

// lastTree is the tree of the case being checked (cases are evaluated one at a time).
var (
	lastTree    *tree.Tree
	lastIndexed bool
)

// indexesAfter wraps a check: when the tree was indexed before the operation, the operations of
// this property (which end by recomputing the branch indexes, or do not touch the splits) must
// leave the tip index and every recorded split describing the resulting tree.
func indexesAfter[C any](check func(C) error) func(C) error {
	return func(c C) error {
		lastTree = nil
		if err := check(c); err != nil {
			return err
		}
		if lastTree != nil && lastIndexed && len(lastTree.Tips()) >= 3 && lastTree.Root().Nneigh() >= 2 {
			if err := gt.IndexesExact(lastTree); err != nil {
				return fmt.Errorf("the tree was indexed before the operation; after it the indexes do not describe the tree any more: %v (%s)", err, lastTree.Newick())
			}
		}
		return nil
	}
}

func sameTree(before *ref.Node, ub *ref.UView, t *tree.Tree, supports bool) (*ref.Node, error) {
	if err := gt.Structural(t); err != nil {
		return nil, fmt.Errorf("result malformed: %v", err)
	}
	after, err := gt.Read(t)
	if err != nil {
		return nil, err
	}
	ua, err := ref.Unrooted(after)
	if err != nil {
		return nil, fmt.Errorf("result: %v", err)
	}
	exact := gen.IsDyadicExact(before)
	if err := ref.CompareU(ub, ua, exact, supports); err != nil {
		return after, fmt.Errorf("%v\n before %s\n after  %s", err, ref.Write(before), ref.Write(after))
	}
	na, da, _ := ref.DistMatrix(before, ref.MetricLen)
	nb, db, _ := ref.DistMatrix(after, ref.MetricLen)
	if err := ref.CompareDist(na, da, nb, db, exact); err != nil {
		return after, fmt.Errorf("%v\n before %s\n after  %s", err, ref.Write(before), ref.Write(after))
	}
	return after, nil
}

// ---------------------------------------------------------------------------------------
// reroot / unroot / rotate / sort

type ReCase struct {
	History []ops.Op  `json:"history,omitempty"` // edits applied in memory before the operation (the model is read back afterwards)
	Tree    *ref.Node `json:"tree"`
	Indexed bool      `json:"indexed"`
	Op      string    `json:"op"`
	Sel     int       `json:"sel"`
	Seed    int64     `json:"seed"`
}

func checkRe(c ReCase) error {
	t, ub, err := prepareHist(&c.Tree, c.Indexed, c.History)
	if err != nil {
		return err
	}
	switch c.Op {
	case "reroot":
		var inner []*tree.Node
		for _, n := range t.Nodes() {
			if n.Nneigh() >= 2 {
				inner = append(inner, n)
			}
		}
		n := inner[c.Sel%len(inner)]
		if err := t.Reroot(n); err != nil {
			return fmt.Errorf("Reroot on an inner node failed: %v", err)
		}
		if t.Root() != n {
			return fmt.Errorf("Reroot: the root is not the requested node")
		}
		_, err := sameTree(c.Tree, ub, t, true)
		return err
	case "reroot_tip":
		tips := t.Tips()
		if err := t.Reroot(tips[c.Sel%len(tips)]); err == nil {
			return fmt.Errorf("Reroot on a tip did not fail")
		}
		_, err := sameTree(c.Tree, ub, t, true)
		return err
	case "unroot":
		wasRooted := len(c.Tree.Ch) == 2
		t.UnRoot()
		if t.Rooted() {
			return fmt.Errorf("tree still rooted after UnRoot")
		}
		after, err := sameTree(c.Tree, ub, t, true)
		if err != nil {
			return err
		}
		if !wasRooted {
			if d := ref.Diff(c.Tree, after); d != "" {
				return fmt.Errorf("UnRoot changed an unrooted tree: %s", d)
			}
		} else if after.HasSingleChildInner() {
			return fmt.Errorf("UnRoot left a single-child node: %s", ref.Write(after))
		}
		return nil
	case "rotate", "sort":
		if c.Op == "rotate" {
			rand.Seed(c.Seed)
			t.RotateInternalNodes()
		} else {
			t.SortNeighborsByTips()
		}
		after, err := sameTree(c.Tree, ub, t, true)
		if err != nil {
			return err
		}
		if err := ref.CompareRooted(c.Tree, after, true); err != nil {
			return fmt.Errorf("%s changed the rooted tree: %v\n before %s\n after  %s", c.Op, err, ref.Write(c.Tree), ref.Write(after))
		}
		if c.Op == "sort" {
			var bad error
			after.Walk(func(x, p *ref.Node) {
				prev := 0
				for _, ch := range x.Ch {
					k := len(ch.Tips())
					if k < prev {
						bad = fmt.Errorf("children not sorted by number of tips: %s", ref.Write(after))
					}
					prev = k
				}
			})
			return bad
		}
		return nil
	}
	return fmt.Errorf("unknown op")
}

func TestC05Reroot(t *testing.T) {
	h.Run(t, h.Spec[ReCase]{
		Property: "C05", Name: "reroot", Quick: 16000, Thorough: 800000,
		Rule: "trees with all lengths present (3..12 tips, 5% up to 40/300; zero lengths and ties frequent; supports on unnamed inner nodes or inner names) x {Reroot(every inner node by selector), Reroot(tip) must fail, UnRoot, RotateInternalNodes(seed), SortNeighborsByTips} x indexed or not; one case in five first applies 1-4 name-preserving edits (re-root, NNI, collapse, resolve, rotate, copy ...) to the tree object in memory, the oracle then works on the model read back from it; oracle = unrooted view equality (tips, split->length, distances, supports); non-trivial = multifurcating or rooted input or zero-length branch",
		Gen: func(t *rapid.T, thorough bool) ReCase {
			c := ReCase{Tree: gen.Tree(t, treeOpts(t, thorough)), Indexed: rapid.Bool().Draw(t, "indexed"),
				Op:  rapid.SampledFrom([]string{"reroot", "reroot", "reroot", "unroot", "rotate", "sort", "reroot_tip"}).Draw(t, "op"),
				Sel: rapid.IntRange(0, 1000).Draw(t, "sel"), Seed: rapid.Int64Range(0, 1<<40).Draw(t, "seed")}
			c.History = drawHistory(t)
			return c
		},
		Check: indexesAfter(checkRe),
		Classify: func(c ReCase) (bool, []string) {
			l := append(baseLabels(c.Tree), "op:"+c.Op)
			return has(l, "multifurcating") || has(l, "rooted") || has(l, "zero-length"), l
		},
	})
}

// ---------------------------------------------------------------------------------------
// outgroup

type OutCase struct {
	History []ops.Op  `json:"history,omitempty"`
	Tree    *ref.Node `json:"tree"`
	Indexed bool      `json:"indexed"`
	Out     []string  `json:"out"`
	Remove  bool      `json:"remove"`
	Strict  bool      `json:"strict"`
	Class   string    `json:"class"`
	// PreDrop: the same outgroup list is first used on the tree without these tips (as the
	// command does for every tree of a stream); the call under test then re-uses the list.
	PreDrop []string `json:"pre_drop,omitempty"`
}

func checkOut(c OutCase) error {
	arg := append([]string(nil), c.Out...)
	if len(c.PreDrop) > 0 {
		drop := map[string]bool{}
		for _, n := range c.PreDrop {
			drop[n] = true
		}
		small := ref.Restrict(c.Tree, func(n string) bool { return !drop[n] })
		if small != nil && len(small.Tips()) >= 3 && len(small.Ch) >= 2 {
			if st, _, perr := prepare(small, c.Indexed); perr == nil {
				st.RerootOutGroup(false, c.Strict, arg...) // its own result is judged in other cases
			}
		}
	}
	t, ub, err := prepareHist(&c.Tree, c.Indexed, c.History)
	if err != nil {
		return err
	}
	tx := ub.Taxa
	var present []string
	seen := map[string]bool{}
	for _, n := range c.Out {
		if _, ok := tx.Idx[n]; ok && !seen[n] {
			seen[n] = true
			present = append(present, n)
		}
	}
	err = t.RerootOutGroup(c.Remove, c.Strict, arg...)
	if len(present) == 0 {
		if err == nil {
			return fmt.Errorf("outgroup with no name present in the tree was accepted")
		}
		return nil
	}
	if len(present) == tx.N() {
		return nil // every tip in the outgroup: undocumented, only "returns" is required
	}
	ob, _ := tx.FromNames(present)
	key := tx.Canon(ob)
	split, isSide := ub.Splits[key]
	if !isSide {
		if c.Strict {
			if err == nil {
				return fmt.Errorf("strict mode accepted the non-monophyletic outgroup %v", present)
			}
			return nil
		}
		if err != nil {
			return nil // e.g. several possible branches at a polytomy
		}
		if c.Remove {
			// the clade of the common ancestor is removed: structure only
			if t.Root().Nneigh() >= 2 && len(t.Tips()) >= 3 {
				return gt.Structural(t)
			}
			return nil
		}
		after, serr := sameTree(c.Tree, ub, t, true)
		if serr != nil {
			return serr
		}
		if len(after.Ch) != 2 {
			return fmt.Errorf("root has %d children after outgroup rooting", len(after.Ch))
		}
		for _, ch := range after.Ch {
			below := map[string]bool{}
			for _, n := range ch.Tips() {
				below[n] = true
			}
			all := true
			for _, n := range present {
				if !below[n] {
					all = false
				}
			}
			if all {
				return nil
			}
		}
		return fmt.Errorf("non-monophyletic outgroup %v is spread over both root clades: %s", present, ref.Write(after))
	}
	// the outgroup is one side of a split
	if err != nil {
		if shadowed(c.Tree) {
			return nil // an inner node carries the name of a tip: refusing such a tree is an answer
		}
		return fmt.Errorf("rooting on %v, one side of a split, failed: %v", present, err)
	}
	if c.Remove {
		if err := gt.Structural(t); err != nil {
			return fmt.Errorf("result malformed: %v", err)
		}
		after, rerr := gt.Read(t)
		if rerr != nil {
			return rerr
		}
		want := ref.Restrict(c.Tree, func(n string) bool { return !seen[n] })
		uw, err := ref.Unrooted(want)
		if err != nil {
			return err
		}
		ua, err := ref.Unrooted(after)
		if err != nil {
			return err
		}
		if err := ref.CompareU(uw, ua, gen.IsDyadicExact(c.Tree), false); err != nil {
			return fmt.Errorf("outgroup removal: %v\n before %s\n after  %s", err, ref.Write(c.Tree), ref.Write(after))
		}
		if c.Indexed {
			for _, n := range present {
				if ok, _ := t.ExistsTip(n); ok {
					return fmt.Errorf("removed outgroup tip %q still found by ExistsTip", n)
				}
			}
		}
		return nil
	}
	after, serr := sameTree(c.Tree, ub, t, true)
	if serr != nil {
		return serr
	}
	if len(after.Ch) != 2 {
		return fmt.Errorf("root has %d children after outgroup rooting: %s", len(after.Ch), ref.Write(after))
	}
	okSide := false
	for _, ch := range after.Ch {
		got := ch.Tips()
		sort.Strings(got)
		want := append([]string(nil), present...)
		sort.Strings(want)
		if fmt.Sprint(got) == fmt.Sprint(want) {
			okSide = true
		}
	}
	if !okSide {
		return fmt.Errorf("outgroup %v is not exactly one of the two root clades: %s", present, ref.Write(after))
	}
	l0, l1 := 0.0, 0.0
	if after.Ch[0].Len != nil {
		l0 = *after.Ch[0].Len
	}
	if after.Ch[1].Len != nil {
		l1 = *after.Ch[1].Len
	}
	if l0 != l1 {
		return fmt.Errorf("root branches are not equal halves: %v and %v (%s)", l0, l1, ref.Write(after))
	}
	if !ref.Close(l0+l1, split.Len, gen.IsDyadicExact(c.Tree)) {
		return fmt.Errorf("root branches %v+%v do not sum to the length %v of the cut branch", l0, l1, split.Len)
	}
	return nil
}

func firstOr(l []string, d string) string {
	if len(l) == 0 {
		return d
	}
	return l[0]
}

// shadowed tells whether some inner node carries the name of a tip.
func shadowed(m *ref.Node) bool {
	tips := map[string]bool{}
	for _, n := range m.Tips() {
		tips[n] = true
	}
	found := false
	m.Walk(func(x, p *ref.Node) { found = found || (!x.IsTip() && x.Name != "" && tips[x.Name]) })
	return found
}

func genOut(t *rapid.T, thorough bool) OutCase {
	m := gen.Tree(t, treeOpts(t, thorough))
	c := OutCase{Tree: m, Indexed: rapid.Bool().Draw(t, "indexed"), Remove: rapid.Bool().Draw(t, "remove"), Strict: rapid.Bool().Draw(t, "strict")}
	c.History = drawHistory(t)
	tips := m.Tips()
	c.Class = rapid.SampledFrom([]string{"clade", "complement", "tip", "random", "absent-mixed", "all-absent"}).Draw(t, "class")
	par := m.Parents()
	var inner []*ref.Node
	for _, x := range m.Inner() {
		if par[x] != nil {
			inner = append(inner, x)
		}
	}
	switch c.Class {
	case "clade", "complement":
		if len(inner) == 0 {
			c.Class = "tip"
			c.Out = []string{tips[rapid.IntRange(0, len(tips)-1).Draw(t, "tip")]}
			break
		}
		x := inner[rapid.IntRange(0, len(inner)-1).Draw(t, "clade")]
		in := map[string]bool{}
		for _, n := range x.Tips() {
			in[n] = true
		}
		for _, n := range tips {
			if in[n] == (c.Class == "clade") {
				c.Out = append(c.Out, n)
			}
		}
	case "tip":
		c.Out = []string{tips[rapid.IntRange(0, len(tips)-1).Draw(t, "tip")]}
	case "random":
		c.Out = gen.Subset(t, tips, 1, len(tips)-1, "out")
	case "absent-mixed":
		c.Out = append(gen.Subset(t, tips, 1, len(tips)-1, "out"), "zz_absent")
		c.Out = rapid.Permutation(c.Out).Draw(t, "outperm")
	case "all-absent":
		c.Out = []string{"zz_absent", "zz_absent2"}
	}
	if len(c.Out) >= 2 && len(tips) >= 5 && rapid.IntRange(0, 3).Draw(t, "pre") == 0 {
		var real []string
		for _, n := range c.Out {
			if n != "zz_absent" && n != "zz_absent2" {
				real = append(real, n)
			}
		}
		if len(real) >= 1 && len(tips)-len(real) >= 2 {
			c.PreDrop = gen.Subset(t, real, 1, len(real), "predrop")
			if len(tips)-len(c.PreDrop) < 3 {
				c.PreDrop = c.PreDrop[:len(tips)-3]
			}
		}
	}
	if c.Remove {
		// at least three tips remain
		left := len(tips)
		for _, n := range c.Out {
			if n != "zz_absent" && n != "zz_absent2" {
				left--
			}
		}
		if left < 3 {
			c.Remove = false
		}
	}
	if _, numErr := strconv.ParseFloat(firstOr(c.Out, "1"), 64); numErr != nil && !strings.Contains(firstOr(c.Out, "/"), "/") && len(c.History) == 0 && rapid.IntRange(0, 14).Draw(t, "shadow") == 4 {
		// a named inner node that carries the name of an outgroup tip (clade names that repeat a species
		// name): the rooting may be refused; if it succeeds, the tip - not the inner node - is what was named
		var inner []*ref.Node
		c.Tree.Walk(func(x, p *ref.Node) {
			if p != nil && !x.IsTip() && x.Name != "" {
				inner = append(inner, x)
			}
		})
		if len(inner) > 0 {
			inner[rapid.IntRange(0, len(inner)-1).Draw(t, "shadowat")].Name = c.Out[0]
		}
	}
	for _, op := range c.History {
		// a tip renamed by the history ("sn1x" is the first fresh name) may be part of the outgroup
		if op.Kind == "setname_fresh" && rapid.Bool().Draw(t, "freshinout") {
			c.Out = append(c.Out, "sn1x")
			break
		}
	}
	return c
}

func TestC05Outgroup(t *testing.T) {
	h.Run(t, h.Spec[OutCase]{
		Property: "C05", Name: "outgroup", Quick: 16000, Thorough: 800000,
		Rule:  "same trees x outgroup of classes {clade, complement of a clade, single tip, random subset, subset mixed with absent names, only absent names} x strict x remove (>=3 tips remain) x indexed or not; in a quarter of the cases the same list was first used on the tree pruned of some outgroup tips (stream usage); oracle = split-side predicate from the reference split set, root-clade / equal-halves predicates, Restrict for removal; non-trivial = multifurcating or rooted input, zero-length branch, or complement outgroup",
		Gen:   genOut,
		Check: indexesAfter(checkOut),
		Classify: func(c OutCase) (bool, []string) {
			l := append(baseLabels(c.Tree), "class:"+c.Class, fmt.Sprintf("class:%s/strict=%v/remove=%v", c.Class, c.Strict, c.Remove))
			return has(l, "multifurcating") || has(l, "rooted") || has(l, "zero-length") || c.Class == "complement", l
		},
	})
}

// ---------------------------------------------------------------------------------------
// midpoint

type MidCase struct {
	History []ops.Op  `json:"history,omitempty"`
	Tree    *ref.Node `json:"tree"`
	Indexed bool      `json:"indexed"`
}

func checkMid(c MidCase) error {
	t, ub, err := prepareHist(&c.Tree, c.Indexed, c.History)
	if err != nil {
		return err
	}
	if err := t.RerootMidPoint(); err != nil {
		return fmt.Errorf("midpoint rooting of a tree with all lengths failed: %v", err)
	}
	after, err := sameTree(c.Tree, ub, t, true)
	if err != nil {
		return err
	}
	d, err := ref.Diameter(c.Tree)
	if err != nil {
		return err
	}
	if len(after.Ch) != 2 {
		return fmt.Errorf("root has %d children after midpoint rooting: %s", len(after.Ch), ref.Write(after))
	}
	if d == 0 {
		return nil
	}
	exact := gen.IsDyadicExact(c.Tree)
	for i, ch := range after.Ch {
		depth := ref.MaxDepth(ch)
		if ch.Len != nil {
			depth += *ch.Len
		}
		if !ref.Close(depth, d/2, exact) {
			return fmt.Errorf("root is not halfway along a longest path: deepest tip below root child %d at %v, half diameter %v\n before %s\n after  %s", i, depth, d/2, ref.Write(c.Tree), ref.Write(after))
		}
	}
	return nil
}

func TestC05Midpoint(t *testing.T) {
	h.Run(t, h.Spec[MidCase]{
		Property: "C05", Name: "midpoint", Quick: 8000, Thorough: 400000,
		Rule: "same trees (all lengths present, zeros and ties frequent, all-zero included) x RerootMidPoint; oracle = unrooted view equality and 'deepest tip on both sides of the root at half the reference diameter'; non-trivial = multifurcating or rooted input or zero-length branch",
		Gen: func(t *rapid.T, thorough bool) MidCase {
			return MidCase{Tree: gen.Tree(t, treeOpts(t, thorough)), Indexed: rapid.Bool().Draw(t, "indexed"), History: drawHistory(t)}
		},
		Check: indexesAfter(checkMid),
		Classify: func(c MidCase) (bool, []string) {
			l := baseLabels(c.Tree)
			if d, _ := ref.Diameter(c.Tree); d == 0 {
				l = append(l, "all-zero")
			}
			return has(l, "multifurcating") || has(l, "rooted") || has(l, "zero-length"), l
		},
		Anchors: []MidCase{
			{Tree: &ref.Node{Ch: []*ref.Node{{Name: "a", Len: ref.F(0)}, {Name: "b", Len: ref.F(0)}, {Name: "c", Len: ref.F(0)}}}},
			{Tree: &ref.Node{Ch: []*ref.Node{{Name: "a", Len: ref.F(1)}, {Name: "b", Len: ref.F(1)}, {Len: ref.F(1), Ch: []*ref.Node{{Name: "c", Len: ref.F(1)}, {Name: "d", Len: ref.F(0)}}}}}},
		},
	})
}
