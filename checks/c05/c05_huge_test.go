package c05

import (
	"fmt"
	"testing"

	"pgregory.net/rapid"

	"verif/internal/big"
	"verif/internal/h"
	"verif/internal/ops"
)

// huge: constructed trees of 2001-2500 tips (internal/big: star, a node with more than 2000 children,
// caterpillar, bushy, binary) - at and above the 2000-element capacities the tree code preallocates
// for its lists of branches, nodes and tips - judged by the same oracles as the drawn cases.

type HugeCase struct {
	Shape string `json:"shape"`
	N     int    `json:"n"`
	What  string `json:"what"`
	K     int    `json:"k"`
}

func hugeCases() []HugeCase {
	var l []HugeCase
	for i, s := range []struct {
		shape string
		n     int
	}{{"star", 2001}, {"wide", 2005}, {"caterpillar", 2100}, {"bushy", 2500}, {"binary", 2100}} {
		for j, w := range []string{"reroot", "unroot", "rotate", "sort", "midpoint", "outgroup", "outgroup-remove"} {
			if (i+j)%2 == 0 || s.shape == "binary" && w == "unroot" {
				l = append(l, HugeCase{Shape: s.shape, N: s.n, What: w, K: j})
			}
		}
	}
	return l
}

func checkHuge(c HugeCase) error {
	m := big.Model(c.Shape, c.N)
	switch c.What {
	case "reroot", "unroot", "rotate", "sort":
		return checkRe(ReCase{Tree: m, Indexed: c.K%2 == 0, Op: c.What, Sel: 7 + 131*c.K, Seed: int64(c.K)})
	case "midpoint":
		return checkMid(MidCase{Tree: m, Indexed: c.K%2 == 0})
	}
	// the outgroup: the tips of an inner node with 2..N/2 tips (a clade), or two far-apart tips (not a clade)
	var out []string
	for _, x := range m.Inner()[1:] {
		if n := len(x.Tips()); n >= 2 && n <= c.N/2 {
			out = x.Tips()
			if c.K%3 != 0 {
				break
			}
		}
	}
	class := "clade"
	if out == nil {
		out, class = []string{"t0", fmt.Sprintf("t%d", c.N/2)}, "nonclade"
	}
	return checkOut(OutCase{Tree: m, Indexed: c.K%2 == 0, Out: out, Remove: c.What == "outgroup-remove", Class: class})
}

func TestC05Huge(t *testing.T) {
	r := h.NewRecorder(t, "C05", "huge", "constructed trees (star 2001, a 2001-child node in a small tree, caterpillar 2100, bushy 2500, binary 2100 tips): Reroot at a drawn node, UnRoot, rotate, sort, midpoint rooting, rooting on an outgroup clade with and without removal; same oracles as the drawn cases (tip set, splits with lengths and supports, path lengths on sampled pairs, outgroup position); every case is non-trivial")
	var rc HugeCase
	if replaying, mine := r.ReplayCase(&rc); replaying {
		if mine {
			r.Replayed(checkHuge(rc))
		}
		return
	}
	k := 0
	for _, c := range hugeCases() {
		k++
		if k%h.NShards() != h.Shard() {
			continue
		}
		c.K = int(h.Seed())*10 + c.K
		c := c
		var err error
		if gerr := r.Guard(c, 300e9, func() error { err = checkHuge(c); return nil }); gerr != nil {
			err = gerr
		}
		r.Eval(c, true, "what:"+c.What, fmt.Sprintf("shape:%s", c.Shape))
		if err != nil {
			msg := err.Error()
			if len(msg) > 900 {
				msg = msg[:900] + "..."
			}
			r.Fail(c, "%s", msg)
		}
	}
}

var _ = rapid.Bool
var _ = ops.Kinds
