package c07

import (
	"fmt"
	"math/rand"
	"strconv"
	"testing"

	"pgregory.net/rapid"

	"verif/internal/cli"
	"verif/internal/gen"
	"verif/internal/gt"
	"verif/internal/h"
	"verif/internal/ref"
)

// Command level: `gotree collapse length|support|depth` and `gotree resolve --seed` print what the
// library calls (judged by the other checks of this package) give on the same input.

type CliCase struct {
	Case
	Seed   int64       `json:"seed"`
	More   []*ref.Node `json:"more,omitempty"` // further trees of the input stream
	First  bool        `json:"more_first,omitempty"`
	ToFile bool        `json:"to_file,omitempty"`
	InMode string      `json:"in_mode,omitempty"`
}

func (c CliCase) stream() []*ref.Node {
	if c.First {
		return append(append([]*ref.Node{}, c.More...), c.Tree)
	}
	return append([]*ref.Node{c.Tree}, c.More...)
}

func checkCli(c CliCase) error {
	var args []string
	ff := func(x float64) string { return strconv.FormatFloat(x, 'g', -1, 64) }
	switch c.Kind {
	case "length":
		args = []string{"collapse", "length", "-l", ff(c.Thr)}
		if c.RemoveRoot {
			args = append(args, "--root")
		}
		if c.RemoveTips {
			args = append(args, "--tips")
		}
	case "support":
		args = []string{"collapse", "support", "-s", ff(c.Thr)}
		if c.RemoveRoot {
			args = append(args, "--root")
		}
	case "depth":
		args = []string{"collapse", "depth", "-m", strconv.Itoa(c.Min), "-M", strconv.Itoa(c.Max)}
		if c.RemoveRoot {
			args = append(args, "--root")
		}
		if c.RemoveTips {
			args = append(args, "--tips")
		}
	case "resolve":
		args = []string{"resolve", "--seed", strconv.FormatInt(c.Seed, 10)}
	}
	text := ""
	for _, m := range c.stream() {
		text += ref.Write(m) + "\n"
	}
	of := ""
	if c.ToFile {
		of = "-o"
	}
	return cli.DifferentialIn(args, text, nil, of, c.InMode, func() (string, error) {
		out := ""
		if c.Kind == "resolve" {
			rand.Seed(c.Seed)
		}
		for _, m := range c.stream() {
			t, err := gt.FromModel(m)
			if err != nil {
				return "", err
			}
			switch c.Kind {
			case "length":
				t.CollapseShortBranches(c.Thr, c.RemoveRoot, c.RemoveTips)
			case "support":
				t.CollapseLowSupport(c.Thr, c.RemoveRoot)
			case "depth":
				if err := t.ReinitIndexes(); err != nil {
					return "", err
				}
				if err := t.CollapseTopoDepth(c.Min, c.Max, c.RemoveRoot, c.RemoveTips); err != nil {
					return "", err
				}
			case "resolve":
				t.Resolve()
			}
			out += t.Newick() + "\n"
		}
		return out, nil
	})
}

func TestC07Cli(t *testing.T) {
	h.Run(t, h.Spec[CliCase]{
		Property: "C07", Name: "cli", Quick: 1600, Thorough: 32000,
		Rule: "`gotree collapse length -l / support -s / depth -m -M` with --root and --tips, and `gotree resolve --seed`, on the generated trees and thresholds of the library checks: the printed tree must be byte-identical to what the library call gives; the input comes on stdin, as a file, as a gzip file or as a Nexus document (--format nexus); half of the inputs are streams of 2-3 trees of different sizes; non-trivial = >= 5 tips",
		Gen: func(t *rapid.T, thorough bool) CliCase {
			c := CliCase{Case: genCase(t, false), Seed: rapid.Int64Range(0, 1<<31).Draw(t, "seed")}
			if rapid.IntRange(0, 3).Draw(t, "resolve") == 0 {
				c.Kind = "resolve"
			}
			// negative thresholds would be read as options by the command line
			if c.Thr < 0 {
				c.Thr = 0
			}
			for i, n := 0, rapid.SampledFrom([]int{0, 0, 1, 2}).Draw(t, "nmore"); i < n; i++ {
				o := treeOpts(t, false)
				o.MinTips, o.MaxTips = 3, 14
				c.More = append(c.More, gen.Tree(t, o))
			}
			c.First = rapid.Bool().Draw(t, "morefirst")
			c.ToFile = rapid.IntRange(0, 2).Draw(t, "tofile") == 0
			c.InMode = rapid.SampledFrom(cli.InModes).Draw(t, "inmode")
			return c
		},
		Check: checkCli,
		Classify: func(c CliCase) (bool, []string) {
			return len(c.Tree.Tips()) >= 5, []string{"kind:" + c.Kind, fmt.Sprintf("root=%v tips=%v", c.RemoveRoot, c.RemoveTips)}
		},
	})
}
