package c07

import (
	"fmt"
	"math/rand"
	"sort"
	"testing"

	"pgregory.net/rapid"

	"verif/internal/gen"
	"verif/internal/gt"
	"verif/internal/h"
	"verif/internal/ops"
	"verif/internal/ref"
)

func TestMain(m *testing.M) { h.Main(m) }

type Case struct {
	Reroot     int       `json:"reroot,omitempty"`  // > 0: the tree is first re-rooted in memory at an inner node
	History    []ops.Op  `json:"history,omitempty"` // edits applied in memory before the operation
	Tree       *ref.Node `json:"tree"`
	Kind       string    `json:"kind"` // length | support | depth
	Thr        float64   `json:"thr"`
	Min, Max   int
	RemoveRoot bool `json:"remove_root"`
	RemoveTips bool `json:"remove_tips"`
}

func treeOpts(t *rapid.T, thorough bool) gen.Opts {
	o := gen.Opts{MinTips: 3, MaxTips: 12, BigTips: 40, Rooted: -1, MaxDeg: 6, Lens: gen.AnyPresence, LenVals: gen.AnyValue}
	if thorough {
		o.BigTips = 200
	}
	o.Comments, o.OneLine = rapid.IntRange(0, 2).Draw(t, "comments") == 0, true // annotations of other programs: not compared, must not disturb
	switch rapid.IntRange(0, 2).Draw(t, "deco") {
	case 0:
		o.InnerNames = gen.AnyPresence
	case 1:
		o.Sups = gen.Mixed
	default:
		o.Sups = gen.All
	}
	return o
}

// threshold drawn from {a present value, midpoint of two present values, below min, above max, 0, negative}
func threshold(t *rapid.T, vals []float64) float64 {
	sort.Float64s(vals)
	if len(vals) == 0 {
		return rapid.SampledFrom([]float64{0, 0.5, 1, -0.5}).Draw(t, "thr0")
	}
	switch rapid.IntRange(0, 5).Draw(t, "thrk") {
	case 0, 1:
		return vals[rapid.IntRange(0, len(vals)-1).Draw(t, "thri")]
	case 2:
		i := rapid.IntRange(0, len(vals)-1).Draw(t, "thri")
		j := rapid.IntRange(0, len(vals)-1).Draw(t, "thrj")
		return (vals[i] + vals[j]) / 2
	case 3:
		return vals[0] - 1
	case 4:
		return vals[len(vals)-1] + 1
	}
	return rapid.SampledFrom([]float64{0, -0.5}).Draw(t, "thrc")
}

func genCase(t *rapid.T, thorough bool) Case {
	m := gen.Tree(t, treeOpts(t, thorough))
	if rapid.IntRange(0, 4).Draw(t, "negative") == 2 {
		// slightly negative lengths, as distance methods produce them (never -1, gotree's "no length")
		for _, x := range m.All()[1:] {
			if x.Len != nil && rapid.IntRange(0, 3).Draw(t, "neghere") == 0 {
				x.Len = ref.F(rapid.SampledFrom([]float64{-0.0021, -0.5, -1e-9, -3}).Draw(t, "negval"))
			}
		}
	}
	c := Case{Tree: m, Kind: rapid.SampledFrom([]string{"length", "support", "depth"}).Draw(t, "kind"),
		RemoveRoot: rapid.Bool().Draw(t, "rr"), RemoveTips: rapid.Bool().Draw(t, "rt")}
	if rapid.IntRange(0, 2).Draw(t, "rerootfirst") == 0 {
		c.Reroot = 1 + rapid.IntRange(0, 1000).Draw(t, "rerootat")
	}
	if rapid.IntRange(0, 4).Draw(t, "hashistory") == 2 {
		c.History = ops.GenHistory(t, 4)
	}
	var lens, sups []float64
	m.Walk(func(x, p *ref.Node) {
		if p != nil && x.Len != nil {
			lens = append(lens, *x.Len)
		}
		if x.Sup != nil {
			sups = append(sups, *x.Sup)
		}
	})
	switch c.Kind {
	case "length":
		c.Thr = threshold(t, lens)
	case "support":
		c.Thr = threshold(t, sups)
		c.RemoveTips = false
	case "depth":
		n := len(m.Tips())
		c.Min = rapid.IntRange(0, n/2+1).Draw(t, "dmin")
		c.Max = rapid.IntRange(0, n/2+1).Draw(t, "dmax")
	}
	return c
}

type verdict int

const (
	keep verdict = iota
	must
	may
)

func check(c Case) error {
	histApplied := false
	t, err := gt.FromModel(c.Tree)
	if err != nil {
		return fmt.Errorf("parser rejects the start tree: %v", err)
	}
	if len(c.History) > 0 {
		// 1-4 name-preserving edits of the tree object in memory; the oracle works on the model read back
		if t2, m2, ok, herr := ops.Replay(t, c.History); herr != nil {
			return herr
		} else if ok {
			t, c.Tree = t2, m2
			histApplied = true
			c.Reroot = 0 // the history re-roots by itself (RerootBoth needs a freshly parsed tree)
		} else if t, err = gt.FromModel(c.Tree); err != nil {
			return err
		}
	}
	if c.Reroot > 0 {
		rm, _, err := gt.RerootBoth(t, c.Tree, c.Reroot-1)
		if err != nil {
			return err
		}
		c.Tree = rm
	}
	tx, err := ref.NewTaxa(c.Tree.Tips())
	if err != nil {
		return err
	}
	cl, _ := tx.Clades(c.Tree)
	n := tx.N()
	rooted := len(c.Tree.Ch) == 2
	// documented criterion per branch
	crit := func(x *ref.Node) verdict {
		switch c.Kind {
		case "length":
			if x.Len == nil {
				return may // documentation silent about branches without length
			}
			if *x.Len <= c.Thr {
				return must
			}
		case "support":
			if x.Sup != nil && *x.Sup < c.Thr {
				return must
			}
		case "depth":
			k := cl[x].Count()
			if n-k < k {
				k = n - k
			}
			if k >= c.Min && k <= c.Max {
				return must
			}
		}
		return keep
	}
	switch c.Kind {
	case "length":
		t.CollapseShortBranches(c.Thr, c.RemoveRoot, c.RemoveTips)
	case "support":
		t.CollapseLowSupport(c.Thr, c.RemoveRoot)
	case "depth":
		// collapsing and resolving end by recomputing the subtree sizes of every branch: a depth
		// collapse that follows one of them directly works on those (after an even number of edits the
		// check, unlike the command, does not ask for the indexes once more)
		fresh := len(c.History) > 0 && len(c.History)%2 == 0 && histApplied &&
			(ops.LastApplied == "collapse_len" || ops.LastApplied == "collapse_sup" || ops.LastApplied == "collapse_depth" || ops.LastApplied == "resolve")
		if !fresh {
			if err := t.ReinitIndexes(); err != nil {
				return err
			}
		}
		if err := t.CollapseTopoDepth(c.Min, c.Max, c.RemoveRoot, c.RemoveTips); err != nil {
			return fmt.Errorf("CollapseTopoDepth failed: %v", err)
		}
	}
	if err := gt.Structural(t); err != nil {
		return fmt.Errorf("result malformed: %v", err)
	}
	after, err := gt.Read(t)
	if err != nil {
		return err
	}
	at := after.Tips()
	sort.Strings(at)
	if fmt.Sprint(at) != fmt.Sprint(tx.Names) {
		return fmt.Errorf("tip set changed: %v vs %v", at, tx.Names)
	}
	mb, err := ref.RootedMap(c.Tree, tx)
	if err != nil {
		return err
	}
	ma, err := ref.RootedMap(after, tx)
	if err != nil {
		return fmt.Errorf("result: %v (%s)", err, ref.Write(after))
	}
	par := c.Tree.Parents()
	ctx := func() string {
		return fmt.Sprintf("\n before %s\n %s thr=%v min=%d max=%d root=%v tips=%v\n after  %s", ref.Write(c.Tree), c.Kind, c.Thr, c.Min, c.Max, c.RemoveRoot, c.RemoveTips, ref.Write(after))
	}
	var rerr error
	c.Tree.Walk(func(x, p *ref.Node) {
		if rerr != nil {
			return
		}
		k := cl[x].Key()
		ia, present := ma[k]
		if p == nil {
			if !present {
				rerr = fmt.Errorf("root clade vanished")
			}
			return
		}
		v := crit(x)
		if x.IsTip() {
			if !present {
				rerr = fmt.Errorf("tip %q removed", x.Name)
				return
			}
			wantLen := x.Len
			if c.RemoveTips && v == must {
				wantLen = ref.F(0)
			}
			if c.RemoveTips && v == may {
				return
			}
			if !eq(ia.Len, wantLen) {
				rerr = fmt.Errorf("tip %q: length %s, expected %s", x.Name, pf(ia.Len), pf(wantLen))
			}
			return
		}
		rootAdj := rooted && par[x] == c.Tree
		if rootAdj {
			if !c.RemoveRoot {
				v = keep
			} else if v == must {
				v = may // documented caveat: root branches handled independently
			}
		}
		switch v {
		case must:
			if present {
				rerr = fmt.Errorf("branch above clade %v satisfies the criterion but was kept", tx.NamesOf(cl[x]))
			}
		case keep:
			if !present {
				rerr = fmt.Errorf("branch above clade %v does not satisfy the criterion but was removed", tx.NamesOf(cl[x]))
				return
			}
			ib := mb[k]
			if ia.Name != ib.Name || !eq(ia.Len, ib.Len) || !eq(ia.Sup, ib.Sup) || !eq(ia.Pv, ib.Pv) {
				rerr = fmt.Errorf("kept clade %v changed: name %q->%q length %s->%s support %s->%s", tx.NamesOf(cl[x]), ib.Name, ia.Name, pf(ib.Len), pf(ia.Len), pf(ib.Sup), pf(ia.Sup))
			}
		}
	})
	if rerr != nil {
		return fmt.Errorf("%v%s", rerr, ctx())
	}
	for k := range ma {
		if _, ok := mb[k]; !ok {
			return fmt.Errorf("new clade %v appeared%s", tx.KeyNames(k), ctx())
		}
	}
	return nil
}

func eq(a, b *float64) bool {
	if a == nil || b == nil {
		return a == nil && b == nil
	}
	return *a == *b
}

func pf(p *float64) string {
	if p == nil {
		return "absent"
	}
	return fmt.Sprint(*p)
}

func TestC07Collapse(t *testing.T) {
	h.Run(t, h.Spec[Case]{
		Property: "C07", Name: "collapse", Quick: 24000, Thorough: 1200000,
		Rule:  "trees (3..12 tips, 5% up to 40/200; lengths none/all/mixed incl. zeros, one tree in five with some negative lengths; supports mixed/all or inner names) x {length, support, depth} x thresholds drawn from {present value, midpoint of two, below min, above max, 0, negative} / depth intervals incl. empty x removeRoot x removeTips; oracle = exact clade-set algebra with the documented predicates (length<=l, support present and <s, min<=depth<=max), attributes of kept clades; non-trivial = >=1 branch collapsed and >=1 inner branch kept",
		Gen:   genCase,
		Check: check,
		Classify: func(c Case) (bool, []string) {
			l := []string{"kind:" + c.Kind, fmt.Sprintf("root=%v", c.RemoveRoot), fmt.Sprintf("tips=%v", c.RemoveTips)}
			if c.Reroot > 0 && len(c.Tree.Ch) >= 3 && !c.Tree.HasSingleChildInner() {
				l = append(l, "rerooted-in-memory-first")
			}
			if len(c.Tree.Ch) == 2 {
				l = append(l, "rooted")
			}
			tx, _ := ref.NewTaxa(c.Tree.Tips())
			cl, _ := tx.Clades(c.Tree)
			nrm, nkeep, tie, nested, absentSup := 0, 0, false, false, false
			par := c.Tree.Parents()
			hit := map[*ref.Node]bool{}
			c.Tree.Walk(func(x, p *ref.Node) {
				if p == nil || x.IsTip() {
					return
				}
				sat := false
				switch c.Kind {
				case "length":
					sat = x.Len != nil && *x.Len <= c.Thr
					if x.Len != nil && *x.Len == c.Thr {
						tie = true
					}
				case "support":
					sat = x.Sup != nil && *x.Sup < c.Thr
					if x.Sup != nil && *x.Sup == c.Thr {
						tie = true
					}
					if x.Sup == nil {
						absentSup = true
					}
				case "depth":
					k := cl[x].Count()
					if tx.N()-k < k {
						k = tx.N() - k
					}
					sat = k >= c.Min && k <= c.Max
					if k == c.Min || k == c.Max {
						tie = true
					}
				}
				if sat {
					nrm++
					hit[x] = true
					if hit[par[x]] {
						nested = true
					}
				} else {
					nkeep++
				}
			})
			if tie {
				l = append(l, "value==threshold")
			}
			if nested {
				l = append(l, "nested-collapse")
			}
			if absentSup && nrm > 0 {
				l = append(l, "absent-support-next-to-low")
			}
			return nrm >= 1 && nkeep >= 1, l
		},
	})
}

// ---------------------------------------------------------------------------------------

type ResCase struct {
	Tree    *ref.Node `json:"tree"`
	Seed    int64     `json:"seed"`
	Reroot  int       `json:"reroot,omitempty"`
	History []ops.Op  `json:"history,omitempty"`
}

func checkResolve(c ResCase) error {
	t, err := gt.FromModel(c.Tree)
	if err != nil {
		return fmt.Errorf("parser rejects the start tree: %v", err)
	}
	if len(c.History) > 0 {
		// 1-4 name-preserving edits of the tree object in memory; the oracle works on the model read back
		if t2, m2, ok, herr := ops.Replay(t, c.History); herr != nil {
			return herr
		} else if ok {
			t, c.Tree = t2, m2
			c.Reroot = 0 // the history re-roots by itself (RerootBoth needs a freshly parsed tree)
		} else if t, err = gt.FromModel(c.Tree); err != nil {
			return err
		}
	}
	if c.Reroot > 0 {
		rm, _, err := gt.RerootBoth(t, c.Tree, c.Reroot-1)
		if err != nil {
			return err
		}
		c.Tree = rm
	}
	rand.Seed(c.Seed)
	t.Resolve()
	if err := gt.Structural(t); err != nil {
		return fmt.Errorf("result malformed: %v", err)
	}
	after, err := gt.Read(t)
	if err != nil {
		return err
	}
	ctx := func() string { return fmt.Sprintf("\n before %s\n after  %s", ref.Write(c.Tree), ref.Write(after)) }
	tx, err := ref.NewTaxa(c.Tree.Tips())
	if err != nil {
		return err
	}
	at := after.Tips()
	sort.Strings(at)
	if fmt.Sprint(at) != fmt.Sprint(tx.Names) {
		return fmt.Errorf("tip set changed%s", ctx())
	}
	wantRoot := 3
	if len(c.Tree.Ch) == 2 {
		wantRoot = 2
	}
	var rerr error
	after.Walk(func(x, p *ref.Node) {
		if x.IsTip() {
			return
		}
		if p == nil && len(x.Ch) != wantRoot {
			rerr = fmt.Errorf("root has %d children, expected %d", len(x.Ch), wantRoot)
		}
		if p != nil && len(x.Ch) != 2 {
			rerr = fmt.Errorf("inner node with %d children", len(x.Ch))
		}
	})
	if rerr != nil {
		return fmt.Errorf("%v%s", rerr, ctx())
	}
	mb, err := ref.RootedMap(c.Tree, tx)
	if err != nil {
		return err
	}
	ma, err := ref.RootedMap(after, tx)
	if err != nil {
		return fmt.Errorf("result: %v%s", err, ctx())
	}
	for k, ib := range mb {
		ia, ok := ma[k]
		if !ok {
			return fmt.Errorf("original clade %v lost%s", tx.KeyNames(k), ctx())
		}
		if ia.Name != ib.Name || !eq(ia.Len, ib.Len) || !eq(ia.Sup, ib.Sup) || !eq(ia.Pv, ib.Pv) {
			return fmt.Errorf("clade %v changed attributes%s", tx.KeyNames(k), ctx())
		}
	}
	for k, ia := range ma {
		if _, ok := mb[k]; ok {
			continue
		}
		if ia.Len == nil || *ia.Len != 0 || ia.Sup != nil || ia.Pv != nil || ia.Name != "" {
			return fmt.Errorf("new branch above %v is not an unsupported zero-length branch (length %s support %s)%s", tx.KeyNames(k), pf(ia.Len), pf(ia.Sup), ctx())
		}
	}
	nb, db, _ := ref.DistMatrix(c.Tree, ref.MetricLen)
	na, da, _ := ref.DistMatrix(after, ref.MetricLen)
	if err := ref.CompareDist(nb, db, na, da, true); err != nil {
		return fmt.Errorf("%v%s", err, ctx())
	}
	return nil
}

func TestC07Resolve(t *testing.T) {
	h.Run(t, h.Spec[ResCase]{
		Property: "C07", Name: "resolve", Quick: 12000, Thorough: 600000,
		Rule: "same trees x seed; Resolve(); oracle = fully binary, every original clade kept with attributes, new branches have length 0 and no support, distance matrix identical (exact); non-trivial = >=1 polytomy resolved",
		Gen: func(t *rapid.T, thorough bool) ResCase {
			c := ResCase{Tree: gen.Tree(t, treeOpts(t, thorough)), Seed: rapid.Int64Range(0, 1<<40).Draw(t, "seed")}
			if rapid.IntRange(0, 2).Draw(t, "rerootfirst") == 0 {
				c.Reroot = 1 + rapid.IntRange(0, 1000).Draw(t, "rerootat")
			}
			if rapid.IntRange(0, 4).Draw(t, "hashistory") == 2 {
				c.History = ops.GenHistory(t, 4)
			}
			return c
		},
		Check: checkResolve,
		Classify: func(c ResCase) (bool, []string) {
			var l []string
			poly := false
			c.Tree.Walk(func(x, p *ref.Node) {
				if (p == nil && len(x.Ch) > 3) || (p != nil && len(x.Ch) > 2) {
					poly = true
				}
			})
			if len(c.Tree.Ch) > 3 {
				l = append(l, "polytomy-at-root")
			}
			if len(c.Tree.Ch) == 2 {
				l = append(l, "rooted")
			}
			if poly {
				l = append(l, "polytomy")
			}
			return poly, l
		},
	})
}
