package c07

import (
	"fmt"
	"testing"

	"verif/internal/big"
	"verif/internal/h"
)

// huge: the collapse functions collect the branches to remove in lists with room for 1000, the
// tree code lists branches and nodes in slices with room for 2000. Constructed trees of 2100-2500
// tips (internal/big) with thresholds that select more than a thousand branches at once, judged
// by the same oracles as the drawn cases.

type HugeCase struct {
	Shape string  `json:"shape"`
	N     int     `json:"n"`
	Kind  string  `json:"kind"` // length | support | depth | resolve
	Thr   float64 `json:"thr"`
	Min   int     `json:"min"`
	Max   int     `json:"max"`
}

func checkHuge(c HugeCase) error {
	m := big.Model(c.Shape, c.N)
	if c.Kind == "resolve" {
		return checkResolve(ResCase{Tree: m, Seed: int64(c.N)})
	}
	return check(Case{Tree: m, Kind: c.Kind, Thr: c.Thr, Min: c.Min, Max: c.Max})
}

func TestC07Huge(t *testing.T) {
	r := h.NewRecorder(t, "C07", "huge", "constructed trees (bushy with 2-4 children per node, binary, caterpillar, star, a 2100-child node in a small tree) on 2100-2500 tips: collapse by length (thresholds 0, 0.125, 0.25: 500-2000 branches removed at once), by support (0.35, 0.75), by depth (1-2, 2-40) and Resolve of the star / wide / bushy trees; same oracles as the drawn cases; every case is non-trivial")
	var rc HugeCase
	if replaying, mine := r.ReplayCase(&rc); replaying {
		if mine {
			r.Replayed(checkHuge(rc))
		}
		return
	}
	cases := []HugeCase{
		{Shape: "bushy", N: 2500, Kind: "length", Thr: 0.25}, {Shape: "binary", N: 2100, Kind: "length", Thr: 0.125}, {Shape: "caterpillar", N: 2100, Kind: "length", Thr: 0},
		{Shape: "binary", N: 2500, Kind: "support", Thr: 0.75}, {Shape: "caterpillar", N: 2200, Kind: "support", Thr: 0.35},
		{Shape: "binary", N: 2100, Kind: "depth", Min: 2, Max: 40}, {Shape: "bushy", N: 2500, Kind: "depth", Min: 1, Max: 2},
		{Shape: "star", N: 2100, Kind: "resolve"}, {Shape: "wide", N: 2104, Kind: "resolve"}, {Shape: "bushy", N: 2500, Kind: "resolve"},
	}
	for k, c := range cases {
		if k%h.NShards() != h.Shard() {
			continue
		}
		var err error
		if gerr := r.Guard(c, 300e9, func() error { err = checkHuge(c); return nil }); gerr != nil {
			err = gerr
		}
		r.Eval(c, true, "kind:"+c.Kind, fmt.Sprintf("shape:%s", c.Shape))
		if err != nil {
			msg := err.Error()
			if len(msg) > 900 {
				msg = msg[:900] + "..."
			}
			r.Fail(c, "%s", msg)
		}
	}
}
