package c02

import (
	"fmt"
	"strings"
	"testing"

	"pgregory.net/rapid"

	"verif/internal/cli"
	"verif/internal/clit"
	"verif/internal/docs"
	"verif/internal/h"
	"verif/internal/ref"
)

// ---------------------------------------------------------------------------------------
// cli-streams: every command of the template table, every tree file it reads, damaged.
//
// The readers hand a damaged record to their consumer as an error record on the tree channel;
// what the user sees is the command. Each tree file a template reads (standard input, -i, -c, -b
// ...) is damaged in turn - a record that is not a tree in the middle, a tree on other taxa in
// the middle, an empty file, a file whose last tree lacks its ';' - and the command must end by
// itself (60 s) without a Go panic trace, with one thread and, where it has -t, with four. The
// exit status is not judged here (commands whose result is wrong without it are judged by the
// command-level checks of their own property).

type StreamCase struct {
	Template string       `json:"template"`
	File     string       `json:"file"`
	Damage   string       `json:"damage"`
	Threads  int          `json:"threads"`
	Data     clit.Dataset `json:"data"`
}

var damages = []string{"broken-middle", "foreign-middle", "empty", "truncated-last", "broken-first",
	// every tree file of the command line as a Nexus / PhyloXML document (--format applies to all of
	// them), the file under test intact, without any tree, or cut in the middle
	"nexus-intact", "nexus-notrees", "nexus-cut", "phyloxml-intact", "phyloxml-empty", "phyloxml-cut",
	"nextstrain-intact", "nextstrain-empty", "nextstrain-cut"}

// asFormat rewrites a text of Newick trees as a Nexus or PhyloXML document (false: not possible).
func asFormat(text, format string) (string, bool) {
	if format == "nexus" {
		return cli.ToNexus(text, false)
	}
	if strings.TrimSpace(text) == "" {
		return "", false
	}
	if format == "nextstrain" {
		// one tree per document
		m, err := ref.Parse(strings.Split(strings.TrimSpace(text), "\n")[0])
		if err != nil {
			return "", false
		}
		return docs.Nextstrain(m, true), true
	}
	var ms []*ref.Node
	for _, l := range strings.Split(strings.TrimSpace(text), "\n") {
		m, err := ref.Parse(l)
		if err != nil {
			return "", false
		}
		ms = append(ms, m)
	}
	return docs.PhyloXML(ms), true
}

func damage(text, kind string) string {
	lines := strings.Split(strings.TrimRight(text, "\n"), "\n")
	switch kind {
	case "empty":
		return ""
	case "truncated-last":
		last := lines[len(lines)-1]
		lines[len(lines)-1] = strings.TrimSuffix(last, ";")
		return strings.Join(lines, "\n") + "\n"
	case "broken-first":
		return "((a,b),c;\n" + strings.Join(lines, "\n") + "\n"
	case "broken-middle":
		out := append([]string{lines[0], "((a,b),c;"}, lines[1:]...)
		return strings.Join(out, "\n") + "\n"
	case "foreign-middle":
		m, err := ref.Parse(lines[0])
		if err != nil || len(m.Tips()) < 2 {
			return text
		}
		m.TipNodes()[0].Name = "zz_other_taxon"
		out := append([]string{lines[0], ref.Write(m)}, lines[1:]...)
		return strings.Join(out, "\n") + "\n"
	}
	return text
}

// treeFiles lists the Newick tree files of the data set that the template reads.
func treeFiles(tp clit.Template) []string {
	var out []string
	seen := map[string]bool{}
	add := func(f string) {
		if strings.HasSuffix(f, ".nw") && !seen[f] {
			seen[f] = true
			out = append(out, f)
		}
	}
	add(tp.Stdin)
	for _, a := range tp.Args {
		add(a)
	}
	return out
}

func checkStream(c StreamCase) error {
	var tp *clit.Template
	for _, t := range clit.Templates() {
		if t.Name == c.Template {
			tt := t
			tp = &tt
		}
	}
	if tp == nil {
		return fmt.Errorf("harness: unknown template %q", c.Template)
	}
	d := clit.Dataset{Files: map[string]string{}}
	for k, v := range c.Data.Files {
		d.Files[k] = v
	}
	if _, ok := d.Files[c.File]; !ok {
		return fmt.Errorf("harness: data set has no file %q", c.File)
	}
	var extra []string
	if i := strings.Index(c.Damage, "-"); i > 0 && (c.Damage[:i] == "nexus" || c.Damage[:i] == "phyloxml" || c.Damage[:i] == "nextstrain") {
		format, what := c.Damage[:i], c.Damage[i+1:]
		for _, a := range tp.Args {
			if a == "--format" || a == "--input-format" {
				return nil // the template chooses its own input format
			}
		}
		for _, f := range treeFiles(*tp) {
			if doc, ok := asFormat(d.Files[f], format); ok {
				d.Files[f] = doc
			}
		}
		switch what {
		case "notrees":
			d.Files[c.File] = "#NEXUS\nBEGIN TAXA;\n DIMENSIONS NTAX=2;\n TAXLABELS a b;\nEND;\n"
		case "empty":
			d.Files[c.File] = "<phyloxml></phyloxml>\n"
			if format == "nextstrain" {
				d.Files[c.File] = "{\"version\":\"v2\",\"meta\":{}}\n"
			}
		case "cut":
			d.Files[c.File] = d.Files[c.File][:len(d.Files[c.File])*3/5]
		}
		extra = []string{"--format", format}
	} else {
		d.Files[c.File] = damage(d.Files[c.File], c.Damage)
	}
	o := clit.Run(*tp, d, 1, c.Threads, extra...)
	if o.TimedOut {
		return fmt.Errorf("%s (gotree %s) does not end when %s is damaged (%s), %d thread(s)", c.Template, strings.Join(tp.Args, " "), c.File, c.Damage, c.Threads)
	}
	if strings.Contains(o.Stderr, "panic:") || strings.Contains(o.Stderr, "goroutine 1 [") || strings.Contains(o.Stderr, "fatal error:") {
		return fmt.Errorf("%s (gotree %s) crashes when %s is damaged (%s): %s", c.Template, strings.Join(tp.Args, " "), c.File, c.Damage, clip(o.Stderr))
	}
	return nil
}

func TestC02CliStreams(t *testing.T) {
	r := h.NewRecorder(t, "C02", "cli-streams", "every command template x every Newick tree file it reads (stdin, -i, -c, -b ...) x damage {record that is not a tree first / in the middle, tree on other taxa in the middle, empty file, last tree without ';'; all tree files as Nexus, PhyloXML or Nextstrain documents with --format, the file under test intact / without any tree / cut in the middle} x {1 thread, 4 threads where the command has -t}, on a data set generated from VERIF_SEED: the process must end by itself within 60 s and print no Go panic trace; the exit status is not judged; every case is non-trivial")
	var rc StreamCase
	if replaying, mine := r.ReplayCase(&rc); replaying {
		if mine {
			r.Replayed(checkStream(rc))
		}
		return
	}
	if !cli.Available() {
		t.Fatalf("gotree binary not built")
	}
	data := rapid.Custom(func(t *rapid.T) clit.Dataset { return clit.GenDatasetSized(t, false) }).Example(int(h.Seed())*100 + 3)
	k := 0
	for _, tp := range clit.Templates() {
		for _, f := range treeFiles(tp) {
			if _, ok := data.Files[f]; !ok {
				continue // a file the command writes
			}
			for _, dm := range damages {
				for _, th := range []int{1, 4} {
					if th > 1 && !tp.Threads {
						continue
					}
					k++
					if k%h.NShards() != h.Shard() {
						continue
					}
					c := StreamCase{Template: tp.Name, File: f, Damage: dm, Threads: th, Data: data}
					small := map[string]any{"template": c.Template, "file": c.File, "damage": c.Damage, "threads": c.Threads}
					var err error
					gerr := r.Guard(small, 150e9, func() error {
						err = checkStream(c)
						return nil
					})
					if gerr != nil {
						err = gerr
					}
					r.Eval(small, true, "damage:"+dm)
					if err != nil {
						r.Fail(c, "%v", err)
					}
				}
			}
		}
	}
	if h.NShards() == 1 {
		r.Exhaustive()
	}
}
