package c02

import (
	"bufio"
	"bytes"
	"fmt"
	"strings"
	"testing"
	"time"
	"unicode/utf8"

	"pgregory.net/rapid"

	"github.com/evolbioinfo/gotree/io/newick"
	"github.com/evolbioinfo/gotree/io/nextstrain"
	"github.com/evolbioinfo/gotree/io/nexus"
	"github.com/evolbioinfo/gotree/io/phyloxml"
	"github.com/evolbioinfo/gotree/io/utils"
	"github.com/evolbioinfo/gotree/tree"

	"verif/internal/cli"
	"verif/internal/docs"
	"verif/internal/gen"
	"verif/internal/h"
	"verif/internal/ref"
)

func TestMain(m *testing.M) { h.Main(m) }

// Case: a document (base bytes + byte-level mutations) given to the readers of one format.
type Case struct {
	Reader  string          `json:"reader"` // newick | nexus | phyloxml | nextstrain
	Kind    string          `json:"kind"`   // what the base document is
	Base    []byte          `json:"base"`
	Other   []byte          `json:"other,omitempty"`
	Muts    []docs.Mutation `json:"muts,omitempty"`
	Preview string          `json:"preview,omitempty"` // first bytes of the final document, for the reader of the evidence
	CLI     bool            `json:"cli,omitempty"`     // also through the command line
}

func (c Case) Doc() []byte {
	d := c.Base
	for _, m := range c.Muts {
		d = m.Apply(d, c.Other)
	}
	return d
}

var formats = map[string]int{"newick": utils.FORMAT_NEWICK, "nexus": utils.FORMAT_NEXUS, "phyloxml": utils.FORMAT_PHYLOXML, "nextstrain": utils.FORMAT_NEXTSTRAIN}

// exercise: every delivered tree can be traversed, indexed and written back.
func exercise(t *tree.Tree) error {
	if t == nil {
		return nil
	}
	if t.Root() == nil {
		// a record that announces success with a tree object that has no root: nothing can be done
		// with it (every traversal and every writer dereferences the root)
		return fmt.Errorf("a tree is delivered without error and has no root")
	}
	_ = t.Nodes()
	_ = t.Tips()
	_ = t.Edges()
	_ = t.TipEdges()
	_ = t.InternalEdges()
	_ = t.AllTipNames()
	k := 0
	t.PreOrder(func(cur, prev *tree.Node, e *tree.Edge) bool { k++; return true })
	t.PostOrder(func(cur, prev *tree.Node, e *tree.Edge) bool { k--; return true })
	if k != 0 {
		return fmt.Errorf("pre-order and post-order visit different numbers of nodes")
	}
	s1 := t.Newick()
	_ = t.ReinitIndexes() // an error (duplicate tips ...) is a legitimate answer
	s2 := t.Newick()
	if s1 != s2 {
		return fmt.Errorf("ReinitIndexes changed the Newick text: %q vs %q", clip(s1), clip(s2))
	}
	_ = t.Nexus()
	for _, tr := range []bool{false, true} {
		ch := make(chan tree.Trees, 1)
		ch <- tree.Trees{Tree: t, Id: 0}
		close(ch)
		if _, err := nexus.WriteNexus(ch, tr); err != nil {
			// Rename errors on the translate path are legitimate (e.g. missing names)
			_ = err
		}
	}
	// WritePhyloXML builds its indentation by repeated string concatenation (cubic in the
	// nesting depth: 37 s for 8000 levels). That is cost, not a hang, so it is only called
	// on trees of moderate depth.
	if depth(t) <= 1000 {
		ch := make(chan tree.Trees, 1)
		ch <- tree.Trees{Tree: t, Id: 0}
		close(ch)
		_, _ = phyloxml.WritePhyloXML(ch)
	}
	_ = t.Clone()
	// a delivered tree is used more than once: indexing it again (also after an index that
	// failed, e.g. on duplicated tip names) and unrooting it must not crash either
	_ = t.ReinitIndexes()
	_ = t.UpdateTipIndex()
	if len(t.Tips()) > 2 {
		t.UnRoot()
		_ = t.ReinitIndexes()
	}
	_ = t.Newick()
	return nil
}

func depth(t *tree.Tree) int {
	d, max := 0, 0
	t.PreOrder(func(cur, prev *tree.Node, e *tree.Edge) bool { return true })
	var rec func(n, from *tree.Node)
	rec = func(n, from *tree.Node) {
		d++
		if d > max {
			max = d
		}
		for _, c := range n.Neigh() {
			if c != from {
				rec(c, n)
			}
		}
		d--
	}
	rec(t.Root(), nil)
	return max
}

func clip(s string) string {
	if len(s) > 160 {
		return s[:160] + "..."
	}
	return s
}

type outcome struct {
	delivered int
	errors    int
}

// lastOutcome is the outcome of the most recent check (cases are evaluated one at a time;
// Classify is called right after Check for the same case).
var lastOutcome outcome

func check(c Case) error {
	o, err := run(c)
	lastOutcome = o
	if err == nil && c.CLI {
		err = runCLI(c)
	}
	return err
}

// runCLI gives the document to the command-line readers: `gotree reformat newick --input-format f`
// (multi-tree reader) and `gotree stats rooted --format f`; the process must end by itself without a
// Go panic trace, whatever its exit status.
func runCLI(c Case) error {
	if !cli.Available() {
		return nil
	}
	doc := string(c.Doc())
	for _, args := range [][]string{{"reformat", "newick", "--input-format", c.Reader}, {"stats", "rooted", "--format", c.Reader}, {"unroot", "--format", c.Reader, "-o", "out.nw"}} {
		r := cli.Run(cli.Scratch(), doc, args...)
		if r.TimedOut {
			return fmt.Errorf("gotree %v did not finish on this input", args)
		}
		if r.Panicked() {
			return fmt.Errorf("gotree %v crashed: %s", args, clip(r.Stderr))
		}
	}
	return nil
}

func run(c Case) (outcome, error) {
	var o outcome
	doc := c.Doc()
	f, ok := formats[c.Reader]
	if !ok {
		return o, fmt.Errorf("harness: unknown reader %q", c.Reader)
	}
	// 1. the format's own parser
	switch c.Reader {
	case "newick":
		t, err := newick.NewParser(bytes.NewReader(doc)).Parse()
		if err == nil {
			if t == nil {
				return o, fmt.Errorf("newick.Parse returned neither a tree nor an error")
			}
			if err := exercise(t); err != nil {
				return o, err
			}
		}
	case "nexus":
		n, err := nexus.NewParser(bytes.NewReader(doc)).Parse()
		if err == nil {
			if n == nil {
				return o, fmt.Errorf("nexus.Parse returned neither a document nor an error")
			}
			_ = n.FirstTree()
			_ = n.NTrees()
			var ierr error
			n.IterateTrees(func(name string, t *tree.Tree) {
				if e := exercise(t); e != nil && ierr == nil {
					ierr = e
				}
			})
			if ierr != nil {
				return o, ierr
			}
		}
	case "phyloxml":
		p, err := phyloxml.NewParser(bytes.NewReader(doc)).Parse()
		if err == nil && p != nil {
			_, _ = p.FirstTree()
			var ierr error
			p.IterateTrees(func(t *tree.Tree, err error) {
				if err == nil {
					if e := exercise(t); e != nil && ierr == nil {
						ierr = e
					}
				}
			})
			if ierr != nil {
				return o, ierr
			}
		}
	case "nextstrain":
		p, err := nextstrain.NewParser(bytes.NewReader(doc)).Parse()
		if err == nil && p != nil {
			t, err := p.FirstTree()
			if err == nil {
				if e := exercise(t); e != nil {
					return o, e
				}
			}
			var ierr error
			p.IterateTrees(func(t *tree.Tree, err error) {
				if err == nil {
					if e := exercise(t); e != nil && ierr == nil {
						ierr = e
					}
				}
			})
			if ierr != nil {
				return o, ierr
			}
		}
	}
	// 2. first tree
	t, err := utils.ReadTreeReader(bufio.NewReader(bytes.NewReader(doc)), f)
	if err == nil {
		if t == nil {
			return o, fmt.Errorf("ReadTreeReader returned neither a tree nor an error")
		}
		if e := exercise(t); e != nil {
			return o, e
		}
	}
	// 3. the multi-tree reader, drained to the end (its goroutine is the library's)
	n := 0
	for tr := range utils.ReadMultiTrees(bufio.NewReader(bytes.NewReader(doc)), f) {
		n++
		if tr.Err != nil {
			o.errors++
			continue
		}
		if tr.Tree == nil {
			return o, fmt.Errorf("multi-tree reader delivered a record with neither tree nor error (id %d)", tr.Id)
		}
		o.delivered++
		if e := exercise(tr.Tree); e != nil {
			return o, e
		}
		if n > 100000 {
			return o, fmt.Errorf("multi-tree reader delivered more than 100000 records from %d bytes", len(doc))
		}
	}
	return o, nil
}

// ---------------------------------------------------------------------------------------
// generation

var hostile = []string{
	"", " ", "\n", " \n", "\t\n;", "\r", "\r\n", ";", ";;", "();", "(A);", "((A,B));", "(,);", "(A,B)", "(A,B);;", "(A,B);\n \n(C,D);\n",
	"(A,B);\n\t\n", "(A:1,B:x);", "(A,B)[", "(A,B)[c];", "(A[&x],B):1;", "((A,B),);", "(A,(B));", "((((A))));", "(A,B),(C,D);", ")(;",
	"#NEXUS", "#NEXUS\n[", "#NEXUS\n[ unterminated", "#NEXUS\nBEGIN TREES;\nTREE t = [", "#NEXUS\nBEGIN DATA;\nFORMAT MISSING=", "#NEXUS\nBEGIN DATA;\nFORMAT GAP=",
	"#NEXUS\nBEGIN DATA;\nFORMAT GAP=;", "#NEXUS\nBEGIN TREES;\nTRANSLATE", "#NEXUS\nBEGIN TREES;\nTRANSLATE 1 a, 2", "#NEXUS\nBEGIN TREES;\nTREE = (a,b);\nEND;",
	"#NEXUS\nBEGIN TAXA;\nDIMENSIONS NTAX=;\nEND;", "#NEXUS\nBEGIN TAXA;\nTAXLABELS a b;\nEND;\nBEGIN TREES;\nTREE t = (a);\nEND;", "#NEXUS\nBEGIN", "#NEXUS\nBEGIN TREES",
	"#NEXUS\nBEGIN TREES;\nTREE t = ;\nEND;", "#NEXUS\nBEGIN TREES;\nTREE t = (a,b)\nEND;", "#NEXUS\r\nBEGIN TREES;\r\nTREE t = (a,b);\r\nEND;\r\n", "#NEXUS\rBEGIN TREES;",
	"#NEXUS\nBEGIN DATA;\nMATRIX\n a ACGT\n;\nEND;", "#NEXUS\nBEGIN DATA;\nDIMENSIONS NTAX=1 NCHAR=2;\nFORMAT DATATYPE=foo;\nMATRIX\n a AC\n;\nEND;",
	"#NEXUS\nBEGIN DATA;\nDIMENSIONS NTAX=-4 NCHAR=4;\nFORMAT DATATYPE=dna;\nMATRIX\n a ACGT\n b ACGT\n;\nEND;\nBEGIN TREES;\nTREE t = (a,b);\nEND;",
	"#NEXUS\nBEGIN DATA;\nDIMENSIONS NTAX=9223372036854775807 NCHAR=4;\nMATRIX\n a ACGT\n;\nEND;", "#NEXUS\nBEGIN DATA;\nDIMENSIONS NTAX=2 NCHAR=-3;\nMATRIX\n a ACGT\n b ACGT\n;\nEND;",
	"#NEXUS\nBEGIN TAXA;\nDIMENSIONS NTAX=-2;\nTAXLABELS a b;\nEND;\nBEGIN TREES;\nTREE t = (a,b);\nEND;", "#NEXUS\nBEGIN DATA;\nDIMENSIONS NTAX=0 NCHAR=0;\nMATRIX\n;\nEND;",
	"<phyloxml><phylogeny rooted=\"false\"/></phyloxml>", "<phyloxml><phylogeny rooted=\"true\"><name>x</name></phylogeny></phyloxml>",
	"<phyloxml><phylogeny><clade><name>a</name></clade></phylogeny><phylogeny/></phyloxml>", "<phyloxml><phylogeny/><phylogeny><clade><clade><name>a</name></clade><clade><name>b</name></clade></clade></phylogeny></phyloxml>",
	"<phyloxml>", "<phyloxml></phyloxml>", "<phyloxml><phylogeny></phylogeny></phyloxml>", "<phyloxml><phylogeny><clade></clade></phylogeny></phyloxml>",
	"<phyloxml><phylogeny><clade><clade><name>a</name></clade></clade></phylogeny></phyloxml>", "<phyloxml><phylogeny><clade><name>a</name></clade></phylogeny></phyloxml>",
	"<phyloxml><phylogeny><clade><clade/><clade/></clade></phylogeny></phyloxml>", "<phyloxml><phylogeny rooted=\"x\"><clade/></phylogeny></phyloxml>",
	"(A,B)\u00a0;", "((A,B)\f,C);", "(A,B)\v;", "((A,B)\u2003:1,C);", "(\u00a0,B);", "(A,B)\u00a0\u00a0:1;", "(A,B)\u3000;", "(A,(B,C)\u0085);",
	"(a,b)0.9/0.01;", "(a,b,(c,d)0.9/0.01)0.95/0.001;", "(a,b)1/2:3;", "(a,b)0.5:1[c];", "((a,b)1/2/3,c)4/5;", "(a,b)/;", "(a,b)1/;", "(a,b)/1;",
	"{}", "{\"version\":\"v2\"}", "{\"version\":\"v2\",\"tree\":{}}", "{\"version\":\"v2\",\"tree\":{\"children\":[{}]}}", "{\"version\":\"v2\",\"tree\":{\"name\":\"a\"}}",
	"{\"version\":\"v2\",\"tree\":{\"children\":[{\"name\":\"a\"}]}}", "{\"version\":\"v2\",\"tree\":{\"children\":null}}", "null", "[]", "{\"version\":\"v2\",\"tree\":null}",
}

func nested(k int) string {
	return strings.Repeat("(", k) + "A" + strings.Repeat(")", k) + ";"
}

func genModels(t *rapid.T, sameTaxa bool) []*ref.Node {
	o := gen.Opts{MinTips: 2, MaxTips: 8, Rooted: -1, MaxDeg: 4, Lens: gen.AnyPresence, LenVals: gen.Arbitrary, Sups: gen.AnyPresence, InnerNames: gen.AnyPresence, Comments: rapid.Bool().Draw(t, "comments")}
	base := gen.Tree(t, o)
	// the root may carry what only inner nodes usually carry: a numeric label, a support/p-value
	// label, a length, a comment after its length
	if rapid.IntRange(0, 5).Draw(t, "rootdeco") == 2 {
		base.Name = rapid.SampledFrom([]string{"0.95", "0.95/0.001", "1e-3", "root", "1/2/3", "/"}).Draw(t, "rootname")
		if rapid.Bool().Draw(t, "rootlen") {
			base.Len = ref.F(0)
		}
	}
	k := rapid.IntRange(1, 3).Draw(t, "ntrees")
	if rapid.IntRange(0, 11).Draw(t, "many") == 5 {
		k = rapid.IntRange(9, 30).Draw(t, "ntreesmany") // more trees than the readers' channel buffers hold
	}
	ms := []*ref.Node{base}
	for i := 1; i < k; i++ {
		if sameTaxa {
			ms = append(ms, gen.Perturb(t, base, 2, true, gen.Arbitrary))
		} else {
			ms = append(ms, gen.Tree(t, o))
		}
	}
	return ms
}

func genDoc(t *rapid.T, kind string) []byte {
	switch kind {
	case "newick":
		return []byte(ref.Write(genModels(t, false)[0]))
	case "multinewick":
		l := docs.Layout{BreakAfterComma: rapid.Bool().Draw(t, "brk"), BlankLines: rapid.IntRange(0, 2).Draw(t, "blank"), Trailing: rapid.Bool().Draw(t, "trail"), CRLF: rapid.IntRange(0, 3).Draw(t, "crlf") == 0, NoFinalNewline: rapid.Bool().Draw(t, "nofinal")}
		return []byte(docs.MultiNewick(genModels(t, false), l))
	case "nexus":
		o := docs.NexusOpts{Translate: rapid.Bool().Draw(t, "translate"), Taxa: rapid.Bool().Draw(t, "taxa"), Data: rapid.IntRange(0, 3).Draw(t, "data") == 0, Comments: rapid.Bool().Draw(t, "ncomments"), Lower: rapid.Bool().Draw(t, "lower"), Unknown: rapid.IntRange(0, 3).Draw(t, "unknown") == 0,
			InlineEnd: rapid.Bool().Draw(t, "inlineend"), TwoBlocks: rapid.IntRange(0, 3).Draw(t, "twoblocks") == 0}
		return []byte(docs.Nexus(genModels(t, true), o))
	case "phyloxml":
		if rapid.Bool().Draw(t, "taxonomy") {
			return []byte(docs.PhyloXMLTaxonomy(genModels(t, false)))
		}
		return []byte(docs.PhyloXML(genModels(t, false)))
	case "nextstrain":
		return []byte(docs.Nextstrain(genModels(t, false)[0], rapid.Bool().Draw(t, "attrs")))
	case "hostile":
		return []byte(rapid.SampledFrom(hostile).Draw(t, "hostile"))
	case "nested":
		return []byte(nested(rapid.SampledFrom([]int{1, 2, 50, 1000, 10000}).Draw(t, "depth")))
	case "random":
		return rapid.SliceOfN(rapid.Byte(), 0, 40).Draw(t, "bytes")
	}
	panic("bad kind")
}

var docKindsOf = map[string][]string{
	"newick":     {"newick", "multinewick", "multinewick"},
	"nexus":      {"nexus"},
	"phyloxml":   {"phyloxml"},
	"nextstrain": {"nextstrain"},
}

func genCase(t *rapid.T, thorough bool) Case {
	c := Case{Reader: rapid.SampledFrom([]string{"newick", "newick", "nexus", "nexus", "phyloxml", "nextstrain"}).Draw(t, "reader")}
	switch rapid.IntRange(0, 19).Draw(t, "src") {
	case 0:
		c.Kind = "hostile"
	case 1:
		c.Kind = "random"
	case 2:
		c.Kind = "nested"
	case 3:
		// a document of another format
		c.Kind = rapid.SampledFrom([]string{"newick", "multinewick", "nexus", "phyloxml", "nextstrain"}).Draw(t, "cross")
	default:
		c.Kind = rapid.SampledFrom(docKindsOf[c.Reader]).Draw(t, "dockind")
	}
	c.Base = genDoc(t, c.Kind)
	nm := rapid.SampledFrom([]int{0, 1, 1, 1, 2, 2, 3, 4}).Draw(t, "nmut")
	if c.Kind == "nested" && len(c.Base) > 5000 {
		nm = 0
	}
	if nm > 0 {
		if rapid.IntRange(0, 3).Draw(t, "hasother") == 0 {
			c.Other = genDoc(t, rapid.SampledFrom(docKindsOf[c.Reader]).Draw(t, "otherkind"))
		}
		for i := 0; i < nm; i++ {
			c.Muts = append(c.Muts, docs.GenMutation(t))
		}
	}
	d := c.Doc()
	if len(d) > 120 {
		d = d[:120]
	}
	c.Preview = strings.ToValidUTF8(string(d), "�")
	c.CLI = len(c.Doc()) < 5000 && rapid.IntRange(0, 29).Draw(t, "cli") == 0
	return c
}

func anchors() []Case {
	var out []Case
	for _, r := range []string{"newick", "nexus", "phyloxml", "nextstrain"} {
		for _, hdoc := range hostile {
			out = append(out, Case{Reader: r, Kind: "hostile", Base: []byte(hdoc), Preview: hdoc})
		}
	}
	out = append(out, Case{Reader: "newick", Kind: "nested", Base: []byte(nested(100000))})
	return out
}

func TestC02Readers(t *testing.T) {
	h.Run(t, h.Spec[Case]{
		Property: "C02", Name: "readers", Quick: 40000, Thorough: 1600000, Timeout: 15 * time.Second,
		Rule: "documents of the five formats written by independent writers from generated trees (1-3 trees, one document in twelve 9-30 trees; multi-Newick layouts, Nexus with TAXA/DATA/TRANSLATE/unknown blocks and comments, PhyloXML, Nextstrain v2), hostile constants, deep nesting, random bytes, cross-format input; 0-4 byte-level mutations (truncate, delete, duplicate, insert dictionary token or random bytes, flip, splice with a second document, replace, swap); every document goes through the format's parser, ReadTreeReader and ReadMultiTrees (drained); every delivered tree is traversed, indexed and written (Newick, Nexus +-translate, PhyloXML, Clone), then indexed again, unrooted and written again; one generated tree in six carries a numeric, support/p-value or plain label and a length on its root. 3% of the documents also go through the command line (`reformat newick --input-format`, `stats rooted --format`, `unroot -o`): the process must end without a Go panic trace. Oracle: everything returns (watchdog: 15 s of the check's own processor time, 90 s of wall time), no panic on any goroutine, no record without tree and error. Non-trivial = a mutated valid document or a hostile constant",
		Gen:   genCase,
		Check: check,
		Anchors: anchors(),
		Classify: func(c Case) (bool, []string) {
			o := lastOutcome
			l := []string{"reader:" + c.Reader, "kind:" + c.Kind, fmt.Sprintf("muts:%d", len(c.Muts))}
			switch {
			case o.delivered > 0 && o.errors > 0:
				l = append(l, c.Reader+":error-after-delivery")
			case o.delivered > 0:
				l = append(l, c.Reader+":delivered")
			default:
				l = append(l, c.Reader+":error")
			}
			if c.CLI {
				l = append(l, "cli")
			}
			if !utf8.Valid(c.Doc()) {
				l = append(l, "invalid-utf8")
			}
			return (len(c.Muts) > 0 && c.Kind != "random") || c.Kind == "hostile", l
		},
	})
}

// ---------------------------------------------------------------------------------------
// Native fuzz targets (thorough tier): coverage-guided bytes into each format's readers,
// same validity predicate.

func fuzzReader(f *testing.F, reader string, seeds []string) {
	for _, s := range hostile {
		f.Add([]byte(s))
	}
	for _, s := range seeds {
		f.Add([]byte(s))
	}
	f.Fuzz(func(t *testing.T, data []byte) {
		if len(data) > 1<<15 {
			return
		}
		c := Case{Reader: reader, Kind: "fuzz", Base: data}
		h.FuzzCheck(t, 15*time.Second, func() error { return check(c) })
	})
}

func fixedModels() []*ref.Node {
	a, _ := ref.Parse("((a:1,b:0.5)0.9:0.1[&c=1],(c:1e-3,d:2)N1:1,e:0);")
	b, _ := ref.Parse("((a,c),(b,d,e)x);")
	return []*ref.Node{a, b}
}

func sameTaxaModels() []*ref.Node {
	a, _ := ref.Parse("((a:1,b:0.5)0.9:0.1,(c:1e-3,d:2):1,e:0);")
	b, _ := ref.Parse("((a,c),(b,d),e);")
	return []*ref.Node{a, b}
}

func FuzzNewick(f *testing.F) {
	ms := fixedModels()
	fuzzReader(f, "newick", []string{ref.Write(ms[0]), docs.MultiNewick(ms, docs.Layout{}), docs.MultiNewick(ms, docs.Layout{BreakAfterComma: true, BlankLines: 2, Trailing: true, CRLF: true})})
}

func FuzzNexus(f *testing.F) {
	ms := sameTaxaModels()
	fuzzReader(f, "nexus", []string{docs.Nexus(ms, docs.NexusOpts{Taxa: true}), docs.Nexus(ms, docs.NexusOpts{Translate: true, InlineEnd: true, TwoBlocks: true}), docs.Nexus(ms, docs.NexusOpts{Translate: true, Taxa: true, Data: true, Comments: true, Unknown: true}), docs.Nexus(ms[:1], docs.NexusOpts{Lower: true, Translate: true})})
}

func FuzzPhyloXML(f *testing.F) {
	fuzzReader(f, "phyloxml", []string{docs.PhyloXML(fixedModels())})
}

func FuzzNextstrain(f *testing.F) {
	fuzzReader(f, "nextstrain", []string{docs.Nextstrain(fixedModels()[0], true), docs.Nextstrain(fixedModels()[1], false)})
}

func TestCorpusToReplay(t *testing.T) {
	mk := func(reader string) func(args []string) any {
		return func(args []string) any {
			d := []byte(args[0])
			p := d
			if len(p) > 120 {
				p = p[:120]
			}
			return Case{Reader: reader, Kind: "fuzz", Base: d, Preview: strings.ToValidUTF8(string(p), "�")}
		}
	}
	h.CorpusToReplay(t, "C02", map[string]struct {
		Check string
		Make  func(args []string) any
	}{
		"FuzzNewick": {"readers", mk("newick")}, "FuzzNexus": {"readers", mk("nexus")},
		"FuzzPhyloXML": {"readers", mk("phyloxml")}, "FuzzNextstrain": {"readers", mk("nextstrain")},
	})
}
