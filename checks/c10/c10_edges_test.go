package c10

import (
	"fmt"
	"sort"
	"strconv"
	"strings"
	"testing"

	"pgregory.net/rapid"

	"verif/internal/cli"
	"verif/internal/gen"
	"verif/internal/h"
	"verif/internal/ref"
)

// Command level: `gotree compare edges -i ref -c compared` prints, for every branch of the
// reference tree and every compared tree, whether the branch's split is in the compared tree
// ("found") and its minimum transfer distance to the compared tree's branches - the quantity
// whose average TBE normalises. Both are recomputed by brute force from the reference model
// (Hamming distances between tip sets); branches are matched as a multiset of
// (topological depth, found, transfer distance), so that the order of the lines is free.

type EdgesCase struct {
	Ref    *ref.Node   `json:"ref"`
	Comps  []*ref.Node `json:"comps"`
	InMode string      `json:"in_mode"`
}

func checkEdges(c EdgesCase) error {
	if !cli.Available() {
		return fmt.Errorf("harness: gotree binary not built")
	}
	tx, err := ref.NewTaxa(c.Ref.Tips())
	if err != nil {
		return err
	}
	n := tx.N()
	dir := cli.Scratch()
	var comps strings.Builder
	for _, m := range c.Comps {
		comps.WriteString(ref.Write(m) + "\n")
	}
	extra, stdin, files, _ := cli.Present(c.InMode, ref.Write(c.Ref)+"\n", "-i")
	compFile := comps.String()
	if cli.IsNexus(c.InMode) {
		if d, ok := cli.ToNexus(compFile, false); ok && len(extra) > 0 {
			compFile = d
		} else {
			extra, stdin, files, _ = cli.Present("file", ref.Write(c.Ref)+"\n", "-i")
		}
	}
	for name, content := range files {
		cli.WriteIn(dir, name, content)
	}
	args := append([]string{"compare", "edges", "-c", cli.WriteIn(dir, "comp.nw", compFile)}, extra...)
	r := cli.Run(dir, stdin, args...)
	ctx := fmt.Sprintf("\n gotree %v\n ref %s\n%s output\n%s", args, ref.Write(c.Ref), comps.String(), clipOut(r.Stdout))
	if r.Code != 0 || r.TimedOut {
		return fmt.Errorf("command failed with status %d: %s%s", r.Code, r.Stderr, ctx)
	}
	lines := strings.Split(strings.TrimRight(r.Stdout, "\n"), "\n")
	if len(lines) < 1 || !strings.HasPrefix(lines[0], "tree\tbrid\t") {
		return fmt.Errorf("no header line%s", ctx)
	}
	col := map[string]int{}
	for i, name := range strings.Split(lines[0], "\t") {
		col[name] = i
	}
	for _, need := range []string{"tree", "terminal", "topodepth", "rightname", "found", "transfer"} {
		if _, ok := col[need]; !ok {
			return fmt.Errorf("no column %q%s", need, ctx)
		}
	}
	gotInner := map[int][]string{}
	gotTips := map[int][]string{}
	for _, l := range lines[1:] {
		f := strings.Split(l, "\t")
		if len(f) < len(col) {
			return fmt.Errorf("short line %q%s", l, ctx)
		}
		id, err := strconv.Atoi(f[col["tree"]])
		if err != nil || id < 0 || id >= len(c.Comps) {
			return fmt.Errorf("bad tree identifier in line %q%s", l, ctx)
		}
		if f[col["terminal"]] == "true" {
			if f[col["found"]] != "true" || f[col["transfer"]] != "0" {
				return fmt.Errorf("tip branch %q: found=%s transfer=%s%s", f[col["rightname"]], f[col["found"]], f[col["transfer"]], ctx)
			}
			gotTips[id] = append(gotTips[id], f[col["rightname"]])
			continue
		}
		gotInner[id] = append(gotInner[id], f[col["topodepth"]]+"/"+f[col["found"]]+"/"+f[col["transfer"]])
	}
	rcl, err := tx.Clades(c.Ref)
	if err != nil {
		return err
	}
	wantTips := append([]string{}, tx.Names...)
	for id, comp := range c.Comps {
		ccl, err := tx.Clades(comp)
		if err != nil {
			return err
		}
		var compSides []ref.Bits
		comp.Walk(func(x, p *ref.Node) {
			if p != nil {
				compSides = append(compSides, ccl[x])
			}
		})
		var want []string
		c.Ref.Walk(func(x, par *ref.Node) {
			if par == nil || x.IsTip() {
				return
			}
			side := rcl[x]
			k := side.Count()
			p := k
			if n-k < k {
				p = n - k
			}
			best := p - 1
			for _, cs := range compSides {
				hd := 0
				for i := 0; i < n; i++ {
					if side.Has(i) != cs.Has(i) {
						hd++
					}
				}
				if n-hd < hd {
					hd = n - hd
				}
				if hd < best {
					best = hd
				}
			}
			want = append(want, fmt.Sprintf("%d/%v/%d", p, best == 0, best))
		})
		got := gotInner[id]
		sort.Strings(got)
		sort.Strings(want)
		if strings.Join(got, " ") != strings.Join(want, " ") {
			return fmt.Errorf("compared tree %d: inner branches of the reference tree as (topodepth/found/transfer) are\n  %v\nexpected from the definitions\n  %v%s", id, got, want, ctx)
		}
		gt := gotTips[id]
		sort.Strings(gt)
		if strings.Join(gt, ",") != strings.Join(wantTips, ",") {
			return fmt.Errorf("compared tree %d: tip branches %v, expected %v%s", id, gt, wantTips, ctx)
		}
	}
	return nil
}

func clipOut(s string) string {
	if len(s) > 2500 {
		return s[:2500] + "..."
	}
	return s
}

func TestC10CliEdges(t *testing.T) {
	h.Run(t, h.Spec[EdgesCase]{
		Property: "C10", Name: "cli-edges", Quick: 1200, Thorough: 24000,
		Rule: "`gotree compare edges -i ref -c compared` (reference tree on stdin, in a file, in a gzip file or as Nexus) on an unrooted reference tree and 1-3 related compared trees on the same taxa: per compared tree, the multiset of (topological depth, found, minimum transfer distance) over the inner branches of the reference tree, and the tip branches, must equal what the definitions give (brute-force Hamming distances on the reference model); non-trivial = a branch with 0 < transfer distance < depth-1",
		Gen: func(t *rapid.T, thorough bool) EdgesCase {
			o := gen.Opts{MinTips: 4, MaxTips: 12, BigTips: 40, Rooted: 0, MaxDeg: 4, Lens: gen.AnyPresence, LenVals: gen.DyadicZ, Sups: gen.AnyPresence}
			base := gen.Tree(t, o)
			c := EdgesCase{Ref: base, InMode: rapid.SampledFrom(cli.InModes).Draw(t, "inmode")}
			for i, n := 0, rapid.IntRange(1, 3).Draw(t, "ncomp"); i < n; i++ {
				c.Comps = append(c.Comps, gen.Perturb(t, base, rapid.IntRange(0, 4).Draw(t, "npert"), true, gen.DyadicZ))
			}
			return c
		},
		Check: checkEdges,
		Classify: func(c EdgesCase) (bool, []string) {
			tx, err := ref.NewTaxa(c.Ref.Tips())
			if err != nil {
				return false, nil
			}
			exp, err := expected(tx, c.Ref, c.Comps[:1])
			if err != nil {
				return false, nil
			}
			for _, w := range exp {
				if w.minBetween {
					return true, []string{"in:" + c.InMode, "partial-transfer"}
				}
			}
			return false, []string{"in:" + c.InMode}
		},
	})
}
