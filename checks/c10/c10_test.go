package c10

import (
	"errors"
	"fmt"
	"math"
	"strconv"
	"strings"
	"testing"

	"pgregory.net/rapid"

	"github.com/evolbioinfo/gotree/support"
	"github.com/evolbioinfo/gotree/tree"

	"verif/internal/cli"
	"verif/internal/gen"
	"verif/internal/gt"
	"verif/internal/h"
	"verif/internal/ops"
	"verif/internal/ref"
)

func TestMain(m *testing.M) { h.Main(m) }

// memSel: selectors of in-memory re-rootings applied to the trees after parsing (set from the
// case at the start of each check; cases are evaluated one at a time). The oracles of this
// property do not depend on the rooting, but a tree re-rooted in memory is in a state (parent not
// first among a node's neighbours) that no freshly parsed tree has.
var memSel []int

func mem(i int) int {
	if len(memSel) == 0 {
		return 0
	}
	return memSel[i%len(memSel)]
}

// editedFrom: a model that was read back from an object indexed and then edited in memory
// (start model + history): parseMem builds such an object again each time the tree is needed.
type recipe struct {
	start *ref.Node
	hist  []ops.Op
}

var editedFrom = map[*ref.Node]recipe{}

func parseMem(m *ref.Node, i int) (*tree.Tree, error) {
	if r, ok := editedFrom[m]; ok {
		t, _, ok2, err := ops.Edited(r.start, r.hist, false)
		if err != nil || !ok2 {
			return nil, fmt.Errorf("harness: history not replayable: %v", err)
		}
		return t, nil
	}
	t, err := gt.FromModel(m)
	if err != nil {
		return nil, err
	}
	if err := gt.RerootInMemory(t, mem(i)); err != nil {
		return nil, fmt.Errorf("Reroot failed: %v", err)
	}
	return t, nil
}

type Case struct {
	Ref     *ref.Node   `json:"ref"`
	RefAlt  *ref.Node   `json:"ref_alt"`
	Boots   []*ref.Node `json:"boots"`
	BootAlt []*ref.Node `json:"boots_alt"`
	Mem     []int       `json:"mem,omitempty"` // in-memory re-rootings of the parsed trees (0 = none)
	RefHist []ops.Op    `json:"ref_history,omitempty"` // the reference tree was indexed (analysed before) and then edited in memory, tip set kept
}

func baseOpts(thorough bool) gen.Opts {
	// supports present on the input trees (e.g. values of an earlier analysis) must be replaced, not accumulated
	o := gen.Opts{MinTips: 4, MaxTips: 10, BigTips: 24, Rooted: -1, MaxDeg: 5, Lens: gen.AnyPresence, LenVals: gen.DyadicZ, Sups: gen.AnyPresence, InnerNames: gen.None}
	if thorough {
		o.BigTips = 80
	}
	return o
}

func rootOnBranch(t *rapid.T, m *ref.Node) *ref.Node {
	c := m.Clone()
	all := c.All()
	x := all[rapid.IntRange(1, len(all)-1).Draw(t, "rootbranch")]
	p := c.Parents()[x]
	mid := &ref.Node{Ch: []*ref.Node{x}}
	for i, ch := range p.Ch {
		if ch == x {
			p.Ch[i] = mid
		}
	}
	r := ref.RerootAt(c, mid)
	var fix func(n *ref.Node)
	fix = func(n *ref.Node) {
		for i, c := range n.Ch {
			for !c.IsTip() && len(c.Ch) == 1 {
				c = c.Ch[0]
				n.Ch[i] = c
			}
			fix(c)
		}
	}
	fix(r)
	return r
}

func present(t *rapid.T, m *ref.Node) *ref.Node {
	switch rapid.IntRange(0, 2).Draw(t, "present") {
	case 0:
		return gen.Represent(t, m)
	case 1:
		return rootOnBranch(t, m)
	}
	return m.Clone()
}

func genCase(t *rapid.T, thorough bool) Case {
	base := gen.Tree(t, baseOpts(thorough))
	c := Case{Ref: base}
	c.RefAlt = present(t, base)
	n := rapid.IntRange(1, 10).Draw(t, "nboot")
	for i := 0; i < n; i++ {
		var b *ref.Node
		if rapid.IntRange(0, 5).Draw(t, "unrelated") == 0 {
			// far tree: many perturbations
			b = gen.Perturb(t, base, rapid.IntRange(4, 10).Draw(t, "far"), true, gen.DyadicZ)
		} else {
			b = gen.Perturb(t, base, rapid.IntRange(0, 3).Draw(t, "near"), true, gen.DyadicZ)
		}
		c.Boots = append(c.Boots, present(t, b))
	}
	for _, b := range rapid.Permutation(c.Boots).Draw(t, "perm") {
		c.BootAlt = append(c.BootAlt, present(t, b))
	}
	if rapid.Bool().Draw(t, "mem") {
		c.Mem = rapid.SliceOfN(rapid.IntRange(0, 50), 1, 6).Draw(t, "memsel")
	}
	if rapid.IntRange(0, 3).Draw(t, "hashist") == 1 {
		c.RefHist = ops.GenHistoryOf(t, ops.SameTaxa, 3)
	}
	return c
}

func feed(models []*ref.Node) (<-chan tree.Trees, error) {
	ch := make(chan tree.Trees, len(models)+1)
	for i, m := range models {
		t, err := parseMem(m, i+1)
		if err != nil {
			return nil, err
		}
		ch <- tree.Trees{Tree: t, Id: i}
	}
	close(ch)
	return ch, nil
}

type want struct {
	fbp, tbe float64
	p        int
	minBetween bool
}

// expected computes, for every non-trivial split of the reference tree, FBP and TBE by
// their definitions (brute force over all bootstrap branches with Hamming distances).
func expected(tx *ref.Taxa, refm *ref.Node, boots []*ref.Node) (map[string]want, error) {
	n := tx.N()
	cl, err := tx.Clades(refm)
	if err != nil {
		return nil, err
	}
	var bootClades [][]ref.Bits
	var bootSplits []map[string]bool
	for _, b := range boots {
		bc, err := tx.Clades(b)
		if err != nil {
			return nil, err
		}
		var list []ref.Bits
		set := map[string]bool{}
		b.Walk(func(x, p *ref.Node) {
			if p != nil {
				list = append(list, bc[x])
				k := bc[x].Count()
				if k >= 2 && n-k >= 2 {
					set[tx.Canon(bc[x])] = true
				}
			}
		})
		bootClades = append(bootClades, list)
		bootSplits = append(bootSplits, set)
	}
	out := map[string]want{}
	refm.Walk(func(x, par *ref.Node) {
		if par == nil || x.IsTip() {
			return
		}
		c := cl[x]
		k := c.Count()
		light := c
		p := k
		if n-k < k {
			light = tx.Complement(c)
			p = n - k
		}
		if p < 2 {
			return
		}
		key := tx.Canon(c)
		found := 0
		sum := 0
		between := false
		for bi := range boots {
			if bootSplits[bi][key] {
				found++
			}
			best := p - 1
			for _, bc := range bootClades[bi] {
				hd := 0
				for i := 0; i < n; i++ {
					if light.Has(i) != bc.Has(i) {
						hd++
					}
				}
				if n-hd < hd {
					hd = n - hd
				}
				if hd < best {
					best = hd
				}
			}
			if best > 0 && best < p-1 {
				between = true
			}
			sum += best
		}
		nb := float64(len(boots))
		out[key] = want{fbp: float64(found) / nb, tbe: 1.0 - (float64(sum)/nb)/float64(p-1), p: p, minBetween: between}
	})
	return out, nil
}

// supports returns split key -> supports found on the reference tree's inner branches
// (read from its Newick text), and whether any tip branch carries a support.
func supports(tx *ref.Taxa, rt *tree.Tree) (map[string][]float64, map[string]int, error) {
	m, err := gt.Read(rt)
	if err != nil {
		return nil, nil, err
	}
	cl, err := tx.Clades(m)
	if err != nil {
		return nil, nil, err
	}
	pairs, err := gt.PairEdges(rt, m)
	if err != nil {
		return nil, nil, err
	}
	out := map[string][]float64{}
	cnt := map[string]int{}
	for _, p := range pairs {
		if p.M.IsTip() {
			if p.E.Support() != tree.NIL_SUPPORT || p.M.Sup != nil {
				return nil, nil, fmt.Errorf("tip branch %q carries support %v", p.M.Name, p.E.Support())
			}
			continue
		}
		k := tx.Canon(cl[p.M])
		cnt[k]++
		if p.M.Sup != nil {
			out[k] = append(out[k], *p.M.Sup)
		} else if p.E.Support() != tree.NIL_SUPPORT {
			return nil, nil, fmt.Errorf("support %v on the branch above %v is not shown in the text", p.E.Support(), tx.NamesOf(cl[p.M]))
		}
	}
	return out, cnt, nil
}

func near(a, b float64) bool { return math.Abs(a-b) <= 1e-12 }

func runOne(refm *ref.Node, boots []*ref.Node, tx *ref.Taxa, exp map[string]want, label string) error {
	ctx := func() string {
		s := "\n [" + label + "] ref " + ref.Write(refm)
		for _, b := range boots {
			s += "\n boot " + ref.Write(b)
		}
		return s
	}
	// FBP
	rt, err := parseMem(refm, 0)
	if err != nil {
		return err
	}
	ch, err := feed(boots)
	if err != nil {
		return err
	}
	if err := support.FBP(rt, ch, 1, nil); err != nil {
		return fmt.Errorf("FBP failed: %v%s", err, ctx())
	}
	fb, fcnt, err := supports(tx, rt)
	if err != nil {
		return fmt.Errorf("FBP: %v%s", err, ctx())
	}
	// TBE, called like cmd/booster.go does
	rt2, err := parseMem(refm, 0)
	if err != nil {
		return err
	}
	if err := rt2.ReinitIndexes(); err != nil {
		return err
	}
	ch, err = feed(boots)
	if err != nil {
		return err
	}
	if _, err := support.TBE(rt2, ch, 1, false, false, false, 0.3, nil, nil); err != nil {
		return fmt.Errorf("TBE failed: %v%s", err, ctx())
	}
	tb, _, err := supports(tx, rt2)
	if err != nil {
		return fmt.Errorf("TBE: %v%s", err, ctx())
	}
	for k, w := range exp {
		f, t := fb[k], tb[k]
		if len(f) != fcnt[k] || len(t) != fcnt[k] || fcnt[k] == 0 {
			return fmt.Errorf("split %v: %d branches, %d FBP and %d TBE supports%s", tx.KeyNames(k), fcnt[k], len(f), len(t), ctx())
		}
		for _, v := range f {
			if v != w.fbp {
				return fmt.Errorf("split %v: FBP %v, definition gives %v%s", tx.KeyNames(k), v, w.fbp, ctx())
			}
		}
		for _, v := range t {
			if !near(v, w.tbe) {
				return fmt.Errorf("split %v (p=%d): TBE %v, definition gives %v%s", tx.KeyNames(k), w.p, v, w.tbe, ctx())
			}
			if v < -1e-12 || v > 1+1e-12 {
				return fmt.Errorf("split %v: TBE %v outside [0,1]%s", tx.KeyNames(k), v, ctx())
			}
			if v < f[0]-1e-12 {
				return fmt.Errorf("split %v: TBE %v below FBP %v%s", tx.KeyNames(k), v, f[0], ctx())
			}
			if (v == 1) != (f[0] == 1) {
				return fmt.Errorf("split %v: TBE %v but FBP %v%s", tx.KeyNames(k), v, f[0], ctx())
			}
		}
	}
	// no support on trivial inner splits for TBE
	for k, v := range tb {
		if _, ok := exp[k]; !ok && len(v) > 0 {
			return fmt.Errorf("TBE support %v on a branch whose split %v is trivial%s", v, tx.KeyNames(k), ctx())
		}
	}
	return nil
}

func check(c Case) error {
	memSel = c.Mem
	defer func() { memSel = nil }()
	for k := range editedFrom {
		delete(editedFrom, k)
	}
	if len(c.RefHist) > 0 {
		_, m2, ok, err := ops.Edited(c.Ref, c.RefHist, false)
		if err != nil {
			return err
		}
		if ok {
			editedFrom[m2] = recipe{c.Ref, c.RefHist}
			c.Ref, c.RefAlt = m2, m2
		}
	}
	tx, err := ref.NewTaxa(c.Ref.Tips())
	if err != nil {
		return err
	}
	exp, err := expected(tx, c.Ref, c.Boots)
	if err != nil {
		return err
	}
	if err := runOne(c.Ref, c.Boots, tx, exp, "as generated"); err != nil {
		return err
	}
	// invariance: other presentation of the reference, permuted and re-presented bootstrap trees
	expAlt, err := expected(tx, c.RefAlt, c.BootAlt)
	if err != nil {
		return err
	}
	for k, w := range exp {
		if a, ok := expAlt[k]; ok && (a.fbp != w.fbp || !near(a.tbe, w.tbe)) {
			return fmt.Errorf("harness: definitions not invariant")
		}
	}
	return runOne(c.RefAlt, c.BootAlt, tx, expAlt, "permuted / re-rooted")
}

func TestC10Support(t *testing.T) {
	h.Run(t, h.Spec[Case]{
		Property: "C10", Name: "support", Quick: 4000, Thorough: 200000,
		Rule: "reference tree (4..10 tips, 5% up to 24/80, rooted or not, multifurcating) with 1..10 bootstrap trees obtained by 0..3 (near) or 4..10 (far) NNI/contract/refine/swap perturbations, each re-rooted at a node, rooted on a branch or as is; in a quarter of the cases the reference tree is an object that was indexed and then edited in memory by 1-3 operations keeping the tip set (names exchanged, NNI, re-root, ShuffleTips ...), the oracle using the model read back; FBP and TBE (1 thread, called like the commands) against brute-force definitions (split membership; min over all bootstrap branches of min(H, n-H)); laws 0<=FBP<=TBE<=1, TBE=1 <=> FBP=1, no support on tip/trivial branches; repeated on a permuted, re-presented copy; non-trivial = some reference split is absent from a bootstrap tree with transfer distance strictly between 0 and p-1",
		Gen:   genCase,
		Check: check,
		Classify: func(c Case) (bool, []string) {
			tx, err := ref.NewTaxa(c.Ref.Tips())
			if err != nil {
				return false, nil
			}
			exp, err := expected(tx, c.Ref, c.Boots)
			if err != nil {
				return false, nil
			}
			nt := false
			var l []string
			for _, w := range exp {
				if w.minBetween {
					nt = true
				}
				if w.p*2 == tx.N() {
					l = append(l, "balanced-split")
				}
			}
			if len(c.Ref.Ch) == 2 {
				l = append(l, "rooted-reference")
			}
			for _, b := range c.Boots {
				if b.MaxDegree() > 3 {
					l = append(l, "multifurcating-bootstrap")
					break
				}
			}
			return nt, l
		},
	})
}

// ---------------------------------------------------------------------------------------

type RejCase struct {
	Ref   *ref.Node   `json:"ref"`
	Boots []*ref.Node `json:"boots"`
	Kind  string      `json:"kind"`
	Pos   int         `json:"pos"`
}

func checkRej(c RejCase) error {
	pos := c.Pos % len(c.Boots)
	mk := func() <-chan tree.Trees {
		ch := make(chan tree.Trees, len(c.Boots)+1)
		for i, m := range c.Boots {
			if c.Kind == "error-record" && i == pos {
				ch <- tree.Trees{Id: i, Err: errors.New("injected")}
				continue
			}
			t, _ := gt.FromModel(m)
			ch <- tree.Trees{Tree: t, Id: i}
		}
		close(ch)
		return ch
	}
	rt, err := gt.FromModel(c.Ref)
	if err != nil {
		return err
	}
	if err := support.FBP(rt, mk(), 1, nil); err == nil {
		return fmt.Errorf("FBP accepts a stream with %s at position %d of %d\n ref %s\n bad %s", c.Kind, pos, len(c.Boots), ref.Write(c.Ref), ref.Write(c.Boots[pos]))
	}
	rt2, _ := gt.FromModel(c.Ref)
	rt2.ReinitIndexes()
	if _, err := support.TBE(rt2, mk(), 1, false, false, false, 0.3, nil, nil); err == nil {
		return fmt.Errorf("TBE accepts a stream with %s at position %d of %d\n ref %s\n bad %s", c.Kind, pos, len(c.Boots), ref.Write(c.Ref), ref.Write(c.Boots[pos]))
	}
	return nil
}

func TestC10Reject(t *testing.T) {
	h.Run(t, h.Spec[RejCase]{
		Property: "C10", Name: "reject", Quick: 2000, Thorough: 60000,
		Rule: "bootstrap streams of 1..6 trees with one tree on another taxon set (one tip renamed / added / removed / named like another tip) or an error record at every position: FBP and TBE (1 thread) must return an error; every case is non-trivial",
		Timeout: 30e9,
		Gen: func(t *rapid.T, thorough bool) RejCase {
			o := baseOpts(false)
			o.MinTips = 5
			base := gen.Tree(t, o)
			c := RejCase{Ref: base, Kind: rapid.SampledFrom([]string{"renamed", "added", "removed", "duplicate", "error-record"}).Draw(t, "kind"), Pos: rapid.IntRange(0, 5).Draw(t, "pos")}
			n := rapid.IntRange(1, 6).Draw(t, "n")
			for i := 0; i < n; i++ {
				c.Boots = append(c.Boots, gen.Perturb(t, base, rapid.IntRange(0, 2).Draw(t, "np"), true, gen.DyadicZ))
			}
			pos := c.Pos % n
			m := c.Boots[pos]
			switch c.Kind {
			case "renamed":
				m.TipNodes()[rapid.IntRange(0, len(m.Tips())-1).Draw(t, "rt")].Name = "zz_other"
			case "duplicate":
				tn := m.TipNodes()
				i, j := rapid.IntRange(0, len(tn)-1).Draw(t, "d1"), rapid.IntRange(0, len(tn)-1).Draw(t, "d2")
				if i == j {
					tn[i].Name = "zz_other"
				} else {
					tn[i].Name = tn[j].Name
				}
			case "added":
				x := m.TipNodes()[rapid.IntRange(0, len(m.Tips())-1).Draw(t, "at")]
				x.Ch = []*ref.Node{{Name: x.Name}, {Name: "zz_extra"}}
				x.Name = ""
			case "removed":
				tips := m.Tips()
				drop := tips[rapid.IntRange(0, len(tips)-1).Draw(t, "dt")]
				c.Boots[pos] = ref.Restrict(m, func(n string) bool { return n != drop })
			}
			return c
		},
		Check: checkRej,
		Classify: func(c RejCase) (bool, []string) {
			pos := c.Pos % len(c.Boots)
			where := "middle"
			if pos == 0 {
				where = "first"
			}
			if pos == len(c.Boots)-1 {
				where = "last"
			}
			return true, []string{"kind:" + c.Kind, "pos:" + where}
		},
	})
}

// ---------------------------------------------------------------------------------------
// command level: gotree compute support fbp | tbe -i ref -b boots [-t n]

type CliCase struct {
	Ref     *ref.Node   `json:"ref"`
	Boots   []*ref.Node `json:"boots"`
	Method  string      `json:"method"` // fbp | tbe | classical | booster
	Threads int         `json:"threads"`
	Extra  []string `json:"extra,omitempty"` // further options of tbe / booster: -r raw.nw, --moved-taxa, --per-branches, -l log file
	Bad    string   `json:"bad,omitempty"`   // "" | mismatch (a bootstrap tree on other taxa) | broken (a record that is not a tree)
	BadPos int      `json:"bad_pos,omitempty"`
}

// supportsOfModel lists, per split, the supports shown in a Newick text.
func supportsOfModel(tx *ref.Taxa, m *ref.Node) (map[string][]float64, error) {
	cl, err := tx.Clades(m)
	if err != nil {
		return nil, err
	}
	out := map[string][]float64{}
	var rerr error
	m.Walk(func(x, p *ref.Node) {
		if p == nil {
			return
		}
		if x.IsTip() {
			if x.Sup != nil {
				rerr = fmt.Errorf("tip branch %q carries support %v", x.Name, *x.Sup)
			}
			return
		}
		if x.Sup != nil {
			k := tx.Canon(cl[x])
			out[k] = append(out[k], *x.Sup)
		}
	})
	return out, rerr
}

func checkCli(c CliCase) error {
	if !cli.Available() {
		return fmt.Errorf("harness: gotree binary not built")
	}
	tx, err := ref.NewTaxa(c.Ref.Tips())
	if err != nil {
		return err
	}
	exp, err := expected(tx, c.Ref, c.Boots)
	if err != nil {
		return err
	}
	dir := cli.Scratch()
	var boots strings.Builder
	for i, m := range c.Boots {
		if c.Bad != "" && i == c.BadPos%len(c.Boots) {
			if c.Bad == "mismatch" {
				mm := m.Clone()
				mm.TipNodes()[c.BadPos%len(mm.TipNodes())].Name = "zz_other"
				boots.WriteString(ref.Write(mm) + "\n")
			} else {
				boots.WriteString("((a,b),c;\n")
			}
			continue
		}
		// lines of the bootstrap file may end with blanks or tabs after the ';'
		boots.WriteString(ref.Write(m) + []string{"", "", "\t", " ", " \t", "\t \t"}[(i+len(c.Boots))%6] + "\n")
	}
	args := []string{"compute", "support", c.Method, "-i", cli.WriteIn(dir, "ref.nw", ref.Write(c.Ref)+"\n"), "-b", cli.WriteIn(dir, "boot.nw", boots.String()), "-t", strconv.Itoa(c.Threads), "--silent"}
	toFile := len(c.Boots)%3 == 0
	if toFile {
		args = append(args, "-o", "sup.nw")
	}
	if c.Method == "tbe" || c.Method == "booster" {
		args = append(args, c.Extra...)
	}
	r := cli.Run(dir, "", args...)
	ctx := fmt.Sprintf(" (gotree %v)\n ref %s\n%s", args, ref.Write(c.Ref), boots.String())
	if c.Bad != "" {
		// a bootstrap tree on other taxa, or a record that is not a tree: no support can be given
		if r.TimedOut || r.Panicked() {
			return fmt.Errorf("the command hangs or crashes on a bad bootstrap tree (%s at position %d): %s%s", c.Bad, c.BadPos%len(c.Boots), r.Stderr, ctx)
		}
		if r.Code == 0 {
			return fmt.Errorf("a bad bootstrap tree (%s at position %d) is not reported: exit status 0, output %q%s", c.Bad, c.BadPos%len(c.Boots), r.Stdout+cli.Read(dir, "sup.nw"), ctx)
		}
		return nil
	}
	if r.Code != 0 || r.TimedOut {
		return fmt.Errorf("command failed with status %d: %s%s", r.Code, r.Stderr, ctx)
	}
	if toFile {
		r.Stdout = cli.Read(dir, "sup.nw")
	}
	m, err := ref.Parse(strings.TrimRight(r.Stdout, "\r\n"))
	if err != nil {
		return fmt.Errorf("output not readable: %v%s", err, ctx)
	}
	got, err := supportsOfModel(tx, m)
	if err != nil {
		return fmt.Errorf("%v%s", err, ctx)
	}
	tbe := c.Method == "tbe" || c.Method == "booster"
	for k, w := range exp {
		g := got[k]
		if len(g) == 0 {
			return fmt.Errorf("no support printed for split %v%s\n output %s", tx.KeyNames(k), ctx, r.Stdout)
		}
		for _, v := range g {
			want := w.fbp
			if tbe {
				want = w.tbe
			}
			if !near(v, want) {
				return fmt.Errorf("split %v: %s support %v, definition gives %v%s", tx.KeyNames(k), c.Method, v, want, ctx)
			}
		}
	}
	if tbe {
		for k, v := range got {
			if _, ok := exp[k]; !ok && len(v) > 0 {
				return fmt.Errorf("TBE support %v on a branch whose split %v is trivial%s", v, tx.KeyNames(k), ctx)
			}
		}
	}
	return nil
}

func TestC10Cli(t *testing.T) {
	h.Run(t, h.Spec[CliCase]{
		Property: "C10", Name: "cli", Quick: 1600, Thorough: 32000,
		Rule: "the same reference + bootstrap collections through `gotree compute support fbp|classical|tbe|booster -i ref -b boots -t 1..8`: the supports printed in the output tree are compared, split by split, with the brute-force definitions, for tbe / booster also with -r raw tree, -l log file, --moved-taxa, --per-branches; in one case in five a bootstrap tree is on other taxa or is not a tree: the command must end with a non-zero status; non-trivial = >= 2 bootstrap trees",
		Gen: func(t *rapid.T, thorough bool) CliCase {
			b := genCase(t, false)
			c := CliCase{Ref: b.Ref, Boots: b.Boots, Method: rapid.SampledFrom([]string{"fbp", "tbe", "classical", "booster"}).Draw(t, "method"), Threads: rapid.SampledFrom([]int{1, 1, 2, 4, 8}).Draw(t, "threads")}
			if rapid.Bool().Draw(t, "rawout") {
				c.Extra = append(c.Extra, "-r", "raw.nw")
			}
			if rapid.Bool().Draw(t, "logs") {
				c.Extra = append(c.Extra, "-l", "tbe.log")
				if rapid.Bool().Draw(t, "moved") {
					c.Extra = append(c.Extra, "--moved-taxa")
				}
				if rapid.Bool().Draw(t, "perbr") {
					c.Extra = append(c.Extra, "--per-branches")
				}
			}
			if rapid.IntRange(0, 4).Draw(t, "hasbad") == 2 {
				c.Bad = rapid.SampledFrom([]string{"mismatch", "broken"}).Draw(t, "bad")
				c.BadPos = rapid.IntRange(0, 20).Draw(t, "badpos")
			}
			return c
		},
		Check: checkCli,
		Classify: func(c CliCase) (bool, []string) {
			return len(c.Boots) >= 2, []string{"method:" + c.Method, fmt.Sprintf("threads:%d", c.Threads), "bad:" + c.Bad, fmt.Sprintf("extra-options:%d", len(c.Extra))}
		},
	})
}
