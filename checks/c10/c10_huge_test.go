package c10

import (
	"fmt"
	"testing"

	"verif/internal/big"
	"verif/internal/h"
	"verif/internal/ref"
)

// huge: constructed trees of 2100-2500 tips (internal/big) and variants of them that differ by
// nearest-neighbour interchanges at a few dozen branches - more branches than the 2000 the tree
// code preallocates room for - judged by the same oracle as the drawn cases.

type HugeCase struct {
	Shape string `json:"shape"`
	N     int    `json:"n"`
	K     int    `json:"k"`
}

func checkHuge(c HugeCase) error {
	m := big.Model(c.Shape, c.N)
	v1 := big.Variant(m, c.K, 53)
	boots := []*ref.Node{v1, big.Represent(m)}
	alt := []*ref.Node{m, big.Represent(v1)}
	return check(Case{Ref: m, RefAlt: big.Represent(m), Boots: boots, BootAlt: alt})
}

func TestC10Huge(t *testing.T) {
	r := h.NewRecorder(t, "C10", "huge", "a constructed reference tree (binary 1010, caterpillar 1005 tips - just above 2000 branches; thorough: also bushy 2100, binary 2050) with two bootstrap trees (itself re-presented, a variant differing by interchanges at one branch in 53): FBP and TBE of every inner branch against the definitions computed on the reference model, order / presentation independence; every case is non-trivial")
	var rc HugeCase
	if replaying, mine := r.ReplayCase(&rc); replaying {
		if mine {
			r.Replayed(checkHuge(rc))
		}
		return
	}
	// the brute-force transfer distances are cubic in the number of tips: 1010 tips (2017 branches)
	// in the quick tier, 2050 in the thorough one
	cases := []HugeCase{{Shape: "binary", N: 1010}, {Shape: "caterpillar", N: 1005}}
	if h.Thorough() {
		cases = append(cases, HugeCase{Shape: "bushy", N: 2100}, HugeCase{Shape: "binary", N: 2050})
	}
	for k, c := range cases {
		if k%h.NShards() != h.Shard() {
			continue
		}
		c.K = int(h.Seed())
		c := c
		var err error
		if gerr := r.Guard(c, 600e9, func() error { err = checkHuge(c); return nil }); gerr != nil {
			err = gerr
		}
		r.Eval(c, true, fmt.Sprintf("shape:%s", c.Shape))
		if err != nil {
			msg := err.Error()
			if len(msg) > 900 {
				msg = msg[:900] + "..."
			}
			r.Fail(c, "%s", msg)
		}
	}
}

var _ = ref.Write
