package c04

import (
	"fmt"
	"testing"

	"pgregory.net/rapid"

	"verif/internal/big"
	"verif/internal/h"
	"verif/internal/ops"
)

// huge: constructed trees of 2001-2500 tips (internal/big: star, a node with more than 2000 children,
// caterpillar, bushy, binary) - at and above the 2000-element capacities the tree code preallocates
// for its lists of branches, nodes and tips - judged by the same oracles as the drawn cases.

type HugeCase struct {
	Shape string `json:"shape"`
	N     int    `json:"n"`
	What  string `json:"what"`
	K     int    `json:"k"`
}

func hugeCases() []HugeCase {
	var l []HugeCase
	for _, s := range []struct {
		shape string
		n     int
	}{{"star", 2001}, {"wide", 2005}, {"caterpillar", 2100}, {"bushy", 2500}, {"binary", 2100}, {"binary", 4100}} {
		l = append(l, HugeCase{Shape: s.shape, N: s.n, What: "index-edit-index", K: len(l)})
	}
	return l
}

func checkHuge(c HugeCase) error {
	m := big.Model(c.Shape, c.N)
	// 3 drawn edits after the first indexing (the indexes are recomputed and judged after each)
	hist := rapid.Custom(func(t *rapid.T) []ops.Op {
		return rapid.SliceOfN(rapid.Custom(func(t *rapid.T) ops.Op { return ops.GenOp(t, ops.Kinds) }), 3, 3).Draw(t, "ops")
	}).Example(c.N + c.K)
	return checkExact(ExactCase{Tree: m, Ops: hist})
}

func TestC04Huge(t *testing.T) {
	r := h.NewRecorder(t, "C04", "huge", "constructed trees (star 2001, a 2001-child node in a small tree, caterpillar 2100, bushy 2500, binary 2100 and 4100 tips): indexes computed, judged branch by branch against the reference reading (bitsets of 32-65 words, tip counts, depths), then after each of 3 drawn edits; every case is non-trivial")
	var rc HugeCase
	if replaying, mine := r.ReplayCase(&rc); replaying {
		if mine {
			r.Replayed(checkHuge(rc))
		}
		return
	}
	k := 0
	for _, c := range hugeCases() {
		k++
		if k%h.NShards() != h.Shard() {
			continue
		}
		c.K = int(h.Seed())*10 + c.K
		c := c
		var err error
		if gerr := r.Guard(c, 300e9, func() error { err = checkHuge(c); return nil }); gerr != nil {
			err = gerr
		}
		r.Eval(c, true, "what:"+c.What, fmt.Sprintf("shape:%s", c.Shape))
		if err != nil {
			msg := err.Error()
			if len(msg) > 900 {
				msg = msg[:900] + "..."
			}
			r.Fail(c, "%s", msg)
		}
	}
}

var _ = rapid.Bool
var _ = ops.Kinds
