package c04

import (
	"fmt"
	"testing"

	"verif/internal/big"
	"verif/internal/gt"
	"verif/internal/h"
	"verif/internal/ref"
)

// giant (thorough tier only): trees with more than 65535 tips - the next size boundary after the
// machine word of the bitsets: counts kept in 16 bits wrap there. The full comparison of every
// recorded split with the reference reading would need gigabytes; what is judged branch by branch
// is what can be judged in linear time: the two tip counts (against the size of the subtree in the
// model), their sum, and the topological depth.

type GiantCase struct {
	Shape string `json:"shape"`
	N     int    `json:"n"`
}

func checkGiant(c GiantCase) error {
	m := big.Model(c.Shape, c.N)
	t, err := gt.FromModel(m)
	if err != nil {
		return err
	}
	if err := t.ReinitIndexes(); err != nil {
		return fmt.Errorf("ReinitIndexes on a tree with %d tips: %v", c.N, err)
	}
	pairs, err := gt.PairEdges(t, m)
	if err != nil {
		return err
	}
	size := map[*ref.Node]int{}
	var count func(x *ref.Node) int
	count = func(x *ref.Node) int {
		if x.IsTip() {
			size[x] = 1
			return 1
		}
		k := 0
		for _, ch := range x.Ch {
			k += count(ch)
		}
		size[x] = k
		return k
	}
	count(m)
	for _, p := range pairs {
		below := size[p.M]
		r, l := p.E.NumTipsRight(), p.E.NumTipsLeft()
		if r != below || l != c.N-below {
			return fmt.Errorf("%s tree with %d tips: a branch with %d tips below it records %d / %d tips on its two sides", c.Shape, c.N, below, r, l)
		}
		want := below
		if c.N-below < want {
			want = c.N - below
		}
		if d, err := p.E.TopoDepth(); err != nil || d != want {
			return fmt.Errorf("%s tree with %d tips: a branch with %d tips below it has topological depth %d (%v), expected %d", c.Shape, c.N, below, d, err, want)
		}
	}
	return nil
}

func TestC04Giant(t *testing.T) {
	r := h.NewRecorder(t, "C04", "giant", "thorough tier only: a bushy tree (2-4 children per node) with 66000 tips and a rooted binary tree with 70001 tips (internal/big), indexed: for every branch the recorded tip counts of both sides equal the sizes found in the model, they add up to the number of tips, and the topological depth is the smaller one; every case is non-trivial")
	var rc GiantCase
	if replaying, mine := r.ReplayCase(&rc); replaying {
		if mine {
			r.Replayed(checkGiant(rc))
		}
		return
	}
	if !h.Thorough() {
		return
	}
	for k, c := range []GiantCase{{"bushy", 66000}, {"binary", 70001}} {
		if (k+3)%h.NShards() != h.Shard() {
			continue
		}
		var err error
		if gerr := r.Guard(c, 900e9, func() error { err = checkGiant(c); return nil }); gerr != nil {
			err = gerr
		}
		r.Eval(c, true, "shape:"+c.Shape)
		if err != nil {
			r.Fail(c, "%v", err)
		}
	}
}
