package c04

import (
	"fmt"
	"sort"
	"testing"

	"pgregory.net/rapid"

	"github.com/evolbioinfo/gotree/hashmap"
	"github.com/evolbioinfo/gotree/tree"

	"verif/internal/gen"
	"verif/internal/gt"
	"verif/internal/h"
	"verif/internal/ops"
	"verif/internal/ref"
)

func TestMain(m *testing.M) { h.Main(m) }

func treeOpts(thorough bool) gen.Opts {
	o := gen.Opts{MinTips: 3, MaxTips: 12, BigTips: 80, Rooted: -1, MaxDeg: 6, Lens: gen.AnyPresence, LenVals: gen.DyadicZ, Sups: gen.AnyPresence}
	if thorough {
		o.BigTips = 300
	}
	return o
}

// ---------------------------------------------------------------------------------------
// 1. per-tree exactness, directly and after edit histories

type ExactCase struct {
	Tree *ref.Node `json:"tree"`
	Ops  []ops.Op  `json:"ops"`
}

// exact compares every branch's recorded split with the reference reading of the text.
func exact(t *tree.Tree) error { return gt.IndexesExact(t) }

func checkExact(c ExactCase) error {
	t, err := gt.FromModel(c.Tree)
	if err != nil {
		return err
	}
	if err := t.ReinitIndexes(); err != nil {
		return fmt.Errorf("ReinitIndexes: %v", err)
	}
	if err := exact(t); err != nil {
		return fmt.Errorf("fresh tree %s: %v", ref.Write(c.Tree), err)
	}
	// recomputing the indexes of an indexed tree changes nothing
	if err := t.ReinitIndexes(); err != nil {
		return fmt.Errorf("second ReinitIndexes: %v", err)
	}
	if err := exact(t); err != nil {
		return fmt.Errorf("after a second ReinitIndexes on %s: %v", ref.Write(c.Tree), err)
	}
	st := ops.State{T: t}
	indexed := true
	var watched []*tree.Tree
	for i, op := range c.Ops {
		before := st.T.Newick()
		obj := st.T
		status, err := ops.Apply(&st, op)
		if status == ops.Skipped {
			continue
		}
		if status == ops.Failed {
			if st.T, err = gt.Parse(before); err != nil {
				return err
			}
			indexed = false
			continue
		}
		if len(st.T.Tips()) < 3 {
			break
		}
		// operations that recompute the indexes themselves (they end with ReinitIndexes or
		// UpdateTipIndex + ReinitInternalIndexes) must leave them describing the new tree when
		// the tree was indexed before
		if indexed && st.T == obj && selfRefreshing[op.Kind] {
			if err := exact(st.T); err != nil {
				return fmt.Errorf("step %d (%s) recomputes the indexes itself, but right after it (before any ReinitIndexes) they do not describe the tree: %v\n before %s\n after  %s", i, op.Kind, err, before, st.T.Newick())
			}
		}
		if st.T != obj && indexed && (op.Kind == "clone" || op.Kind == "subtree") {
			// the history continues on a copy: the indexed source is kept and must stay exact
			// while its copy is edited and re-indexed
			watched = append(watched, obj)
		}
		indexed = true
		if err := st.T.ReinitIndexes(); err != nil {
			return fmt.Errorf("ReinitIndexes after step %d (%s): %v", i, op.Kind, err)
		}
		if err := exact(st.T); err != nil {
			return fmt.Errorf("after step %d (%s) from %s: %v", i, op.Kind, before, err)
		}
		for _, w := range watched {
			if err := exact(w); err != nil {
				return fmt.Errorf("step %d (%s) on a copy, followed by re-indexing the copy, corrupted the indexes of the source tree %s: %v", i, op.Kind, w.Newick(), err)
			}
		}
	}
	return nil
}

var selfRefreshing = map[string]bool{"reroot": true, "outgroup": true, "midpoint": true, "unroot": true, "prune": true, "collapse_len": true,
	"collapse_sup": true, "collapse_depth": true, "resolve": true, "single_nodes": true, "identical": true, "shuffle_tips": true, "merge": true}

var editKinds = []string{"reroot", "outgroup", "midpoint", "unroot", "prune", "collapse_len", "collapse_sup", "collapse_depth",
	"resolve", "rotate", "sort", "graft", "merge", "identical", "single_nodes", "nni", "nni_undo", "rename", "shuffle_tips", "clone", "subtree"}

func TestC04Exact(t *testing.T) {
	h.Run(t, h.Spec[ExactCase]{
		Property: "C04", Name: "exact", Quick: 6000, Thorough: 200000,
		Rule: "trees on 3..12 unique tips (5% up to 80/300, so that bitsets need a second word) indexed after parsing and after each step of an edit history of 0..8 operations; every branch's bitset, tip counts, depth and the tip ranks are compared with the clades of the reference reading of the Newick text; non-trivial = >=1 inner split and >=1 successful edit",
		Gen: func(t *rapid.T, thorough bool) ExactCase {
			return ExactCase{Tree: gen.Tree(t, treeOpts(thorough)),
				Ops: rapid.SliceOfN(rapid.Custom(func(t *rapid.T) ops.Op { return ops.GenOp(t, editKinds) }), 0, 8).Draw(t, "ops")}
		},
		Check: checkExact,
		Classify: func(c ExactCase) (bool, []string) {
			var l []string
			n := len(c.Tree.Tips())
			if n > 64 {
				l = append(l, "tips>64")
			}
			if len(c.Tree.Ch) == 2 {
				l = append(l, "rooted")
			}
			if len(c.Ops) > 0 {
				l = append(l, "with-edits")
			}
			return len(c.Tree.Inner()) > 1 && len(c.Ops) > 0, l
		},
	})
}

// ---------------------------------------------------------------------------------------
// 2. equality / hash agreement across presentations

type PairCase struct {
	A *ref.Node `json:"a"`
	B *ref.Node `json:"b"`
}

func indexed(m *ref.Node) (*tree.Tree, []gt.EdgePair, error) {
	t, err := gt.FromModel(m)
	if err != nil {
		return nil, nil, err
	}
	if err := t.ReinitIndexes(); err != nil {
		return nil, nil, err
	}
	p, err := gt.PairEdges(t, m)
	return t, p, err
}

func checkPair(c PairCase) error {
	tx, err := ref.NewTaxa(c.A.Tips())
	if err != nil {
		return err
	}
	_, pa, err := indexed(c.A)
	if err != nil {
		return err
	}
	_, pb, err := indexed(c.B)
	if err != nil {
		return err
	}
	ca, err := tx.Clades(c.A)
	if err != nil {
		return err
	}
	cb, err := tx.Clades(c.B)
	if err != nil {
		return err
	}
	type ent struct {
		e   *tree.Edge
		key string
		who string
	}
	var all []ent
	for _, p := range pa {
		all = append(all, ent{p.E, tx.Canon(ca[p.M]), "A:" + fmt.Sprint(tx.NamesOf(ca[p.M]))})
	}
	for _, p := range pb {
		all = append(all, ent{p.E, tx.Canon(cb[p.M]), "B:" + fmt.Sprint(tx.NamesOf(cb[p.M]))})
	}
	for i := range all {
		for j := range all {
			x, y := all[i], all[j]
			same := x.key == y.key
			if got := x.e.SameBipartition(y.e); got != same {
				return fmt.Errorf("SameBipartition(%s, %s) = %v, reference says %v\n A %s\n B %s", x.who, y.who, got, same, ref.Write(c.A), ref.Write(c.B))
			}
			if got := x.e.HashEquals(y.e); got != same {
				return fmt.Errorf("HashEquals(%s, %s) = %v, reference says %v", x.who, y.who, got, same)
			}
			if same && x.e.HashCode() != y.e.HashCode() {
				return fmt.Errorf("equal splits %s and %s hash differently (%d vs %d)\n A %s\n B %s", x.who, y.who, x.e.HashCode(), y.e.HashCode(), ref.Write(c.A), ref.Write(c.B))
			}
		}
	}
	return nil
}

func genRelatedPair(t *rapid.T, thorough bool) PairCase {
	o := treeOpts(thorough)
	o.BigTips = 70
	base := gen.Tree(t, o)
	b := gen.Perturb(t, base, rapid.IntRange(0, 4).Draw(t, "npert"), true, gen.DyadicZ)
	a := base
	if rapid.Bool().Draw(t, "repA") {
		a = gen.Represent(t, base)
	}
	switch rapid.IntRange(0, 2).Draw(t, "repB") {
	case 0:
		b = gen.Represent(t, b)
	case 1:
		// a rooted presentation: root on a drawn branch
		b = rootOnBranch(t, b)
	}
	return PairCase{a, b}
}

// rootOnBranch returns a rooted presentation (root of degree two on a drawn branch).
func rootOnBranch(t *rapid.T, m *ref.Node) *ref.Node {
	all := m.All()
	x := all[rapid.IntRange(1, len(all)-1).Draw(t, "rootbranch")]
	// insert a node in the middle of x's branch, re-root there
	c := m.Clone()
	call := c.All()
	var idx int
	for i := range all {
		if all[i] == x {
			idx = i
		}
	}
	cx := call[idx]
	p := c.Parents()[cx]
	mid := &ref.Node{Ch: []*ref.Node{cx}}
	if cx.Len != nil {
		half := *cx.Len / 2
		mid.Len = ref.F(half)
		cx.Len = ref.F(half)
	}
	for i, ch := range p.Ch {
		if ch == cx {
			p.Ch[i] = mid
		}
	}
	r := ref.RerootAt(c, mid)
	// suppress the old root if it became a degree-two node
	return suppressInner(r)
}

func suppressInner(r *ref.Node) *ref.Node {
	var rec func(n *ref.Node) *ref.Node
	rec = func(n *ref.Node) *ref.Node {
		for i, c := range n.Ch {
			n.Ch[i] = rec(c)
		}
		return n
	}
	r = rec(r)
	// one pass of suppression below the root
	var fix func(n *ref.Node)
	fix = func(n *ref.Node) {
		for i, c := range n.Ch {
			for !c.IsTip() && len(c.Ch) == 1 {
				g := c.Ch[0]
				if c.Len != nil || g.Len != nil {
					s := 0.0
					if c.Len != nil {
						s += *c.Len
					}
					if g.Len != nil {
						s += *g.Len
					}
					g.Len = ref.F(s)
				}
				c = g
				n.Ch[i] = g
			}
			fix(c)
		}
	}
	fix(r)
	return r
}

func TestC04Pairs(t *testing.T) {
	h.Run(t, h.Spec[PairCase]{
		Property: "C04", Name: "pairs", Quick: 4000, Thorough: 100000,
		Rule: "pairs of related trees on the same taxa (base + 0..4 NNI/contract/refine/shuffle/tip-swap perturbations), each possibly re-rooted at another node, rotated, or rooted on a branch; all ordered pairs of branches of both trees: SameBipartition and HashEquals <=> equal reference splits, equal splits => equal HashCode; non-trivial = both trees have an inner split",
		Gen:   genRelatedPair,
		Check: checkPair,
		Classify: func(c PairCase) (bool, []string) {
			var l []string
			n := len(c.A.Tips())
			if n > 64 {
				l = append(l, "tips>64")
			}
			if len(c.B.Ch) == 2 || len(c.A.Ch) == 2 {
				l = append(l, "rooted-member")
			}
			if n%2 == 0 {
				// balanced split present?
				tx, _ := ref.NewTaxa(c.A.Tips())
				cl, _ := tx.Clades(c.A)
				for _, b := range cl {
					if b.Count()*2 == n {
						l = append(l, "balanced-split")
						break
					}
				}
			}
			return len(c.A.Inner()) > 1 && len(c.B.Inner()) > 1, l
		},
	})
}

// ---------------------------------------------------------------------------------------
// 3. EdgeIndex = map, generic HashMap = map

type IdxOp struct {
	Kind  string  `json:"k"` // add | put | get | edges
	Edge  int     `json:"e"`
	Count int     `json:"c,omitempty"`
	Len   float64 `json:"l,omitempty"`
	Min   int     `json:"min,omitempty"`
	Max   int     `json:"max,omitempty"`
}

type IdxCase struct {
	Trees []*ref.Node `json:"trees"`
	Cap   uint64      `json:"cap"`
	Load  float64     `json:"load"`
	Ops   []IdxOp     `json:"ops"`
}

func checkIdx(c IdxCase) error {
	tx, err := ref.NewTaxa(c.Trees[0].Tips())
	if err != nil {
		return err
	}
	type ent struct {
		e   *tree.Edge
		key string
	}
	var pool []ent
	byKey := map[string][]int{}
	for _, m := range c.Trees {
		_, ps, err := indexed(m)
		if err != nil {
			return err
		}
		cl, err := tx.Clades(m)
		if err != nil {
			return err
		}
		for _, p := range ps {
			k := tx.Canon(cl[p.M])
			byKey[k] = append(byKey[k], len(pool))
			pool = append(pool, ent{p.E, k})
		}
	}
	type val struct {
		count int
		len   float64
	}
	model := map[string]*val{}
	idx := tree.NewEdgeIndex(c.Cap, c.Load)
	for step, op := range c.Ops {
		e := pool[op.Edge%len(pool)]
		switch op.Kind {
		case "add":
			if err := idx.AddEdgeCount(e.e); err != nil {
				return err
			}
			if v := model[e.key]; v == nil {
				model[e.key] = &val{1, e.e.Length()}
			} else {
				v.count++
				v.len += e.e.Length()
			}
		case "put":
			if err := idx.PutEdgeValue(e.e, op.Count, op.Len); err != nil {
				return err
			}
			model[e.key] = &val{op.Count, op.Len}
		case "get":
			got, ok := idx.Value(e.e)
			want := model[e.key]
			if ok != (want != nil) || (ok && (got.Count != want.count || got.Len != want.len)) {
				return fmt.Errorf("step %d: Value = %v,%v; map has %v", step, got, ok, want)
			}
		case "edges":
			n := 0
			for _, v := range model {
				if (v.count > op.Min && v.count <= op.Max) || v.count == op.Max {
					n++
				}
			}
			if got := len(idx.Edges(op.Min, op.Max)); got != n {
				return fmt.Errorf("step %d: Edges(%d,%d) returns %d entries, map has %d", step, op.Min, op.Max, got, n)
			}
		}
		// every stored split is found through every presentation, nothing else is
		if step%4 == 3 || step == len(c.Ops)-1 {
			for k, ids := range byKey {
				want := model[k]
				for _, i := range ids {
					got, ok := idx.Value(pool[i].e)
					if ok != (want != nil) || (ok && (got.Count != want.count || got.Len != want.len)) {
						return fmt.Errorf("after step %d: lookup through another presentation gives %v,%v; map has %v", step, got, ok, want)
					}
				}
			}
			if got := len(idx.Edges(-1<<31, 1<<31)); got != len(model) {
				return fmt.Errorf("after step %d: index holds %d entries, map %d", step, got, len(model))
			}
		}
	}
	return nil
}

func TestC04Index(t *testing.T) {
	h.Run(t, h.Spec[IdxCase]{
		Property: "C04", Name: "index", Quick: 3000, Thorough: 100000,
		Rule: "model-based: EdgeIndex (initial capacity in {1,2,3,5,8,16,128}, load factor in [0.25,4]) against a Go map keyed by the reference split; 1..200 (thorough 400) operations add/put/get/edges over a pool of branches from 2..4 presentations of related trees; after every 4th step every stored split is looked up through every presentation; non-trivial = >=1 resize and a lookup through another presentation",
		Gen: func(t *rapid.T, thorough bool) IdxCase {
			o := treeOpts(thorough)
			o.BigTips = 30
			base := gen.Tree(t, o)
			c := IdxCase{Trees: []*ref.Node{base}}
			k := rapid.IntRange(1, 3).Draw(t, "ntrees")
			for i := 0; i < k; i++ {
				m := gen.Perturb(t, base, rapid.IntRange(0, 3).Draw(t, "npert"), true, gen.DyadicZ)
				c.Trees = append(c.Trees, gen.Represent(t, m))
			}
			c.Cap = rapid.SampledFrom([]uint64{1, 2, 3, 5, 8, 16, 128}).Draw(t, "cap")
			c.Load = rapid.SampledFrom([]float64{0.25, 0.5, 0.75, 1, 2, 4}).Draw(t, "load")
			max := 200
			if thorough {
				max = 400
			}
			c.Ops = rapid.SliceOfN(rapid.Custom(func(t *rapid.T) IdxOp {
				op := IdxOp{Kind: rapid.SampledFrom([]string{"add", "add", "put", "get", "edges"}).Draw(t, "k"), Edge: rapid.IntRange(0, 1000).Draw(t, "e")}
				switch op.Kind {
				case "put":
					op.Count = rapid.IntRange(0, 6).Draw(t, "c")
					op.Len = float64(rapid.IntRange(0, 8).Draw(t, "l")) / 4
				case "edges":
					op.Min = rapid.IntRange(-1, 5).Draw(t, "min")
					op.Max = rapid.IntRange(0, 6).Draw(t, "max")
				}
				return op
			}), 1, max).Draw(t, "ops")
			return c
		},
		Check: checkIdx,
		Classify: func(c IdxCase) (bool, []string) {
			distinct := map[int]bool{}
			for _, op := range c.Ops {
				if op.Kind == "add" || op.Kind == "put" {
					distinct[op.Edge] = true
				}
			}
			resize := float64(len(distinct)) >= float64(c.Cap)*c.Load
			var l []string
			if resize {
				l = append(l, "resize-likely")
			}
			l = append(l, fmt.Sprintf("cap=%d", c.Cap))
			return resize && len(c.Ops) >= 4, l
		},
	})
}

// generic hash map with forced collisions

type key struct {
	id   int
	hash uint64
}

func (k *key) HashCode() uint64              { return k.hash }
func (k *key) HashEquals(o hashmap.Hasher) bool { return o.(*key).id == k.id }

type HMOp struct {
	Put bool `json:"put"`
	ID  int  `json:"id"`
	Val int  `json:"v"`
}
type HMCase struct {
	Cap    uint64  `json:"cap"`
	Load   float64 `json:"load"`
	Hashes []uint64 `json:"hashes"`
	Ops    []HMOp  `json:"ops"`
}

func checkHM(c HMCase) error {
	hm := hashmap.NewHashMap(c.Cap, c.Load)
	model := map[int]int{}
	mk := func(id int) *key { return &key{id, c.Hashes[id%len(c.Hashes)]} }
	for step, op := range c.Ops {
		if op.Put {
			hm.PutValue(mk(op.ID), op.Val)
			model[op.ID] = op.Val
		}
		got, ok := hm.Value(mk(op.ID))
		want, wok := model[op.ID]
		if ok != wok || (ok && got.(int) != want) {
			return fmt.Errorf("step %d: Value(%d) = %v,%v; map has %v,%v", step, op.ID, got, ok, want, wok)
		}
	}
	var ids []int
	for _, k := range hm.Keys() {
		ids = append(ids, k.(*key).id)
	}
	sort.Ints(ids)
	var want []int
	for id := range model {
		want = append(want, id)
	}
	sort.Ints(want)
	if fmt.Sprint(ids) != fmt.Sprint(want) {
		return fmt.Errorf("Keys() = %v, map has %v", ids, want)
	}
	for _, kv := range hm.KeyValues() {
		if model[kv.Key.(*key).id] != kv.Value.(int) {
			return fmt.Errorf("KeyValues(): key %d has value %v, map %v", kv.Key.(*key).id, kv.Value, model[kv.Key.(*key).id])
		}
	}
	for id, v := range model {
		got, ok := hm.Value(mk(id))
		if !ok || got.(int) != v {
			return fmt.Errorf("final lookup of %d: %v,%v; map has %v", id, got, ok, v)
		}
	}
	return nil
}

func TestC04HashMap(t *testing.T) {
	h.Run(t, h.Spec[HMCase]{
		Property: "C04", Name: "hashmap", Quick: 3000, Thorough: 100000,
		Rule: "model-based: hashmap.HashMap with a synthetic Hasher whose hash codes come from a drawn set of 1..4 values (forced collisions) against a Go map; 1..300 put/get operations over 0..40 keys, capacities {1,2,3,5,8,16}, load factors [0.25,4]; non-trivial = more keys than capacity*load (>=1 resize)",
		Gen: func(t *rapid.T, thorough bool) HMCase {
			c := HMCase{Cap: rapid.SampledFrom([]uint64{1, 2, 3, 5, 8, 16}).Draw(t, "cap"), Load: rapid.SampledFrom([]float64{0.25, 0.5, 0.75, 1, 2, 4}).Draw(t, "load")}
			c.Hashes = rapid.SliceOfN(rapid.Uint64(), 1, 4).Draw(t, "hashes")
			c.Ops = rapid.SliceOfN(rapid.Custom(func(t *rapid.T) HMOp {
				return HMOp{rapid.IntRange(0, 2).Draw(t, "put") > 0, rapid.IntRange(0, 40).Draw(t, "id"), rapid.IntRange(0, 9).Draw(t, "v")}
			}), 1, 300).Draw(t, "ops")
			return c
		},
		Check: checkHM,
		Classify: func(c HMCase) (bool, []string) {
			ids := map[int]bool{}
			for _, op := range c.Ops {
				if op.Put {
					ids[op.ID] = true
				}
			}
			return float64(len(ids)) >= float64(c.Cap)*c.Load, nil
		},
	})
}

// ---------------------------------------------------------------------------------------
// 4. quartets: exhaustive over all 4-subsets of {0..7} x 24 x 24 presentations

type QCase struct {
	A [4]uint `json:"a"`
	B [4]uint `json:"b"`
}

func pairing(q [4]uint) [2][2]uint {
	a := [2]uint{q[0], q[1]}
	b := [2]uint{q[2], q[3]}
	if a[0] > a[1] {
		a[0], a[1] = a[1], a[0]
	}
	if b[0] > b[1] {
		b[0], b[1] = b[1], b[0]
	}
	if a[0] > b[0] {
		a, b = b, a
	}
	return [2][2]uint{a, b}
}

func taxa(q [4]uint) [4]uint {
	s := []int{int(q[0]), int(q[1]), int(q[2]), int(q[3])}
	sort.Ints(s)
	return [4]uint{uint(s[0]), uint(s[1]), uint(s[2]), uint(s[3])}
}

func checkQ(c QCase) error {
	qa := &tree.Quartet{T1: c.A[0], T2: c.A[1], T3: c.A[2], T4: c.A[3]}
	qb := &tree.Quartet{T1: c.B[0], T2: c.B[1], T3: c.B[2], T4: c.B[3]}
	want := tree.QUARTET_DIFF
	if taxa(c.A) == taxa(c.B) {
		if pairing(c.A) == pairing(c.B) {
			want = tree.QUARTET_EQUALS
		} else {
			want = tree.QUARTET_CONFLICT
		}
	}
	if got := qa.Compare(qb); got != want {
		return fmt.Errorf("Compare(%v,%v) = %d, expected %d", c.A, c.B, got, want)
	}
	if got := qa.HashEquals(qb); got != (want != tree.QUARTET_DIFF) {
		return fmt.Errorf("HashEquals(%v,%v) = %v", c.A, c.B, got)
	}
	if want != tree.QUARTET_DIFF && qa.HashCode() != qb.HashCode() {
		return fmt.Errorf("quartets %v and %v are equal for hashing but hash to %d and %d", c.A, c.B, qa.HashCode(), qb.HashCode())
	}
	if want != tree.QUARTET_DIFF {
		hm := hashmap.NewHashMap(16, .75)
		hm.PutValue(qa, 1)
		if _, ok := hm.Value(qb); !ok {
			return fmt.Errorf("a map keyed by %v does not find %v", c.A, c.B)
		}
	}
	return nil
}

func perms4(q [4]uint) [][4]uint {
	var out [][4]uint
	idx := []int{0, 1, 2, 3}
	var rec func(k int)
	rec = func(k int) {
		if k == 4 {
			out = append(out, [4]uint{q[idx[0]], q[idx[1]], q[idx[2]], q[idx[3]]})
			return
		}
		for i := k; i < 4; i++ {
			idx[k], idx[i] = idx[i], idx[k]
			rec(k + 1)
			idx[k], idx[i] = idx[i], idx[k]
		}
	}
	rec(0)
	return out
}

func TestC04Quartets(t *testing.T) {
	r := h.NewRecorder(t, "C04", "quartets", "exhaustive: every 4-subset of {0..7} (70) x 24 x 24 presentations, plus every pair of 4-subsets of {0..5} in all presentations (different taxa); Compare / HashEquals / HashCode / map lookup against pairing equality computed by the harness; every pair is non-trivial")
	var rc QCase
	if replaying, mine := r.ReplayCase(&rc); replaying {
		if mine {
			r.Replayed(checkQ(rc))
		}
		return
	}
	if h.Shard() != 0 {
		return
	}
	var subsets [][4]uint
	for a := uint(0); a < 8; a++ {
		for b := a + 1; b < 8; b++ {
			for c := b + 1; c < 8; c++ {
				for d := c + 1; d < 8; d++ {
					subsets = append(subsets, [4]uint{a, b, c, d})
				}
			}
		}
	}
	failed := 0
	try := func(a, b [4]uint) {
		c := QCase{a, b}
		if err := checkQ(c); err != nil {
			if failed == 0 {
				r.Fail(c, "%v", err)
			}
			failed++
			return
		}
		r.Eval(c, true)
	}
	for _, s := range subsets {
		ps := perms4(s)
		for _, a := range ps {
			for _, b := range ps {
				try(a, b)
			}
		}
	}
	// different taxa (and large ids)
	small := [][4]uint{{0, 1, 2, 3}, {0, 1, 2, 4}, {0, 1, 4, 5}, {2, 3, 4, 5}, {1000000, 1, 2, 3}, {4294967295, 0, 7, 9}}
	for _, s1 := range small {
		for _, s2 := range small {
			if s1 == s2 {
				continue
			}
			for _, a := range perms4(s1) {
				for _, b := range perms4(s2) {
					try(a, b)
				}
			}
		}
	}
	r.Exhaustive()
	r.Extra("failing_pairs", failed)
}
