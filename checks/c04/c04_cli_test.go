package c04

import (
	"fmt"
	"sort"
	"strconv"
	"strings"
	"testing"

	"pgregory.net/rapid"

	"verif/internal/cli"
	"verif/internal/gen"
	"verif/internal/h"
	"verif/internal/ref"
)

// Command level: `gotree stats splits` prints, for every tree of the input, the taxa (one header
// line) and one 0/1 line per branch. Each line must be the split obtained by cutting a branch of
// that tree, under that tree's own header, and the multiset of lines must be the multiset of the
// tree's branches (the two root branches of a rooted tree define the same split and give two
// lines).

type CliCase struct {
	Trees  []*ref.Node `json:"trees"`
	InMode string      `json:"in_mode"`
}

// canonical form of a split: the sorted names of the side that does not hold the first name in
// sorted order
func canonSide(side map[string]bool, all []string) string {
	flip := side[all[0]]
	var out []string
	for _, n := range all {
		if side[n] != flip {
			out = append(out, n)
		}
	}
	return strings.Join(out, "\x00")
}

func expectedSplits(m *ref.Node) map[string]int {
	all := m.Tips()
	sort.Strings(all)
	out := map[string]int{}
	m.Walk(func(x, p *ref.Node) {
		if p == nil {
			return
		}
		side := map[string]bool{}
		for _, n := range x.Tips() {
			side[n] = true
		}
		out[canonSide(side, all)]++
	})
	return out
}

func checkCli(c CliCase) error {
	if !cli.Available() {
		return fmt.Errorf("harness: gotree binary not built")
	}
	var in strings.Builder
	for _, m := range c.Trees {
		in.WriteString(ref.Write(m) + "\n")
	}
	dir := cli.Scratch()
	extra, stdin, files, _ := cli.Present(c.InMode, in.String(), "-i")
	for n, content := range files {
		cli.WriteIn(dir, n, content)
	}
	args := append([]string{"stats", "splits"}, extra...)
	r := cli.Run(dir, stdin, args...)
	ctx := fmt.Sprintf("\n gotree %v on\n%s output\n%s", args, in.String(), clipS(r.Stdout))
	if r.Code != 0 || r.TimedOut {
		return fmt.Errorf("command failed with status %d: %s%s", r.Code, r.Stderr, ctx)
	}
	lines := strings.Split(strings.TrimRight(r.Stdout, "\n"), "\n")
	k := -1
	var header []string
	got := make([]map[string]int, len(c.Trees))
	for _, l := range lines {
		f := strings.Split(l, "\t")
		if len(f) != 2 {
			return fmt.Errorf("bad line %q%s", l, ctx)
		}
		if f[0] == "Tree" {
			k++
			if k >= len(c.Trees) {
				return fmt.Errorf("more header lines than input trees%s", ctx)
			}
			header = strings.Split(f[1], "|")
			want := c.Trees[k].Tips()
			sort.Strings(want)
			h2 := append([]string{}, header...)
			sort.Strings(h2)
			if strings.Join(h2, "|") != strings.Join(want, "|") {
				return fmt.Errorf("tree %d: the header lists %v, the tree has the tips %v%s", k, header, want, ctx)
			}
			got[k] = map[string]int{}
			continue
		}
		if id, err := strconv.Atoi(f[0]); err != nil || id != k {
			return fmt.Errorf("line %q under the header of tree %d%s", l, k, ctx)
		}
		bits := strings.ReplaceAll(f[1], ".", "")
		if len(bits) != len(header) {
			return fmt.Errorf("tree %d: line %q has %d bits for %d taxa%s", k, l, len(bits), len(header), ctx)
		}
		side := map[string]bool{}
		for i, b := range bits {
			if b == '1' {
				side[header[i]] = true
			}
		}
		all := append([]string{}, header...)
		sort.Strings(all)
		got[k][canonSide(side, all)]++
	}
	if k != len(c.Trees)-1 {
		return fmt.Errorf("%d header lines for %d trees%s", k+1, len(c.Trees), ctx)
	}
	for i, m := range c.Trees {
		want := expectedSplits(m)
		for s, n := range want {
			if got[i][s] != n {
				return fmt.Errorf("tree %d: the split {%s} is printed %d times, the tree has %d such branches%s", i, strings.ReplaceAll(s, "\x00", ","), got[i][s], n, ctx)
			}
		}
		for s, n := range got[i] {
			if want[s] == 0 {
				return fmt.Errorf("tree %d: %d line(s) describe the split {%s}, which no branch of the tree defines%s", i, n, strings.ReplaceAll(s, "\x00", ","), ctx)
			}
		}
	}
	return nil
}

func clipS(s string) string {
	if len(s) > 1500 {
		return s[:1500] + "..."
	}
	return s
}

func TestC04Cli(t *testing.T) {
	h.Run(t, h.Spec[CliCase]{
		Property: "C04", Name: "cli", Quick: 1200, Thorough: 24000,
		Rule: "`gotree stats splits` on streams of 1-4 trees (input on stdin, in a file, in a gzip file or as a Nexus document), consecutive trees often with the same number of tips but other names: every 0/1 line, read under the header of its own tree, must be the split of a branch of that tree, and the multiset of lines must equal the multiset of branches (reference model); non-trivial = >= 2 trees",
		Gen: func(t *rapid.T, thorough bool) CliCase {
			c := CliCase{InMode: rapid.SampledFrom(cli.InModes).Draw(t, "inmode")}
			o := gen.Opts{MinTips: 3, MaxTips: 10, BigTips: 80, Rooted: -1, MaxDeg: 5, Lens: gen.AnyPresence, LenVals: gen.DyadicZ, Sups: gen.AnyPresence}
			first := gen.Tree(t, o)
			c.Trees = []*ref.Node{first}
			for i, n := 1, rapid.IntRange(1, 4).Draw(t, "ntrees"); i < n; i++ {
				switch rapid.IntRange(0, 2).Draw(t, "next") {
				case 0:
					// same number of tips, other names
					o2 := o
					o2.MinTips, o2.MaxTips, o2.BigTips, o2.NamePrefix = len(first.Tips()), len(first.Tips()), 0, fmt.Sprintf("q%d", i)
					c.Trees = append(c.Trees, gen.Tree(t, o2))
				case 1:
					c.Trees = append(c.Trees, gen.Perturb(t, first, 2, true, gen.DyadicZ))
				default:
					c.Trees = append(c.Trees, gen.Tree(t, o))
				}
			}
			return c
		},
		Check:    checkCli,
		Classify: func(c CliCase) (bool, []string) { return len(c.Trees) >= 2, []string{"in:" + c.InMode} },
	})
}
