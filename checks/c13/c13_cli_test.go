package c13

import (
	"fmt"
	"strings"
	"testing"

	"pgregory.net/rapid"

	"github.com/evolbioinfo/gotree/io/nexus"
	"github.com/evolbioinfo/gotree/io/phyloxml"

	"verif/internal/cli"
	"verif/internal/docs"
	"verif/internal/gen"
	"verif/internal/h"
	"verif/internal/ref"
)

// Command level: `gotree reformat newick|nexus|phyloxml [--translate] [--input-format f]` prints
// what the library writers give for the trees the library readers deliver from the same file.

type CliCase struct {
	Trees     []*ref.Node `json:"trees"`
	In        string      `json:"in"`  // newick | nexus | phyloxml
	Out       string      `json:"out"` // newick | nexus | phyloxml
	Translate bool        `json:"translate,omitempty"`
	ToFile    bool        `json:"to_file,omitempty"`
	Broken    int         `json:"broken,omitempty"` // newick input: 1+index of a member made syntactically invalid (0 = none)
}

func checkCli(c CliCase) error {
	var doc string
	switch c.In {
	case "newick":
		doc = docs.MultiNewick(c.Trees, docs.Layout{})
		if c.Broken > 0 && c.Broken <= len(c.Trees) {
			lines := strings.Split(strings.TrimRight(doc, "\n"), "\n")
			lines[c.Broken-1] = breakTree(lines[c.Broken-1])
			doc = strings.Join(lines, "\n") + "\n"
		}
	case "nexus":
		doc = docs.Nexus(c.Trees, docs.NexusOpts{Taxa: true})
	case "phyloxml":
		doc = docs.PhyloXML(c.Trees)
	}
	args := []string{"reformat", c.Out, "--input-format", c.In}
	if c.Out == "nexus" && c.Translate {
		args = append(args, "--translate")
	}
	of := ""
	if c.ToFile {
		of = "-o"
	}
	return cli.DifferentialOut(args, doc, nil, of, func() (string, error) {
		// the expected text is produced from the models: reader and writer are judged separately by
		// the `formats` check, here the command must apply them in the right order with the right options
		if c.In == "newick" && c.Broken > 0 && c.Broken <= len(c.Trees) {
			return "", fmt.Errorf("member %d of the stream is not a tree", c.Broken-1)
		}
		dropPv := c.In == "phyloxml"
		ts, err := build(expectAll(c.Trees, dropPv))
		if err != nil {
			return "", err
		}
		switch c.Out {
		case "newick":
			var b strings.Builder
			for _, t := range ts {
				b.WriteString(t.Newick() + "\n")
			}
			return b.String(), nil
		case "nexus":
			s, err := nexus.WriteNexus(feed(ts), c.Translate)
			return s, err
		default:
			s, err := phyloxml.WritePhyloXML(feed(ts))
			return s, err
		}
	})
}

func expectAll(ms []*ref.Node, dropPv bool) []*ref.Node {
	var out []*ref.Node
	for _, m := range ms {
		out = append(out, expect(m, dropPv))
	}
	return out
}

func TestC13Cli(t *testing.T) {
	h.Run(t, h.Spec[CliCase]{
		Property: "C13", Name: "cli", Quick: 1600, Thorough: 32000,
		Rule: "`gotree reformat newick|nexus|phyloxml --input-format newick|nexus|phyloxml [--translate]` on independently written documents of 1-4 same-taxa trees with labels legal in all formats: the output must be byte-identical to the library writer applied to the same trees; a quarter of the Newick inputs hold a syntactically broken member, on which the command must fail (non-zero status) instead of printing a truncated result; non-trivial = >= 2 trees or a format change",
		Gen: func(t *rapid.T, thorough bool) CliCase {
			o := gen.Opts{MinTips: 2, MaxTips: 9, Rooted: -1, MaxDeg: 5, Lens: gen.AnyPresence, LenVals: gen.Arbitrary, Sups: gen.AnyPresence, InnerNames: gen.AnyPresence}
			base := gen.Tree(t, o)
			c := CliCase{Trees: []*ref.Node{base}, In: rapid.SampledFrom([]string{"newick", "nexus", "phyloxml"}).Draw(t, "in"),
				Out: rapid.SampledFrom([]string{"newick", "nexus", "phyloxml"}).Draw(t, "out"), Translate: rapid.Bool().Draw(t, "translate")}
			for i, n := 1, rapid.IntRange(1, 4).Draw(t, "ntrees"); i < n; i++ {
				p := gen.Perturb(t, base, rapid.IntRange(0, 3).Draw(t, "npert"), true, gen.Arbitrary)
				gen.Decorate(t, stripInner(p), o)
				c.Trees = append(c.Trees, p)
			}
			relabel(t, c.Trees)
			c.ToFile = rapid.IntRange(0, 2).Draw(t, "tofile") == 0
			if c.In == "newick" && rapid.IntRange(0, 3).Draw(t, "hasbroken") == 0 {
				c.Broken = 1 + rapid.IntRange(0, len(c.Trees)-1).Draw(t, "broken")
			}
			return c
		},
		Check: checkCli,
		Classify: func(c CliCase) (bool, []string) {
			return len(c.Trees) >= 2 || c.In != c.Out, []string{"in:" + c.In, "out:" + c.Out}
		},
	})
}
