package c13

import (
	"bufio"
	"fmt"
	"strconv"
	"strings"
	"testing"
	"time"
	"unicode"
	"unicode/utf8"

	"pgregory.net/rapid"

	"github.com/evolbioinfo/gotree/io/nexus"
	"github.com/evolbioinfo/gotree/io/phyloxml"
	"github.com/evolbioinfo/gotree/io/utils"
	"github.com/evolbioinfo/gotree/tree"

	"verif/internal/docs"
	"verif/internal/gen"
	"verif/internal/gt"
	"verif/internal/h"
	"verif/internal/ops"
	"verif/internal/ref"
)

func TestMain(m *testing.M) { h.Main(m) }

// ---------------------------------------------------------------------------------------
// labels legal in Newick, Nexus and PhyloXML

var nexusKeywords = map[string]bool{"begin": true, "end": true, "tree": true, "trees": true, "taxa": true, "taxlabels": true, "translate": true,
	"dimensions": true, "ntax": true, "nchar": true, "format": true, "datatype": true, "missing": true, "gap": true, "matrix": true, "data": true,
	"characters": true, "#nexus": true}

var labelAtoms = []string{"1", "007", "1e5", "0.5", "-3", "1/2", "a/1", "A", "b", "Homo_sapiens", "taxon.1", "x|y", "é", "日本", "#1", "a-b", "+", "%", "{x}", "end", "Tree", "GAP", "data", "NTAX", "t1", "t10", "t2", "Z", "_", "~", "a.b.c", "0x10", "inf", "NaN"}

func legalRune(r rune) bool {
	return unicode.IsGraphic(r) && !unicode.IsSpace(r) && !strings.ContainsRune("()[],:;=<>&'\"", r) && r != 0xFFFD
}

func numericLooking(s string) bool {
	if _, err := strconv.ParseFloat(s, 64); err == nil {
		return true
	}
	if p := strings.Split(s, "/"); len(p) == 2 {
		_, e1 := strconv.ParseFloat(p[0], 64)
		_, e2 := strconv.ParseFloat(p[1], 64)
		return e1 == nil && e2 == nil
	}
	return false
}

// label draws one label of the C13 domain; keywords of the Nexus lexer are mapped to k_
// (construction, counted through the "keyword-mapped" label).
func label(t *rapid.T, inner bool) (string, bool) {
	var s string
	switch rapid.IntRange(0, 2).Draw(t, "lk") {
	case 0:
		s = rapid.SampledFrom(labelAtoms).Draw(t, "atom")
	case 1:
		s = rapid.StringMatching(`[a-zA-Z0-9_.|/#+\-]{1,8}`).Draw(t, "re")
	default:
		rs := rapid.SliceOfN(rapid.Rune(), 1, 5).Draw(t, "runes")
		var b strings.Builder
		for _, r := range rs {
			if legalRune(r) {
				b.WriteRune(r)
			} else {
				b.WriteByte('u')
			}
		}
		s = b.String()
	}
	mapped := false
	if nexusKeywords[strings.ToLower(s)] {
		s += "_"
		mapped = true
	}
	if inner && numericLooking(s) {
		s = "n" + s
	}
	return s, mapped
}

// relabel gives every tip and every named inner node a unique label of the domain.
func relabel(t *rapid.T, ms []*ref.Node) (mapped bool) {
	used := map[string]bool{}
	assign := map[string]string{} // old name -> new name (trees of a list share taxa)
	if rapid.IntRange(0, 5).Draw(t, "indexlabels") == 2 {
		// the tips are named 0..n-1 (or 1..n) in an order unrelated to the tree: the very strings a
		// translate table uses as keys
		var old []string
		seen := map[string]bool{}
		for _, m := range ms {
			for _, n := range m.Tips() {
				if !seen[n] {
					seen[n] = true
					old = append(old, n)
				}
			}
		}
		first := rapid.IntRange(0, 1).Draw(t, "indexfrom")
		nums := make([]int, len(old))
		for i := range nums {
			nums[i] = first + i
		}
		if len(nums) > 1 {
			nums = rapid.Permutation(nums).Draw(t, "indexperm")
		}
		for i, n := range old {
			assign[n] = strconv.Itoa(nums[i])
			used[assign[n]] = true
		}
	}
	for _, m := range ms {
		m.Walk(func(x, p *ref.Node) {
			if x.Name == "" {
				return
			}
			if nn, ok := assign[x.Name]; ok && x.IsTip() {
				x.Name = nn
				return
			}
			l, mp := label(t, !x.IsTip())
			mapped = mapped || mp
			for i := 0; used[l] || (!x.IsTip() && numericLooking(l)); i++ {
				l = l + "_" + strconv.Itoa(i)
			}
			used[l] = true
			if x.IsTip() {
				assign[x.Name] = l
			}
			x.Name = l
		})
	}
	return
}

type Case struct {
	Trees     []*ref.Node    `json:"trees"`
	Chain     string         `json:"chain"` // newick-nexus | newick-phyloxml | nexus-phyloxml | multinewick | single-multi
	Translate bool           `json:"translate,omitempty"`
	Layout    docs.Layout    `json:"layout,omitempty"`
	Broken    int            `json:"broken,omitempty"` // multinewick: 1+index of the member made syntactically invalid (0 = none)
	Format    string         `json:"format,omitempty"` // single-multi: newick | nexus | phyloxml | nextstrain
	NexusOpts docs.NexusOpts `json:"nexus_opts,omitempty"`
	GotreeDoc bool           `json:"gotree_doc,omitempty"` // single-multi: document written by gotree's writer instead of the independent one
	Mapped    bool           `json:"keyword_mapped,omitempty"`
	// Hist (conversion chains): tree i was indexed and then edited in memory by these operations
	// before it is converted (a tree that went through other commands of a pipeline first); what
	// must come back is the model read back from the edited object.
	Hist map[int][]ops.Op `json:"histories,omitempty"`
}

// histKinds: edits that keep the names (legal in all formats) and add no comments.
var histKinds = []string{"reroot", "midpoint", "unroot", "collapse_len", "collapse_sup", "collapse_depth", "resolve", "rotate", "sort",
	"rotate_node", "nni", "nni_undo", "shuffle_tips", "clone", "reinit", "clear_supports", "scale_lengths", "round_supports", "reroot_first"}

// buildCase is build for a case with histories: the edited objects are what the writers see, and
// the models of the case are replaced by the models read back from them.
func buildCase(c *Case) ([]*tree.Tree, error) {
	if len(c.Hist) == 0 {
		return build(c.Trees)
	}
	c.Trees = append([]*ref.Node{}, c.Trees...)
	var ts []*tree.Tree
	for i, m := range c.Trees {
		if h, has := c.Hist[i]; has {
			t2, m2, ok, err := ops.Edited(m, h, false)
			if err != nil {
				return nil, err
			}
			if ok {
				c.Trees[i] = m2
				ts = append(ts, t2)
				continue
			}
		}
		t, err := gt.FromModel(m)
		if err != nil {
			return nil, fmt.Errorf("newick parser rejects %s: %v", ref.Write(m), err)
		}
		ts = append(ts, t)
	}
	return ts, nil
}

func genCase(t *rapid.T, thorough bool) Case {
	c := Case{Chain: rapid.SampledFrom([]string{"newick-nexus", "newick-nexus", "newick-phyloxml", "nexus-phyloxml", "multinewick", "multinewick", "single-multi", "single-multi", "multinexus"}).Draw(t, "chain")}
	o := gen.Opts{MinTips: 2, MaxTips: 9, BigTips: 30, Rooted: -1, MaxDeg: 5, Lens: gen.AnyPresence, LenVals: gen.Arbitrary, Sups: gen.AnyPresence, InnerNames: gen.AnyPresence}
	if thorough {
		o.BigTips = 120
	}
	if c.Chain == "newick-nexus" || c.Chain == "multinewick" || c.Chain == "newick-phyloxml" || c.Chain == "nexus-phyloxml" {
		// p-values next to supports: kept by Newick and Nexus; PhyloXML has no place for them, the
		// supports themselves must come back
		o.Pvals = true
	}
	if c.Chain == "single-multi" {
		c.Format = rapid.SampledFrom([]string{"newick", "nexus", "phyloxml", "nextstrain"}).Draw(t, "format")
		if c.Format == "nextstrain" {
			o.Lens, o.LenVals, o.Sups = gen.All, gen.Dyadic, gen.None
		}
		c.GotreeDoc = c.Format != "nextstrain" && rapid.Bool().Draw(t, "gotreedoc")
		c.NexusOpts = docs.NexusOpts{Translate: rapid.Bool().Draw(t, "tr"), Taxa: rapid.Bool().Draw(t, "taxa"), Comments: rapid.Bool().Draw(t, "com"), Lower: rapid.Bool().Draw(t, "lower"), InlineEnd: rapid.Bool().Draw(t, "inlineend")}
	}
	if c.Chain == "multinexus" {
		// an independent Nexus document read by the multi-tree reader: tree names all different or all
		// the same, one TREE statement possibly without its '='
		c.NexusOpts = docs.NexusOpts{Translate: rapid.Bool().Draw(t, "tr"), Taxa: rapid.Bool().Draw(t, "taxa"), InlineEnd: rapid.Bool().Draw(t, "inlineend"),
			SameNames: rapid.IntRange(0, 2).Draw(t, "samenames") == 0}
	}
	if c.Chain == "nexus-phyloxml" {
		// the independent Nexus document ends its TRANSLATE command with ';' on a line of its own or
		// right after the last entry ("5 e;"), with or without a TAXA block
		c.NexusOpts = docs.NexusOpts{Taxa: rapid.Bool().Draw(t, "taxa"), InlineEnd: rapid.Bool().Draw(t, "inlineend")}
	}
	base := gen.Tree(t, o)
	n := rapid.IntRange(1, 5).Draw(t, "ntrees")
	if rapid.IntRange(0, 19).Draw(t, "manytrees") == 0 {
		n = rapid.IntRange(11, 25).Draw(t, "ntreesmany") // longer lists (more than 10 trees)
	}
	c.Trees = []*ref.Node{base}
	sameTaxa := c.Chain == "newick-nexus" || c.Chain == "nexus-phyloxml" || c.Chain == "multinexus" || (c.Chain == "single-multi" && c.Format == "nexus")
	for i := 1; i < n; i++ {
		if sameTaxa {
			p := gen.Perturb(t, base, rapid.IntRange(0, 3).Draw(t, "npert"), true, gen.Arbitrary)
			gen.Decorate(t, stripInner(p), o)
			c.Trees = append(c.Trees, p)
		} else {
			c.Trees = append(c.Trees, gen.Tree(t, o))
		}
	}
	if c.Chain == "multinexus" && rapid.IntRange(0, 3).Draw(t, "noequal") == 0 {
		c.NexusOpts.NoEqual = 1 + rapid.IntRange(0, n-1).Draw(t, "noequalat")
	}
	c.Mapped = relabel(t, c.Trees)
	if (c.Chain == "newick-nexus" || c.Chain == "newick-phyloxml" || c.Chain == "nexus-phyloxml") && rapid.IntRange(0, 3).Draw(t, "hashist") == 0 {
		c.Hist = map[int][]ops.Op{}
		for i, m := range c.Trees {
			// only trees without inner names: re-rooting a tree that has both inner names and supports
			// brings a support next to a name, a state that Newick text cannot show and PhyloXML can -
			// "the same tree" would then depend on the format
			named := false
			m.Walk(func(x, p *ref.Node) { named = named || (!x.IsTip() && x.Name != "") })
			if !named && rapid.Bool().Draw(t, "histhere") {
				c.Hist[i] = ops.GenHistoryOf(t, histKinds, 3)
			}
		}
	}
	c.Translate = rapid.Bool().Draw(t, "translate")
	if c.Chain == "multinewick" || (c.Chain == "single-multi" && c.Format == "newick") {
		c.Layout = docs.Layout{BreakAfterComma: rapid.Bool().Draw(t, "brk"), BlankLines: rapid.IntRange(0, 2).Draw(t, "blank"), Trailing: rapid.Bool().Draw(t, "trail"),
			CRLF: rapid.IntRange(0, 3).Draw(t, "crlf") == 0, NoFinalNewline: rapid.Bool().Draw(t, "nofinal")}
		c.Layout.AfterTips = c.Layout.BreakAfterComma && rapid.IntRange(0, 2).Draw(t, "aftertips") == 0
		if rapid.IntRange(0, 3).Draw(t, "sameline") == 0 {
			c.Layout.SameLine = rapid.IntRange(1, 2).Draw(t, "samelinesep") // two trees per line
		}
		c.Layout.ENum = rapid.IntRange(0, 5).Draw(t, "enum") == 0
		if c.Layout.NoFinalNewline && rapid.IntRange(0, 3).Draw(t, "padlast") == 1 {
			c.Layout.PadLast = 4096 // the last line, without end of line, fills the reader's buffer exactly
		}
		if c.Chain == "multinewick" && rapid.IntRange(0, 3).Draw(t, "hasbroken") == 0 {
			c.Broken = 1 + rapid.IntRange(0, n-1).Draw(t, "broken")
		}
	}
	return c
}

// stripInner removes inner names and supports (fresh decoration follows) and returns m.
func stripInner(m *ref.Node) *ref.Node {
	m.Walk(func(x, p *ref.Node) {
		if !x.IsTip() {
			x.Name, x.Sup, x.Pv = "", nil, nil
		}
		x.Len = nil
	})
	return m
}

func feed(ts []*tree.Tree) <-chan tree.Trees {
	ch := make(chan tree.Trees, len(ts))
	for i, t := range ts {
		ch <- tree.Trees{Tree: t, Id: i}
	}
	close(ch)
	return ch
}

func build(ms []*ref.Node) ([]*tree.Tree, error) {
	var ts []*tree.Tree
	for _, m := range ms {
		t, err := gt.FromModel(m)
		if err != nil {
			return nil, fmt.Errorf("newick parser rejects %s: %v", ref.Write(m), err)
		}
		ts = append(ts, t)
	}
	return ts, nil
}

// expect is what must come back: shape, child order, names, lengths, supports (p-values
// unless dropPv).
func expect(m *ref.Node, dropPv bool) *ref.Node {
	e := gt.Printable(m)
	e.Walk(func(x, p *ref.Node) {
		x.Com, x.BCom = nil, nil
		if dropPv {
			x.Pv = nil
		}
	})
	return e
}

func same(what string, i int, t *tree.Tree, m *ref.Node, dropPv bool) error {
	if t == nil {
		return fmt.Errorf("%s: tree %d is nil", what, i)
	}
	x, err := gt.Extract(t)
	if err != nil {
		return fmt.Errorf("%s: tree %d: %v", what, i, err)
	}
	x.Walk(func(n, p *ref.Node) {
		n.Com, n.BCom = nil, nil
		if dropPv {
			n.Pv = nil
		}
	})
	if d := ref.Diff(expect(m, dropPv), x); d != "" {
		return fmt.Errorf("%s: tree %d differs from the original: %s\n original %s\n got      %s", what, i, d, ref.Write(m), t.Newick())
	}
	return nil
}

func readNexus(text string) ([]*tree.Tree, error) {
	n, err := nexus.NewParser(strings.NewReader(text)).Parse()
	if err != nil {
		return nil, err
	}
	var out []*tree.Tree
	n.IterateTrees(func(name string, t *tree.Tree) { out = append(out, t) })
	return out, nil
}

func readPhyloXML(text string) ([]*tree.Tree, error) {
	p, err := phyloxml.NewParser(strings.NewReader(text)).Parse()
	if err != nil {
		return nil, err
	}
	var out []*tree.Tree
	var ierr error
	p.IterateTrees(func(t *tree.Tree, err error) {
		if err != nil && ierr == nil {
			ierr = err
		}
		out = append(out, t)
	})
	return out, ierr
}

func breakTree(s string) string {
	// drop the first closing parenthesis: still ends with ';', no longer a tree
	i := strings.IndexByte(s, ')')
	return s[:i] + s[i+1:]
}

func check(c Case) error {
	switch c.Chain {
	case "newick-nexus":
		ts, err := buildCase(&c)
		if err != nil {
			return err
		}
		text, err := nexus.WriteNexus(feed(ts), c.Translate)
		if err != nil {
			return fmt.Errorf("WriteNexus failed: %v", err)
		}
		back, err := readNexus(text)
		if err != nil {
			return fmt.Errorf("Nexus written by gotree is rejected by its reader: %v\n%s", err, text)
		}
		if len(back) != len(c.Trees) {
			return fmt.Errorf("Nexus round trip: %d trees written, %d read back\n%s", len(c.Trees), len(back), text)
		}
		for i, t := range back {
			if err := same("newick->nexus->newick (translate="+strconv.FormatBool(c.Translate)+")", i, t, c.Trees[i], false); err != nil {
				return fmt.Errorf("%v\n%s", err, text)
			}
		}
		// the single-tree writer
		one := ts[0].Nexus()
		b1, err := readNexus(one)
		if err != nil || len(b1) != 1 {
			return fmt.Errorf("Tree.Nexus() text is not read back as one tree: %v\n%s", err, one)
		}
		return same("Tree.Nexus()", 0, b1[0], c.Trees[0], false)
	case "newick-phyloxml":
		ts, err := buildCase(&c)
		if err != nil {
			return err
		}
		text, err := phyloxml.WritePhyloXML(feed(ts))
		if err != nil {
			return fmt.Errorf("WritePhyloXML failed: %v", err)
		}
		back, err := readPhyloXML(text)
		if err != nil {
			return fmt.Errorf("PhyloXML written by gotree is rejected by its reader: %v\n%s", err, text)
		}
		if len(back) != len(c.Trees) {
			return fmt.Errorf("PhyloXML round trip: %d trees written, %d read back", len(c.Trees), len(back))
		}
		for i, t := range back {
			if err := same("newick->phyloxml->newick", i, t, c.Trees[i], true); err != nil {
				return fmt.Errorf("%v\n%s", err, text)
			}
		}
		return nil
	case "nexus-phyloxml":
		// independent Nexus document -> gotree -> PhyloXML -> gotree -> Nexus -> gotree
		doc := docs.Nexus(c.Trees, docs.NexusOpts{Translate: c.Translate, Taxa: !c.NexusOpts.InlineEnd || c.NexusOpts.Taxa, InlineEnd: c.NexusOpts.InlineEnd})
		a, err := readNexus(doc)
		if err != nil {
			return fmt.Errorf("valid Nexus document rejected: %v\n%s", err, doc)
		}
		if len(a) != len(c.Trees) {
			return fmt.Errorf("%d trees in the Nexus document, %d delivered", len(c.Trees), len(a))
		}
		px, err := phyloxml.WritePhyloXML(feed(a))
		if err != nil {
			return err
		}
		b, err := readPhyloXML(px)
		if err != nil || len(b) != len(a) {
			return fmt.Errorf("PhyloXML step: %v (%d trees)", err, len(b))
		}
		nx, err := nexus.WriteNexus(feed(b), !c.Translate)
		if err != nil {
			return err
		}
		d, err := readNexus(nx)
		if err != nil || len(d) != len(a) {
			return fmt.Errorf("Nexus step: %v (%d trees)\n%s", err, len(d), nx)
		}
		for i, t := range d {
			if err := same("nexus->phyloxml->nexus", i, t, c.Trees[i], true); err != nil {
				return err
			}
		}
		return nil
	case "multinewick":
		ms := c.Trees
		var parts []string
		for i, m := range ms {
			s := ref.Write(m)
			if c.Broken == i+1 {
				s = breakTree(s)
			} else if c.Layout.AfterTips || c.Layout.ENum {
				st := ref.Style{ENum: c.Layout.ENum}
				if c.Layout.AfterTips {
					// a line end after every tip name (the breaks after commas come from layoutTexts)
					st.AfterTips, st.NL = true, "\n"
					if c.Layout.CRLF {
						st.NL = "\r\n"
					}
				}
				s = ref.WriteStyled(m, st)
			}
			parts = append(parts, s)
		}
		doc := layoutTexts(parts, c.Layout)
		next := 0
		for r := range utils.ReadMultiTrees(bufio.NewReader(strings.NewReader(doc)), utils.FORMAT_NEWICK) {
			if r.Id != next {
				return fmt.Errorf("record %d carries id %d\n%q", next, r.Id, doc)
			}
			if next >= len(ms) {
				return fmt.Errorf("more records (%d) than trees in the file (%d)\n%q", next+1, len(ms), doc)
			}
			if c.Broken != 0 && next == c.Broken-1 {
				if r.Err == nil {
					return fmt.Errorf("syntactically broken member %d was delivered as a tree\n%q", next, doc)
				}
				next++
				continue
			}
			if c.Broken != 0 && next >= c.Broken {
				return fmt.Errorf("a record followed the error record\n%q", doc)
			}
			if r.Err != nil {
				return fmt.Errorf("valid member %d reported as error: %v\n%q", next, r.Err, doc)
			}
			if err := same("multi-tree reader", next, r.Tree, ms[next], false); err != nil {
				return fmt.Errorf("%v\n%q", err, doc)
			}
			next++
		}
		want := len(ms)
		if c.Broken != 0 {
			want = c.Broken
		}
		if next != want {
			return fmt.Errorf("%d records delivered, expected %d (trees in file: %d, broken member: %d)\n%q", next, want, len(ms), c.Broken, doc)
		}
		return nil
	case "multinexus":
		doc := docs.Nexus(c.Trees, c.NexusOpts)
		var recs []tree.Trees
		for r := range utils.ReadMultiTrees(bufio.NewReader(strings.NewReader(doc)), utils.FORMAT_NEXUS) {
			recs = append(recs, r)
		}
		failed := false
		for i, r := range recs {
			if r.Err != nil {
				failed = true
				if i != len(recs)-1 {
					return fmt.Errorf("a record followed the error record\n%s", doc)
				}
			}
		}
		if c.NexusOpts.NoEqual > 0 {
			// a statement that is not valid: an error must be reported, or (a lenient reader) every
			// tree delivered - never fewer trees and no error
			if !failed && len(recs) != len(c.Trees) {
				return fmt.Errorf("TREE statement %d of %d lacks its '=': %d trees delivered and no error reported\n%s", c.NexusOpts.NoEqual, len(c.Trees), len(recs), doc)
			}
			return nil
		}
		if failed {
			return fmt.Errorf("valid Nexus document: the multi-tree reader reports an error: %v\n%s", recs[len(recs)-1].Err, doc)
		}
		if len(recs) != len(c.Trees) {
			return fmt.Errorf("%d trees in the Nexus document, %d delivered\n%s", len(c.Trees), len(recs), doc)
		}
		for i, r := range recs {
			if r.Id != i {
				return fmt.Errorf("record %d carries id %d\n%s", i, r.Id, doc)
			}
			if err := same("multi-tree reader (nexus)", i, r.Tree, c.Trees[i], true); err != nil {
				return fmt.Errorf("%v\n%s", err, doc)
			}
		}
		return nil
	case "single-multi":
		f := map[string]int{"newick": utils.FORMAT_NEWICK, "nexus": utils.FORMAT_NEXUS, "phyloxml": utils.FORMAT_PHYLOXML, "nextstrain": utils.FORMAT_NEXTSTRAIN}[c.Format]
		var doc string
		if c.GotreeDoc {
			ts, err := buildCase(&c)
			if err != nil {
				return err
			}
			switch c.Format {
			case "newick":
				var parts []string
				for _, t := range ts {
					parts = append(parts, t.Newick())
				}
				doc = strings.Join(parts, "\n") + "\n"
			case "nexus":
				doc, err = nexus.WriteNexus(feed(ts), c.Translate)
			case "phyloxml":
				doc, err = phyloxml.WritePhyloXML(feed(ts))
			}
			if err != nil {
				return err
			}
		} else {
			switch c.Format {
			case "newick":
				doc = docs.MultiNewick(c.Trees, c.Layout)
			case "nexus":
				doc = docs.Nexus(c.Trees, c.NexusOpts)
			case "phyloxml":
				if c.Translate {
					doc = docs.PhyloXMLTaxonomy(c.Trees)
				} else {
					doc = docs.PhyloXML(c.Trees)
				}
			case "nextstrain":
				doc = docs.Nextstrain(c.Trees[0], c.Translate)
			}
		}
		first, ferr := utils.ReadTreeReader(bufio.NewReader(strings.NewReader(doc)), f)
		var multi []tree.Trees
		for r := range utils.ReadMultiTrees(bufio.NewReader(strings.NewReader(doc)), f) {
			multi = append(multi, r)
		}
		if len(multi) == 0 {
			return fmt.Errorf("multi-tree reader delivered nothing (no tree, no error) for a %s document\n%s", c.Format, doc)
		}
		if ferr != nil || multi[0].Err != nil {
			return fmt.Errorf("valid %s document: first-tree reader error %v, multi-tree reader error %v\n%s", c.Format, ferr, multi[0].Err, doc)
		}
		if first == nil || multi[0].Tree == nil {
			return fmt.Errorf("valid %s document: nil tree without error", c.Format)
		}
		if a, b := first.Newick(), multi[0].Tree.Newick(); a != b {
			return fmt.Errorf("%s: 'first tree' is %s but the multi-tree reader delivers %s first", c.Format, a, b)
		}
		dropPv := c.Format == "phyloxml" || c.Format == "nextstrain"
		if err := same(c.Format+" first-tree reader", 0, first, c.Trees[0], dropPv); err != nil {
			return fmt.Errorf("%v\n%s", err, doc)
		}
		if c.Format != "nextstrain" {
			if len(multi) != len(c.Trees) {
				return fmt.Errorf("%s: %d trees in the document, %d records delivered\n%s", c.Format, len(c.Trees), len(multi), doc)
			}
			for i, r := range multi {
				if r.Id != i || r.Err != nil {
					return fmt.Errorf("%s: record %d has id %d, error %v", c.Format, i, r.Id, r.Err)
				}
				if err := same(c.Format+" multi-tree reader", i, r.Tree, c.Trees[i], dropPv); err != nil {
					return fmt.Errorf("%v\n%s", err, doc)
				}
			}
		}
		return nil
	}
	return fmt.Errorf("harness: unknown chain %q", c.Chain)
}

// layoutTexts is docs.MultiNewick for already written (possibly broken) records.
func layoutTexts(parts []string, l docs.Layout) string {
	nl := "\n"
	if l.CRLF {
		nl = "\r\n"
	}
	var b strings.Builder
	for i, s := range parts {
		if l.BreakAfterComma {
			s = strings.ReplaceAll(s, ",", ","+nl)
		}
		b.WriteString(s)
		if l.Trailing {
			b.WriteString(" \t ")
		}
		last := i == len(parts)-1
		if l.SameLine > 0 && i%2 == 0 && !last {
			if l.SameLine == 2 {
				b.WriteString(" ")
			}
			continue
		}
		if !(last && l.NoFinalNewline) {
			b.WriteString(nl)
		}
		if !last {
			switch l.BlankLines {
			case 1:
				b.WriteString(nl)
			case 2:
				b.WriteString(" \t" + nl)
			}
		}
	}
	return b.String()
}

func TestC13Formats(t *testing.T) {
	h.Run(t, h.Spec[Case]{
		Property: "C13", Name: "formats", Quick: 16000, Thorough: 640000,
		Rule: "lists of 1..5 trees (2..9 tips, 5% up to 30/120) with labels legal in all three formats (graphic non-blank runes without ()[],:;=<>&'\", Nexus keywords mapped to k_, numeric tip labels, in one list in six the tips are named 0..n-1 or 1..n in an order unrelated to the tree, unique names over tips and inner nodes), lengths/supports/p-values/inner names present or not; chains (in a quarter of the cases some of the trees were indexed and then edited in memory by 1-3 operations - re-root, collapse, resolve, NNI, rotate, copy ... - before they are converted, the model read back from the object being what must come back) newick->nexus(+-translate)->newick, Tree.Nexus(), newick->phyloxml->newick, nexus->phyloxml->nexus through gotree's writers and readers compared with the original model (shape, child order, names, lengths, supports); independent Nexus documents (tree names all different or all the same, with or without TAXA block and translate table, one TREE statement possibly without its '=') through the multi-tree reader: every tree in file order equal to its model, or an error for the invalid statement - never fewer trees without error; multi-Newick streams in free layout (line breaks after commas, blank and blank-only lines, trailing blanks, CRLF, no final newline, a last line of exactly 4096 / 8192 bytes without end of line, one tip per line with the line end right after the tip name, numbers written as 1.5E-01, two trees on one line) with an optional syntactically broken member: ids consecutive in file order, every tree equal to its record, error record then nothing; first-tree reader vs first record of the multi-tree reader for the four formats on documents written independently or by gotree. Non-trivial = >= 2 trees or an inner name/support, and a layout feature / translate table / format other than plain Newick",
		Gen: genCase, Check: check,
		Classify: func(c Case) (bool, []string) {
			l := []string{"chain:" + c.Chain}
			if c.Format != "" {
				l = append(l, "single-multi:"+c.Format)
			}
			if c.Translate && len(c.Trees) >= 2 && (c.Chain == "newick-nexus" || c.Chain == "nexus-phyloxml") {
				l = append(l, "translate-table-on-list")
			}
			if c.Mapped {
				l = append(l, "keyword-mapped-label")
			}
			if c.Broken != 0 {
				l = append(l, "broken-member")
			}
			if c.Layout.BlankLines == 2 {
				l = append(l, "blank-only-line")
			}
			numTip, deco := false, false
			for _, m := range c.Trees {
				m.Walk(func(x, p *ref.Node) {
					if x.IsTip() {
						if _, err := strconv.ParseFloat(x.Name, 64); err == nil {
							numTip = true
						}
					} else if p != nil && (x.Name != "" || x.Sup != nil) {
						deco = true
					}
				})
			}
			if numTip {
				l = append(l, "numeric-tip-label")
			}
			feature := c.Chain != "multinewick" || c.Layout != (docs.Layout{}) || c.Broken != 0
			return (len(c.Trees) >= 2 || deco) && feature, l
		},
	})
}

// ---------------------------------------------------------------------------------------
// Native fuzz target (thorough tier): for any byte string and any format, the first-tree
// reader and the multi-tree reader agree: both fail, or the first delivered tree is the same;
// ids are consecutive and nothing follows an error record.

type AgreeCase struct {
	Format string `json:"format"`
	Doc    []byte `json:"doc"`
	Show   string `json:"show,omitempty"`
}

var fmtNames = []string{"newick", "nexus", "phyloxml", "nextstrain"}

func checkAgree(c AgreeCase) error {
	// text formats: documents that are not valid UTF-8 are outside the domain (a line break
	// between the bytes of a broken rune is joined by one reader and not by the other); that
	// nothing crashes on them is C02's subject
	if !utf8.Valid(c.Doc) {
		return nil
	}
	if c.Format == "newick" && breaksLabel(c.Doc) {
		// a line break that touches a label (or a number) becomes part of it for the single-tree
		// reader and vanishes for the multi reader, which joins the lines: "0.<newline>" is a name
		// for one and the support 0 for the other. Labels with blanks are outside the domain.
		return nil
	}
	f := map[string]int{"newick": utils.FORMAT_NEWICK, "nexus": utils.FORMAT_NEXUS, "phyloxml": utils.FORMAT_PHYLOXML, "nextstrain": utils.FORMAT_NEXTSTRAIN}[c.Format]
	first, ferr := utils.ReadTreeReader(bufio.NewReader(strings.NewReader(string(c.Doc))), f)
	var multi []tree.Trees
	for r := range utils.ReadMultiTrees(bufio.NewReader(strings.NewReader(string(c.Doc))), f) {
		multi = append(multi, r)
		if len(multi) > 10000 {
			break
		}
	}
	for i, r := range multi {
		if r.Id != i && r.Err == nil {
			return fmt.Errorf("%s: record %d carries id %d", c.Format, i, r.Id)
		}
		if r.Err != nil && i != len(multi)-1 && c.Format != "phyloxml" {
			return fmt.Errorf("%s: a record follows an error record", c.Format)
		}
	}
	mok := len(multi) > 0 && multi[0].Err == nil && multi[0].Tree != nil && multi[0].Tree.Root() != nil
	fok := ferr == nil && first != nil && first.Root() != nil
	if fok != mok {
		// the Newick single-tree parser reads one tree from the stream and ignores what follows,
		// the multi reader splits at ';' + end of line first: texts where the two split
		// differently (e.g. "(a,b);(c" on one line) are not "files of trees" and are skipped
		if c.Format == "newick" {
			return nil
		}
		return fmt.Errorf("%s: first-tree reader ok=%v (%v) but multi-tree reader ok=%v", c.Format, fok, ferr, mok)
	}
	if fok {
		a, b := first.Newick(), multi[0].Tree.Newick()
		if c.Format == "newick" {
			// a label broken over two lines keeps its line break in the single-tree reader and
			// loses it in the multi reader (lines are joined): labels with blanks are out of domain
			strip := strings.NewReplacer("\r", "", "\n", "")
			a, b = strip.Replace(a), strip.Replace(b)
		}
		if a != b {
			if c.Format == "newick" && strings.Count(string(c.Doc), ";") != 1 {
				return nil
			}
			return fmt.Errorf("%s: 'first tree' is %s, the multi-tree reader delivers %s first", c.Format, a, b)
		}
	}
	return nil
}

// breaksLabel tells whether a line break of the text touches a token whose reading depends on it:
// it follows a label or number directly, or precedes one in a position where numbers are read
// (after ')' or ':').
func breaksLabel(doc []byte) bool {
	punct := func(b byte) bool { return strings.IndexByte("(),:;[] \t\r\n", b) >= 0 }
	for i, b := range doc {
		if b != '\n' && b != '\r' {
			continue
		}
		if i > 0 && !punct(doc[i-1]) {
			return true // label or number, then the break
		}
		if i+1 < len(doc) && !punct(doc[i+1]) {
			// the break, then a label or number: harmless in front of a tip label (after ',' or '('),
			// where the token is a name either way; not after ')' or ':' where it may be a number
			j := i - 1
			for j >= 0 && (doc[j] == ' ' || doc[j] == '\t' || doc[j] == '\r' || doc[j] == '\n') {
				j--
			}
			if j < 0 || (doc[j] != ',' && doc[j] != '(') {
				return true
			}
		}
	}
	return false
}

func FuzzSingleMulti(f *testing.F) {
	a, _ := ref.Parse("((a:1,b:0.5)0.9:0.1,(c:1e-3,d:2)N1:1,e:0);")
	b, _ := ref.Parse("((a,c),(b,d),e);")
	ms := []*ref.Node{a, b}
	f.Add(uint8(0), []byte(docs.MultiNewick(ms, docs.Layout{BreakAfterComma: true, BlankLines: 2})))
	f.Add(uint8(1), []byte(docs.Nexus(ms, docs.NexusOpts{Translate: true, Taxa: true})))
	f.Add(uint8(1), []byte(docs.Nexus(ms, docs.NexusOpts{Comments: true, Lower: true})))
	f.Add(uint8(2), []byte(docs.PhyloXML(ms)))
	f.Add(uint8(3), []byte(docs.Nextstrain(a, true)))
	f.Fuzz(func(t *testing.T, k uint8, data []byte) {
		if len(data) > 1<<14 {
			return
		}
		c := AgreeCase{Format: fmtNames[int(k)%4], Doc: data}
		h.FuzzCheck(t, 15*time.Second, func() error { return checkAgree(c) })
	})
}

func TestC13Agree(t *testing.T) {
	h.Run(t, h.Spec[AgreeCase]{
		Property: "C13", Name: "agree", Quick: 8000, Thorough: 200000,
		Rule: "valid documents of the four formats (independent writers) with 0-3 byte-level mutations: first-tree reader and multi-tree reader must agree (both fail, or same first tree), ids consecutive, nothing after an error record; non-trivial = mutated document that still delivers a tree",
		Gen: func(t *rapid.T, thorough bool) AgreeCase {
			o := gen.Opts{MinTips: 2, MaxTips: 7, Rooted: -1, MaxDeg: 4, Lens: gen.AnyPresence, LenVals: gen.Dyadic, Sups: gen.AnyPresence, InnerNames: gen.AnyPresence}
			base := gen.Tree(t, o)
			ms := []*ref.Node{base, gen.Perturb(t, base, 2, true, gen.Dyadic)}
			k := rapid.IntRange(0, 3).Draw(t, "fmt")
			var doc string
			switch k {
			case 0:
				doc = docs.MultiNewick(ms, docs.Layout{BreakAfterComma: rapid.Bool().Draw(t, "brk"), BlankLines: rapid.IntRange(0, 2).Draw(t, "bl")})
			case 1:
				doc = docs.Nexus(ms, docs.NexusOpts{Translate: rapid.Bool().Draw(t, "tr"), Taxa: rapid.Bool().Draw(t, "tx"), Comments: rapid.Bool().Draw(t, "cm")})
			case 2:
				doc = docs.PhyloXML(ms)
			default:
				doc = docs.Nextstrain(base, rapid.Bool().Draw(t, "attrs"))
			}
			d := []byte(doc)
			for i, n := 0, rapid.IntRange(0, 3).Draw(t, "nmut"); i < n; i++ {
				d = docs.GenMutation(t).Apply(d, []byte(doc))
			}
			show := d
			if len(show) > 200 {
				show = show[:200]
			}
			return AgreeCase{Format: fmtNames[k], Doc: d, Show: strings.ToValidUTF8(string(show), "?")}
		},
		Check: checkAgree,
		Classify: func(c AgreeCase) (bool, []string) {
			f := map[string]int{"newick": utils.FORMAT_NEWICK, "nexus": utils.FORMAT_NEXUS, "phyloxml": utils.FORMAT_PHYLOXML, "nextstrain": utils.FORMAT_NEXTSTRAIN}[c.Format]
			t, err := utils.ReadTreeReader(bufio.NewReader(strings.NewReader(string(c.Doc))), f)
			ok := err == nil && t != nil
			l := []string{"format:" + c.Format}
			if c.Format == "newick" && breaksLabel(c.Doc) {
				return false, append(l, "newick:skipped-line-break-touches-a-token")
			}
			if ok {
				l = append(l, c.Format+":delivers")
			} else {
				l = append(l, c.Format+":rejects")
			}
			return ok, l
		},
	})
}

func TestCorpusToReplay(t *testing.T) {
	h.CorpusToReplay(t, "C13", map[string]struct {
		Check string
		Make  func(args []string) any
	}{
		"FuzzSingleMulti": {"agree", func(args []string) any {
			k, _ := strconv.Atoi(strings.TrimSpace(args[0]))
			// uint8 literals may be written as a quoted rune
			if len(args[0]) == 1 && (args[0][0] < '0' || args[0][0] > '9') {
				k = int(args[0][0])
			}
			return AgreeCase{Format: fmtNames[k%4], Doc: []byte(args[1]), Show: strings.ToValidUTF8(args[1], "?")}
		}},
	})
}
